import BufrModel.Find
import BufrSpec.Find
/-
  BufrProofs.FindQuals — the qualifier stack of bufr_expand_qualifiers against "the most recent descriptor
  carrying the qualifier, unless it is missing" (C17, qualifier part).

  `StackInv ns i st`: after the descriptors before position `i`, the stack `st` holds exactly the positions
  `k` that are the last carrier of their descriptor before `i` and are not missing, each once.
-/
namespace Bufr.Find
open Bufr Bufr.Spec.Find

/-- element descriptors of classes 01–09 never carry the class 31 / class 33 flags -/
def flagsSane (ns : List Node) : Bool :=
  ns.all fun n => !isQualifier n.desc || (!n.flags.class31 && !n.flags.class33)

theorem isQualifier_eq (d : Nat) : isQualifier d = isQualifierDesc d := rfl

/-- the entry `k` of the stack has descriptor `d` -/
def HasDesc (ns : List Node) (d : Nat) (k : Nat) : Prop := (ns[k]?.map (·.desc)) = some d

instance (ns : List Node) (d k : Nat) : Decidable (HasDesc ns d k) := by unfold HasDesc; infer_instance

/-! #### the spec's backward scan -/

theorem lastCarrier_succ (ns : List Node) (d i : Nat) :
    lastCarrier ns d (i + 1) =
      (match ns[i]? with
       | some n => if carries n d then some i else lastCarrier ns d i
       | none => lastCarrier ns d i) := rfl

theorem lastCarrier_some {ns : List Node} {d : Nat} : ∀ {i k : Nat}, lastCarrier ns d i = some k →
    k < i ∧ ∃ n, ns[k]? = some n ∧ carries n d = true := by
  intro i
  induction i with
  | zero => intro k h; simp [lastCarrier] at h
  | succ i ih =>
    intro k h
    rw [lastCarrier_succ] at h
    cases hn : ns[i]? with
    | none =>
      rw [hn] at h
      obtain ⟨h1, h2⟩ := ih h
      exact ⟨by omega, h2⟩
    | some n =>
      rw [hn] at h
      by_cases hc : carries n d = true
      · simp only [hc, if_true] at h
        have : i = k := by simpa using h
        subst this
        exact ⟨by omega, n, hn, hc⟩
      · simp only [hc] at h
        obtain ⟨h1, h2⟩ := ih h
        exact ⟨by omega, h2⟩

theorem carries_desc {n : Node} {d : Nat} (h : carries n d = true) : n.desc = d := by
  unfold carries at h
  simp only [Bool.and_eq_true, beq_iff_eq] at h
  exact h.1.1

/-! #### replacing the last entry with a given descriptor -/

theorem replaceLast_none {ns : List Node} {d : Nat} {new : Option Nat} : ∀ {st : List Nat},
    stackReplaceLast ns d new st = none → ∀ k ∈ st, ¬ HasDesc ns d k := by
  intro st
  induction st with
  | nil => intro _ k hk; simp at hk
  | cons a rest ih =>
    intro h k hk
    unfold stackReplaceLast at h
    cases hr : stackReplaceLast ns d new rest with
    | some r => rw [hr] at h; simp at h
    | none =>
      rw [hr] at h
      by_cases ha : (ns[a]?.map (·.desc)) = some d
      · simp [ha] at h
      · rcases List.mem_cons.mp hk with rfl | hk'
        · exact ha
        · exact ih hr k hk'

theorem replaceLast_some {ns : List Node} {d : Nat} {new : Option Nat} : ∀ {st st' : List Nat},
    stackReplaceLast ns d new st = some st' →
    ∃ pre k post, st = pre ++ k :: post ∧ HasDesc ns d k ∧ (∀ x ∈ post, ¬ HasDesc ns d x) ∧
      st' = pre ++ (new.toList ++ post) := by
  intro st
  induction st with
  | nil => intro st' h; simp [stackReplaceLast] at h
  | cons a rest ih =>
    intro st' h
    unfold stackReplaceLast at h
    cases hr : stackReplaceLast ns d new rest with
    | some r =>
      rw [hr] at h
      obtain ⟨pre, k, post, h1, h2, h3, h4⟩ := ih hr
      have : st' = a :: r := by simpa using h.symm
      exact ⟨a :: pre, k, post, by simp [h1], h2, h3, by simp [this, h4]⟩
    | none =>
      rw [hr] at h
      by_cases ha : (ns[a]?.map (·.desc)) = some d
      · simp only [ha, if_true] at h
        have : st' = new.toList ++ rest := by simpa using h.symm
        exact ⟨[], a, rest, by simp, ha, replaceLast_none hr, by simp [this]⟩
      · simp [ha] at h

/-- membership and distinctness after the update of the stack, given that the entries are distinct, that at
most one has descriptor `d` and that `i` is not among them -/
theorem update_mem {ns : List Node} {d i : Nat} {st : List Nat} (hnd : st.Nodup)
    (huniq : ∀ x ∈ st, ∀ y ∈ st, HasDesc ns d x → HasDesc ns d y → x = y) (hi : i ∉ st) :
    (let st' := (stackReplaceLast ns d none st).getD st
     st'.Nodup ∧ ∀ x, x ∈ st' ↔ (x ∈ st ∧ ¬ HasDesc ns d x)) ∧
    (let st' := (stackReplaceLast ns d (some i) st).getD (st ++ [i])
     st'.Nodup ∧ ∀ x, x ∈ st' ↔ ((x ∈ st ∧ ¬ HasDesc ns d x) ∨ x = i)) := by
  constructor
  · cases hr : stackReplaceLast ns d none st with
    | none =>
      have hno := replaceLast_none hr
      simp only [Option.getD_none]
      exact ⟨hnd, fun x => ⟨fun h => ⟨h, hno x h⟩, fun h => h.1⟩⟩
    | some st' =>
      obtain ⟨pre, k, post, h1, h2, h3, h4⟩ := replaceLast_some hr
      simp only [Option.getD_some, Option.toList_none, List.nil_append] at h4 ⊢
      subst h1 h4
      refine ⟨List.Nodup.sublist (List.Sublist.append (List.Sublist.refl _) (List.sublist_cons_self _ _)) hnd, ?_⟩
      intro x
      have hk : k ∈ pre ++ k :: post := by simp
      rw [List.nodup_append] at hnd
      obtain ⟨_, hnd2, hnd3⟩ := hnd
      rw [List.nodup_cons] at hnd2
      constructor
      · intro hx
        have hxm : x ∈ pre ++ k :: post := by
          rcases List.mem_append.mp hx with h | h
          · exact List.mem_append.mpr (Or.inl h)
          · exact List.mem_append.mpr (Or.inr (List.mem_cons_of_mem _ h))
        refine ⟨hxm, ?_⟩
        intro hd
        have hxk : x = k := huniq x hxm k hk hd h2
        subst hxk
        rcases List.mem_append.mp hx with h | h
        · exact hnd3 x h x (List.mem_cons_self) rfl
        · exact hnd2.1 h
      · rintro ⟨hx, hd⟩
        rcases List.mem_append.mp hx with h | h
        · exact List.mem_append.mpr (Or.inl h)
        · rcases List.mem_cons.mp h with rfl | h'
          · exact absurd h2 hd
          · exact List.mem_append.mpr (Or.inr h')
  · cases hr : stackReplaceLast ns d (some i) st with
    | none =>
      have hno := replaceLast_none hr
      simp only [Option.getD_none]
      refine ⟨?_, ?_⟩
      · rw [List.nodup_append]
        refine ⟨hnd, by simp, ?_⟩
        intro a ha b hb
        have : b = i := by simpa using hb
        subst this
        intro hab; subst hab; exact hi ha
      · intro x
        simp only [List.mem_append, List.mem_cons, List.not_mem_nil, or_false]
        constructor
        · rintro (h | h)
          · exact Or.inl ⟨h, hno x h⟩
          · exact Or.inr h
        · rintro (h | h)
          · exact Or.inl h.1
          · exact Or.inr h
    | some st' =>
      obtain ⟨pre, k, post, h1, h2, h3, h4⟩ := replaceLast_some hr
      simp only [Option.getD_some, Option.toList_some] at h4 ⊢
      subst h1 h4
      have hk : k ∈ pre ++ k :: post := by simp
      have hnd0 := hnd
      rw [List.nodup_append] at hnd
      obtain ⟨hnd1, hnd2, hnd3⟩ := hnd
      rw [List.nodup_cons] at hnd2
      have hipre : i ∉ pre := fun h => hi (List.mem_append.mpr (Or.inl h))
      have hipost : i ∉ post := fun h => hi (List.mem_append.mpr (Or.inr (List.mem_cons_of_mem _ h)))
      refine ⟨?_, ?_⟩
      · rw [List.nodup_append]
        refine ⟨hnd1, ?_, ?_⟩
        · simp only [List.singleton_append, List.nodup_cons]
          exact ⟨hipost, hnd2.2⟩
        · intro a ha b hb
          simp only [List.singleton_append, List.mem_cons] at hb
          rcases hb with rfl | hb
          · intro hab; subst hab; exact hipre ha
          · exact hnd3 a ha b (List.mem_cons_of_mem _ hb)
      · intro x
        simp only [List.mem_append, List.mem_cons, List.not_mem_nil, or_false]
        constructor
        · rintro (h | h | h)
          · left
            refine ⟨Or.inl h, ?_⟩
            intro hd
            have hxk : x = k := huniq x (List.mem_append.mpr (Or.inl h)) k hk hd h2
            subst hxk
            exact hnd3 x h x (List.mem_cons_self) rfl
          · exact Or.inr h
          · left
            refine ⟨Or.inr (Or.inr h), h3 x h⟩
        · rintro (⟨h | h | h, hd⟩ | h)
          · exact Or.inl h
          · subst h; exact absurd h2 hd
          · exact Or.inr (Or.inr h)
          · exact Or.inr (Or.inl h)

/-! #### the invariant -/

structure StackInv (ns : List Node) (i : Nat) (st : List Nat) : Prop where
  nodup : st.Nodup
  good : ∀ k ∈ st, ∃ q, ns[k]? = some q ∧ isQualifier q.desc = true ∧ q.val.isSome = true ∧
    q.val.isMissing = false ∧ lastCarrier ns q.desc i = some k
  complete : ∀ d k q, isQualifier d = true → lastCarrier ns d i = some k → ns[k]? = some q →
    q.val.isMissing = false → k ∈ st

theorem StackInv.lt {ns : List Node} {i : Nat} {st : List Nat} (h : StackInv ns i st) : ∀ k ∈ st, k < i := by
  intro k hk
  obtain ⟨q, _, _, _, _, hl⟩ := h.good k hk
  exact (lastCarrier_some hl).1

theorem StackInv.hasDesc {ns : List Node} {i : Nat} {st : List Nat} (h : StackInv ns i st) {d k : Nat}
    (hk : k ∈ st) (hd : HasDesc ns d k) : lastCarrier ns d i = some k ∧ isQualifier d = true := by
  obtain ⟨q, hq, hqual, _, _, hl⟩ := h.good k hk
  unfold HasDesc at hd
  rw [hq] at hd
  have : q.desc = d := by simpa using hd
  subst this
  exact ⟨hl, hqual⟩

theorem StackInv.uniq {ns : List Node} {i : Nat} {st : List Nat} (h : StackInv ns i st) (d : Nat) :
    ∀ x ∈ st, ∀ y ∈ st, HasDesc ns d x → HasDesc ns d y → x = y := by
  intro x hx y hy hdx hdy
  have h1 := (h.hasDesc hx hdx).1
  have h2 := (h.hasDesc hy hdy).1
  rw [h1] at h2
  exact Option.some.inj h2

theorem stackInv_nil (ns : List Node) : StackInv ns 0 [] :=
  ⟨List.nodup_nil, by intro k hk; simp at hk, by intro d k q _ h; simp [lastCarrier] at h⟩

/-- a descriptor that carries no qualifier leaves the invariant alone -/
theorem stackInv_skip {ns : List Node} {i : Nat} {st : List Nat} {n : Node} (hn : ns[i]? = some n)
    (hno : ∀ d, isQualifier d = true → carries n d = false) (h : StackInv ns i st) : StackInv ns (i + 1) st := by
  have hstep : ∀ d, isQualifier d = true → lastCarrier ns d (i + 1) = lastCarrier ns d i := by
    intro d hd
    rw [lastCarrier_succ, hn]
    simp [hno d hd]
  refine ⟨h.nodup, ?_, ?_⟩
  · intro k hk
    obtain ⟨q, h1, h2, h3, h4, h5⟩ := h.good k hk
    exact ⟨q, h1, h2, h3, h4, by rw [hstep _ h2]; exact h5⟩
  · intro d k q hd hl hq hm
    rw [hstep d hd] at hl
    exact h.complete d k q hd hl hq hm

/-- one turn of the loop keeps the invariant -/
theorem stackInv_step {ns : List Node} (hs : flagsSane ns = true) {i : Nat} {st : List Nat} {n : Node}
    (hn : ns[i]? = some n) (h : StackInv ns i st) :
    StackInv ns (i + 1) (if n.flags.class31 || n.flags.class33 then st else stackUpdate ns st i n) := by
  have hmem : n ∈ ns := List.mem_of_getElem? hn
  have hsane : isQualifier n.desc = true → n.flags.class31 = false ∧ n.flags.class33 = false := by
    intro hq
    have := (List.all_eq_true.mp hs) n hmem
    simp only [hq, Bool.not_true, Bool.false_or, Bool.and_eq_true, Bool.not_eq_true'] at this
    exact this
  by_cases hfl : (n.flags.class31 || n.flags.class33) = true
  · rw [if_pos hfl]
    apply stackInv_skip hn _ h
    intro d hd
    by_cases hc : carries n d = true
    · have := carries_desc hc
      subst this
      obtain ⟨h1, h2⟩ := hsane hd
      simp [h1, h2] at hfl
    · simpa using hc
  · rw [if_neg hfl]
    unfold stackUpdate
    by_cases hcond : (isQualifier n.desc && n.val.isSome && !n.flags.skipped) = true
    · rw [if_pos hcond]
      simp only [Bool.and_eq_true, Bool.not_eq_true'] at hcond
      obtain ⟨⟨hq, hsome⟩, hskip⟩ := hcond
      have hcar : carries n n.desc = true := by simp [carries, hsome, hskip]
      have hcar' : ∀ d, d ≠ n.desc → carries n d = false := by
        intro d hd
        simp only [carries, Bool.and_eq_false_imp, Bool.and_eq_true, beq_iff_eq]
        intro ⟨h1, _⟩; exact absurd h1.symm hd
      have hl0 : lastCarrier ns n.desc (i + 1) = some i := by
        rw [lastCarrier_succ, hn]; simp [hcar]
      have hl' : ∀ d, d ≠ n.desc → lastCarrier ns d (i + 1) = lastCarrier ns d i := by
        intro d hd
        rw [lastCarrier_succ, hn]; simp [hcar' d hd]
      have hi : i ∉ st := fun hx => Nat.lt_irrefl _ (h.lt i hx)
      have hid : HasDesc ns n.desc i := by simp [HasDesc, hn]
      obtain ⟨hA, hB⟩ := update_mem (ns := ns) (d := n.desc) (i := i) h.nodup (h.uniq n.desc) hi
      -- entries of the old stack that survive have another descriptor: their last carrier is unchanged
      have hkeep : ∀ k ∈ st, ¬ HasDesc ns n.desc k → ∃ q, ns[k]? = some q ∧ isQualifier q.desc = true ∧
          q.val.isSome = true ∧ q.val.isMissing = false ∧ lastCarrier ns q.desc (i + 1) = some k := by
        intro k hk hnd
        obtain ⟨q, h1, h2, h3, h4, h5⟩ := h.good k hk
        have hne : q.desc ≠ n.desc := by
          intro he; apply hnd; simp [HasDesc, h1, he]
        exact ⟨q, h1, h2, h3, h4, by rw [hl' _ hne]; exact h5⟩
      have hcomp : ∀ d k q, d ≠ n.desc → isQualifier d = true → lastCarrier ns d (i + 1) = some k →
          ns[k]? = some q → q.val.isMissing = false → k ∈ st ∧ ¬ HasDesc ns n.desc k := by
        intro d k q hd hqd hl hq' hm
        rw [hl' d hd] at hl
        refine ⟨h.complete d k q hqd hl hq' hm, ?_⟩
        obtain ⟨_, n', hn', hc'⟩ := lastCarrier_some hl
        have := carries_desc hc'
        intro hdk
        unfold HasDesc at hdk
        rw [hn'] at hdk
        have h2 : n'.desc = n.desc := by simpa using hdk
        exact hd (by rw [← this, h2])
      by_cases hmiss : n.val.isMissing = true
      · rw [if_pos hmiss]
        obtain ⟨hnd', hmem'⟩ := hA
        refine ⟨hnd', ?_, ?_⟩
        · intro k hk
          obtain ⟨hk1, hk2⟩ := (hmem' k).mp hk
          exact hkeep k hk1 hk2
        · intro d k q hqd hl hq' hm
          by_cases hd : d = n.desc
          · subst hd
            rw [hl0] at hl
            have : i = k := Option.some.inj hl
            subst this
            rw [hn] at hq'
            have : n = q := Option.some.inj hq'
            subst this
            rw [hmiss] at hm; exact absurd hm (by simp)
          · exact (hmem' k).mpr (hcomp d k q hd hqd hl hq' hm)
      · rw [if_neg hmiss]
        have hmiss' : n.val.isMissing = false := by simpa using hmiss
        obtain ⟨hnd', hmem'⟩ := hB
        refine ⟨hnd', ?_, ?_⟩
        · intro k hk
          rcases (hmem' k).mp hk with ⟨hk1, hk2⟩ | rfl
          · exact hkeep k hk1 hk2
          · exact ⟨n, hn, hq, hsome, hmiss', hl0⟩
        · intro d k q hqd hl hq' hm
          by_cases hd : d = n.desc
          · subst hd
            rw [hl0] at hl
            have : i = k := Option.some.inj hl
            subst this
            exact (hmem' i).mpr (Or.inr rfl)
          · exact (hmem' k).mpr (Or.inl (hcomp d k q hd hqd hl hq' hm))
    · rw [if_neg hcond]
      apply stackInv_skip hn _ h
      intro d hd
      by_cases hc : carries n d = true
      · exfalso
        have hdesc := carries_desc hc
        subst hdesc
        unfold carries at hc
        simp only [Bool.and_eq_true, beq_iff_eq, Bool.not_eq_true'] at hc
        apply hcond
        simp [hd, hc.1.2, hc.2]
      · simpa using hc

/-! #### what a descriptor's list answers -/

theorem findSome_unique {α β : Type} (f : α → Option β) : ∀ (l : List α) (k : α), k ∈ l →
    (∀ k' ∈ l, (f k').isSome = true → k' = k) → l.findSome? f = f k := by
  intro l
  induction l with
  | nil => intro k hk; simp at hk
  | cons a t ih =>
    intro k hk hu
    rw [List.findSome?_cons]
    cases hfa : f a with
    | some b =>
      have : a = k := hu a (List.mem_cons_self) (by simp [hfa])
      subst this
      simp [hfa]
    | none =>
      simp only []
      rcases List.mem_cons.mp hk with rfl | hk'
      · -- f k = none: nothing else answers
        rw [hfa]
        rw [List.findSome?_eq_none_iff]
        intro x hx
        cases hfx : f x with
        | none => rfl
        | some b =>
          have : x = k := hu x (List.mem_cons_of_mem _ hx) (by simp [hfx])
          subst this
          rw [hfa] at hfx; exact absurd hfx (by simp)
      · exact ih k hk' (fun k' hk'' hs => hu k' (List.mem_cons_of_mem _ hk'') hs)

/-- the qualifier in effect as the spec defines it, from the backward scan -/
def inEffectScan (ns : List Node) (i d : Nat) : Option Nat :=
  if !isQualifierDesc d then none else effective ns d i

theorem stackCopy_eq {ns : List Node} {i : Nat} {st : List Nat} (h : StackInv ns i st) : stackCopy ns st = st := by
  unfold stackCopy
  rw [List.filter_eq_self]
  intro k hk
  obtain ⟨q, h1, _, h3, h4, _⟩ := h.good k hk
  simp [h1, h3, h4]

/-- the list given to a descriptor at position `i` answers every lookup with the qualifier in effect -/
theorem fetch_of_inv {ns : List Node} {i : Nat} {st : List Nat} (h : StackInv ns i st) (d : Nat) :
    fetchRtmdQualifier ns (stackCopy ns st) d = (inEffectScan ns i d).bind (ns[·]?) := by
  rw [stackCopy_eq h]
  unfold fetchRtmdQualifier inEffectScan effective
  by_cases hex : ∃ k ∈ st, HasDesc ns d k
  · obtain ⟨k, hk, hd⟩ := hex
    obtain ⟨hl, hq⟩ := h.hasDesc hk hd
    obtain ⟨q, hq1, _, _, hq4, _⟩ := h.good k hk
    have hdq : q.desc = d := by
      unfold HasDesc at hd; rw [hq1] at hd; simpa using hd
    rw [findSome_unique _ st k hk]
    · rw [← isQualifier_eq, hq, hl]
      simp [qualAt, hq1, hq4, hdq]
    · intro k' hk' hs
      unfold qualAt at hs
      cases hn' : ns[k']? with
      | none => simp [hn'] at hs
      | some q' =>
        by_cases hd' : q'.desc = d
        · exact h.uniq d k' hk' k hk (by simp [HasDesc, hn', hd']) hd
        · simp [hn', hd'] at hs
  · have hnone : st.findSome? (qualAt ns d) = none := by
      rw [List.findSome?_eq_none_iff]
      intro x hx
      unfold qualAt
      cases hn' : ns[x]? with
      | none => rfl
      | some q' =>
        by_cases hd' : q'.desc = d
        · exact absurd ⟨x, hx, by simp [HasDesc, hn', hd']⟩ hex
        · simp [hd']
    rw [hnone]
    by_cases hq : isQualifierDesc d = true
    · simp only [hq, Bool.not_true, Bool.false_eq_true, if_false]
      cases hl : lastCarrier ns d i with
      | none => rfl
      | some k =>
        simp only []
        cases hk : ns[k]? with
        | none => rfl
        | some q =>
          simp only []
          by_cases hm : q.val.isMissing = true
          · simp [hm]
          · exfalso
            have hm' : q.val.isMissing = false := by simpa using hm
            have hmem := h.complete d k q (by rw [isQualifier_eq]; exact hq) hl hk hm'
            obtain ⟨_, n', hn', hc'⟩ := lastCarrier_some hl
            rw [hk] at hn'
            have : q = n' := Option.some.inj hn'
            subst this
            exact hex ⟨k, hmem, by simp [HasDesc, hk, carries_desc hc']⟩
    · have : isQualifierDesc d = false := by simpa using hq
      simp [this]

/-! #### the whole pass -/

/-- `expandQualsGo` on the descriptors from position `i` on: the list given to the descriptor at `i + j` -/
theorem expandQualsGo_spec {ns : List Node} (hs : flagsSane ns = true) :
    ∀ (rest : List Node) (prev : List (List Nat)) (i : Nat) (st : List Nat),
      rest = ns.drop i → StackInv ns i st →
      ∀ (j : Nat) (n : Node), rest[j]? = some n →
        ((n.flags.class31 || n.flags.class33) = true →
          (expandQualsGo true ns rest prev i st).getD j [] = prev.getD j []) ∧
        ((n.flags.class31 || n.flags.class33) = false → ∀ d,
          fetchRtmdQualifier ns ((expandQualsGo true ns rest prev i st).getD j []) d =
            (inEffectScan ns (i + j) d).bind (ns[·]?)) := by
  intro rest
  induction rest with
  | nil => intro prev i st _ _ j n hj; simp at hj
  | cons a t ih =>
    intro prev i st hrest hinv j n hj
    have hai : ns[i]? = some a := by
      have := congrArg (fun l => l[0]?) hrest
      simp only [List.getElem?_cons_zero, List.getElem?_drop, Nat.add_zero] at this
      exact this.symm
    have ht : t = ns.drop (i + 1) := by
      have := congrArg List.tail hrest
      simp only [List.tail_cons, List.tail_drop] at this
      exact this
    have hstep := stackInv_step hs hai hinv
    unfold expandQualsGo
    cases j with
    | zero =>
      have han : a = n := by simpa using hj
      subst han
      by_cases hfl : (a.flags.class31 || a.flags.class33) = true
      · rw [if_pos hfl]
        refine ⟨fun _ => by simp [List.getD_eq_getElem?_getD, List.headD_eq_head?_getD, List.head?_eq_getElem?], fun h => ?_⟩
        rw [hfl] at h; exact absurd h (by simp)
      · rw [if_neg hfl]
        refine ⟨fun h => absurd h hfl, fun _ d => ?_⟩
        simp only [List.getD_eq_getElem?_getD, List.getElem?_cons_zero, Option.getD_some, if_true, Nat.add_zero]
        exact fetch_of_inv hinv d
    | succ j =>
      have hj' : t[j]? = some n := by simpa using hj
      by_cases hfl : (a.flags.class31 || a.flags.class33) = true
      · rw [if_pos hfl]
        rw [if_pos hfl] at hstep
        have := ih prev.tail (i + 1) st ht hstep j n hj'
        simp only [List.getD_eq_getElem?_getD, List.getElem?_cons_succ] at this ⊢
        have hp : prev.tail[j]? = prev[j + 1]? := by simp [List.getElem?_tail]
        rw [hp] at this
        have hidx : i + 1 + j = i + (j + 1) := by omega
        rw [hidx] at this
        exact this
      · rw [if_neg hfl]
        rw [if_neg hfl] at hstep
        have := ih prev.tail (i + 1) (stackUpdate ns st i a) ht hstep j n hj'
        simp only [List.getD_eq_getElem?_getD, List.getElem?_cons_succ] at this ⊢
        have hp : prev.tail[j]? = prev[j + 1]? := by simp [List.getElem?_tail]
        rw [hp] at this
        have hidx : i + 1 + j = i + (j + 1) := by omega
        rw [hidx] at this
        exact this

/-- the spec's `inEffect` is the scan, except that flagged descriptors have no qualifiers -/
theorem inEffect_eq {ns : List Node} {i : Nat} {n : Node} (hn : ns[i]? = some n) (d : Nat) :
    inEffect ns i d = if n.flags.class31 || n.flags.class33 then none else inEffectScan ns i d := by
  unfold inEffect inEffectScan
  rw [hn]
  by_cases hfl : (n.flags.class31 || n.flags.class33) = true
  · simp [hfl]
  · have hfl' : (n.flags.class31 || n.flags.class33) = false := by simpa using hfl
    simp only [hfl', Bool.false_or, Bool.false_eq_true, if_false]

/-- **qualifier tracking**: after `bufr_expand_qualifiers` (tracking on, lists empty or not before), the list
of every descriptor that is not flagged class 31/33 answers `bufr_fetch_rtmd_qualifier` with the qualifier in
effect; flagged descriptors keep the list they had -/
theorem expandQualifiers_spec {ns : List Node} (hs : flagsSane ns = true) (prev : List (List Nat))
    (i : Nat) (n : Node) (hn : ns[i]? = some n) :
    ((n.flags.class31 || n.flags.class33) = true →
      (expandQualifiers true ns prev).2.getD i [] = prev.getD i []) ∧
    ((n.flags.class31 || n.flags.class33) = false → ∀ d,
      fetchRtmdQualifier ns ((expandQualifiers true ns prev).2.getD i []) d = (inEffect ns i d).bind (ns[·]?)) := by
  have hne : ns.isEmpty = false := by
    cases ns with
    | nil => simp at hn
    | cons _ _ => rfl
  unfold expandQualifiers
  rw [hne]
  simp only [Bool.false_eq_true, if_false]
  have h := expandQualsGo_spec hs ns prev 0 [] (by simp) (stackInv_nil ns) i n hn
  refine ⟨h.1, fun hfl d => ?_⟩
  rw [inEffect_eq hn d, hfl]
  simpa using h.2 hfl d

end Bufr.Find
