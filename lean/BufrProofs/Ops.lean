import BufrModel.Ops
import BufrSpec.Ops
/-
  T-Ops: the `BufrDDOp` state machine simulates the FM 94 Table C register file
  (template-build time: no new reference value is known yet).
-/
namespace Bufr
open Bufr.Spec

def kindOf : DType → Kind
  | .numeric => .num | .ccitt => .ccitt | .codetable => .code | .flagtable => .flag
  | .ieee => .ieee | .chngRef => .newRef | .operator => .op
  | _ => .none

/-- the Section 4 layout the model gives a node -/
def layoutOf (n : Node) : Layout :=
  { desc := n.desc, kind := kindOf n.enc.type, width := n.enc.nbits, scale := n.enc.scale,
    ref := n.enc.ref, af := n.enc.afNbits }

def listSum (l : List Nat) : Nat := l.foldl (· + ·) 0

theorem foldl_add_eq (l : List Nat) (a : Nat) : l.foldl (· + ·) a = a + listSum l := by
  unfold listSum
  induction l generalizing a with
  | nil => simp
  | cons x xs ih => simp only [List.foldl_cons]; rw [ih, ih (0 + x)]; omega

theorem listSum_append (a b : List Nat) : listSum (a ++ b) = listSum a + listSum b := by
  unfold listSum; rw [List.foldl_append, foldl_add_eq]; rfl

theorem listSum_dropLast (l : List Nat) (w : Nat) (h : l.getLast? = some w) :
    listSum l = listSum l.dropLast + w := by
  have : l = l.dropLast ++ [w] := by
    have hne : l ≠ [] := by intro h0; subst h0; simp at h
    have := List.dropLast_concat_getLast hne
    rw [List.getLast?_eq_some_getLast hne] at h
    simp only [Option.some.injEq] at h
    rw [← h]; exact this.symm
  conv => lhs; rw [this]
  rw [listSum_append]; simp [listSum]

/-- simulation relation between the library's operator state and the regulation's registers -/
structure Sim (ddo : DDO) (st : OpState) : Prop where
  strict : ddo.enforce = .strict
  width : ddo.addNbits = if st.s7 > 0 then (((10 * st.s7 + 2) / 3 : Nat) : Int) else st.dw
  scale : ddo.multiplyScale = if st.s7 > 0 then (st.s7 : Int) else st.ds
  ref7 : ddo.changeRefValue = st.s7
  excl : st.s7 > 0 → st.dw = 0 ∧ st.ds = 0
  newRef : ddo.changeRefValOp = st.newRefBits
  noOverride : ddo.overrides = [] ∧ st.newRefs = []
  af : ddo.afList = st.af
  afSum : ddo.addAfNbits = (listSum st.af : Nat)
  localW : ddo.localNbitsFollows = st.localW
  ieee : ddo.useIeee = st.ieee
  ccitt : ddo.redefineCcitt = st.ccitt

theorem sim_init : Sim { enforce := .strict } {} := by
  constructor <;> simp [listSum]

/-- the per-operator conditions of `inScope` -/
def opOK (edition : Nat) (st : OpState) (x y : Nat) : Prop :=
  definedIn edition x = true ∧ ((x = 1 ∨ x = 2) → st.s7 = 0) ∧ ((x = 7 ∧ y ≠ 0) → st.dw = 0 ∧ st.ds = 0) ∧
  (x = 5 → st.af = [] ∧ st.ccitt = 0) ∧ ((x = 4 ∧ y > 0) → afTotal st + y ≤ 64)

theorem definedIn_cases (ed x : Nat) (hed : 2 ≤ ed ∧ ed ≤ 5) (h : definedIn ed x = true) :
    (1 ≤ x ∧ x ≤ 6) ∨ ((x = 7 ∨ x = 8) ∧ 4 ≤ ed) ∨ (x = 9 ∧ ed = 5) := by
  unfold definedIn at h
  split at h
  · left; assumption
  · split at h
    · right; left; simp at h; exact ⟨by assumption, h⟩
    · split at h
      · right; right; simp at h; omega
      · simp at h

/-- operators 1..6 go through `resolveV2` whatever the (strict) edition -/
theorem resolve_low (ddo : DDO) (x y ed : Nat) (hs : ddo.enforce = .strict) (hed : 2 ≤ ed ∧ ed ≤ 5)
    (hx : 1 ≤ x ∧ x ≤ 6) :
    (resolveTableC ddo x y ed).ddo = (resolveV2 ddo x y).ddo ∧
    (resolveTableC ddo x y ed).enc = (resolveV2 ddo x y).enc ∧ (resolveTableC ddo x y ed).rc ≥ 0 := by
  obtain ⟨h1, h6⟩ := hx
  have hx' : x = 1 ∨ x = 2 ∨ x = 3 ∨ x = 4 ∨ x = 5 ∨ x = 6 := by omega
  have he : ed = 2 ∨ ed = 3 ∨ ed = 4 ∨ ed = 5 := by omega
  unfold resolveTableC
  rw [if_pos hs]
  rcases he with rfl | rfl | rfl | rfl <;> rcases hx' with rfl | rfl | rfl | rfl | rfl | rfl <;>
    simp [resolveV5, resolveV4, resolveV3, resolveV2] <;> (try split) <;> (try simp) <;> (try split) <;> (try simp)

theorem sim_op (ddo : DDO) (st : OpState) (d x y ed : Nat) (hS : Sim ddo st) (hed : 2 ≤ ed ∧ ed ≤ 5)
    (hok : opOK ed st x y) :
    Sim (resolveTableC ddo x y ed).ddo (stepOp st d x y).1 ∧ (resolveTableC ddo x y ed).rc ≥ 0 ∧
    ((resolveTableC ddo x y ed).enc = if x = 5 then some (.ccitt, (y : Int) * 8) else none) := by
  obtain ⟨hdef, h12, h7, h5, h4⟩ := hok
  rcases definedIn_cases ed x hed hdef with hlow | ⟨h78, hed4⟩ | ⟨h9, hed5⟩
  · obtain ⟨e1, e2, e3⟩ := resolve_low ddo x y ed hS.strict hed hlow
    rw [e1, e2]
    refine ⟨?_, e3, ?_⟩
    · have hx' : x = 1 ∨ x = 2 ∨ x = 3 ∨ x = 4 ∨ x = 5 ∨ x = 6 := by omega
      rcases hx' with rfl | rfl | rfl | rfl | rfl | rfl
      · -- 2 01
        have hs7 := h12 (Or.inl rfl)
        have := hS.width; have := hS.scale
        constructor <;> simp_all [resolveV2, stepOp, hS.strict, hS.ref7, hS.newRef, hS.noOverride, hS.af,
          hS.afSum, hS.localW, hS.ieee, hS.ccitt]
      · have hs7 := h12 (Or.inr rfl)
        have := hS.width; have := hS.scale
        constructor <;> simp_all [resolveV2, stepOp, hS.strict, hS.ref7, hS.newRef, hS.noOverride, hS.af,
          hS.afSum, hS.localW, hS.ieee, hS.ccitt]
      · -- 2 03
        have := hS.width; have := hS.scale; have := hS.excl
        by_cases hy : y = 255
        · constructor <;> simp_all [resolveV2, stepOp, hS.strict, hS.ref7, hS.noOverride, hS.af,
            hS.afSum, hS.localW, hS.ieee, hS.ccitt]
        · by_cases hy0 : y = 0
          · constructor <;> simp_all [resolveV2, stepOp, hS.strict, hS.ref7, hS.noOverride, hS.af,
              hS.afSum, hS.localW, hS.ieee, hS.ccitt]
          · constructor <;> simp_all [resolveV2, stepOp, hS.strict, hS.ref7, hS.noOverride, hS.af,
              hS.afSum, hS.localW, hS.ieee, hS.ccitt]
      · -- 2 04
        have := hS.width; have := hS.scale; have := hS.excl
        by_cases hy : y > 0
        · have hsum : listSum (st.af ++ [y]) = listSum st.af + y := by rw [listSum_append]; simp [listSum]
          constructor <;> simp_all [resolveV2, stepOp, hS.strict, hS.ref7, hS.newRef, hS.noOverride, hS.af,
            hS.afSum, hS.localW, hS.ieee, hS.ccitt]
        · have hy0 : ¬ (y > 0) := hy
          cases hl : st.af.getLast? with
          | none =>
            have hnil : st.af = [] := by
              cases hst : st.af with
              | nil => rfl
              | cons a l => rw [hst] at hl; simp [List.getLast?] at hl
            constructor <;> simp_all [resolveV2, stepOp, hS.strict, hS.ref7, hS.newRef, hS.noOverride, hS.af,
              hS.afSum, hS.localW, hS.ieee, hS.ccitt, listSum]
          | some w =>
            have hsum := listSum_dropLast st.af w hl
            have hafs := hS.afSum
            have hafl : ddo.afList.getLast? = some w := by rw [hS.af]; exact hl
            constructor <;> simp_all [resolveV2, stepOp, hS.strict, hS.ref7, hS.newRef, hS.noOverride, hS.af,
              hS.localW, hS.ieee, hS.ccitt] <;> omega
      · -- 2 05
        have := hS.width; have := hS.scale; have := hS.excl
        constructor <;> simp_all [resolveV2, stepOp, hS.strict, hS.ref7, hS.newRef, hS.noOverride, hS.af,
          hS.afSum, hS.localW, hS.ieee, hS.ccitt]
      · have := hS.width; have := hS.scale; have := hS.excl
        constructor <;> simp_all [resolveV2, stepOp, hS.strict, hS.ref7, hS.newRef, hS.noOverride, hS.af,
          hS.afSum, hS.localW, hS.ieee, hS.ccitt]
    · have hx' : x = 1 ∨ x = 2 ∨ x = 3 ∨ x = 4 ∨ x = 5 ∨ x = 6 := by omega
      rcases hx' with rfl | rfl | rfl | rfl | rfl | rfl <;> simp [resolveV2] <;> (try split) <;> (try simp) <;>
        (try split) <;> (try simp)
  · -- 2 07 / 2 08 in editions 4, 5
    have he : ed = 4 ∨ ed = 5 := by omega
    have hstr := hS.strict
    have := hS.width; have := hS.scale; have := hS.excl
    rcases h78 with rfl | rfl
    · by_cases hy : y = 0
      · subst hy
        rcases he with rfl | rfl <;>
        refine ⟨?_, ?_, ?_⟩ <;> (try constructor) <;>
          simp_all [resolveTableC, resolveV5, resolveV4, badVersionTail, stepOp, hS.ref7, hS.newRef,
            hS.noOverride, hS.af, hS.afSum, hS.localW, hS.ieee, hS.ccitt]
      · have hz := h7 ⟨rfl, hy⟩
        have hypos : y > 0 := by omega
        rcases he with rfl | rfl <;>
        refine ⟨?_, ?_, ?_⟩ <;> (try constructor) <;>
          simp_all [resolveTableC, resolveV5, resolveV4, badVersionTail, stepOp, hS.ref7, hS.newRef,
            hS.noOverride, hS.af, hS.afSum, hS.localW, hS.ieee, hS.ccitt]
    · rcases he with rfl | rfl <;>
      refine ⟨?_, ?_, ?_⟩ <;> (try constructor) <;>
        simp_all [resolveTableC, resolveV5, resolveV4, badVersionTail, stepOp, hS.ref7, hS.newRef,
          hS.noOverride, hS.af, hS.afSum, hS.localW, hS.ieee, hS.ccitt]
  · -- 2 09 in edition 5
    subst h9; subst hed5
    have hstr := hS.strict
    have := hS.width; have := hS.scale; have := hS.excl
    by_cases h32 : y = 32 ∨ y = 64
    · refine ⟨?_, ?_, ?_⟩ <;> (try constructor) <;>
        simp_all [resolveTableC, resolveV5, badVersionTail, stepOp, hS.ref7, hS.newRef,
          hS.noOverride, hS.af, hS.afSum, hS.localW, hS.ccitt]
    · by_cases hy0 : y = 0
      · refine ⟨?_, ?_, ?_⟩ <;> (try constructor) <;>
          simp_all [resolveTableC, resolveV5, badVersionTail, stepOp, hS.ref7, hS.newRef,
            hS.noOverride, hS.af, hS.afSum, hS.localW, hS.ccitt]
      · refine ⟨?_, ?_, ?_⟩ <;> (try constructor) <;>
          simp_all [resolveTableC, resolveV5, badVersionTail, stepOp, hS.ref7, hS.newRef,
            hS.noOverride, hS.af, hS.afSum, hS.localW, hS.ieee, hS.ccitt]

end Bufr

namespace Bufr
open Bufr.Spec

/-- the per-element conditions of `inScope` -/
def elemOK (T : Tables) (st : OpState) (d : Nat) : Prop :=
  match T.fetchB d with
  | none => st.localW > 0 ∧ isLocal d = true ∧ Desc.x d ≠ 31 ∧ st.ieee = 0 ∧ st.newRefBits = 0 ∧ st.s7 = 0 ∧ st.ds = 0
  | some e => (st.localW > 0 → e.typ = .numeric ∧ Desc.x d ≠ 31) ∧ (Desc.x d = 31 → e.typ ≠ .ccitt) ∧
      (-2147483648 ≤ e.ref * 10 ^ st.s7 ∧ e.ref * 10 ^ st.s7 ≤ 2147483647)

theorem isLocal_eq (d : Nat) : isLocalDescriptor d = isLocal d := rfl

theorem afNbits_eq (ddo : DDO) (st : OpState) (hS : Sim ddo st) (hb : listSum st.af ≤ 64) :
    (if ddo.addAfNbits > 0 then ddo.addAfNbits.toNat % 256 else 0) = afTotal st := by
  have h := hS.afSum
  unfold afTotal
  change _ = listSum st.af
  rw [h]
  split
  · simp only [Int.toNat_natCast]; omega
  · omega

/-- closed form of the numeric branch under the simulation relation -/
theorem applyNumeric_spec (ddo : DDO) (st : OpState) (n : Node) (sc rf nb : Int) (A : Nat)
    (hS : Sim ddo st) (hfit : -2147483648 ≤ rf * 10 ^ st.s7 ∧ rf * 10 ^ st.s7 ≤ 2147483647) :
    applyNumeric ddo n { type := .numeric, scale := sc, ref := rf, nbits := nb, afNbits := A } =
      if st.ieee > 0 then
        ({ type := .ieee, scale := sc, ref := rf, nbits := st.ieee, afNbits := A }, ddo, false)
      else if st.newRefBits > 0 then
        ({ type := .chngRef, ref := 0, scale := 0, afNbits := 0, nbits := st.newRefBits }, ddo, false)
      else
        ({ type := .numeric, scale := sc + (if st.s7 > 0 then (st.s7 : Int) else st.ds), ref := rf * 10 ^ st.s7,
           nbits := if st.localW > 0 then (if isLocal n.desc then (st.localW : Int) else nb)
                    else nb + (if st.s7 > 0 then (((10 * st.s7 + 2) / 3 : Nat) : Int) else st.dw),
           afNbits := A },
         (if st.localW > 0 then { ddo with localNbitsFollows := 0 } else ddo), false) := by
  have hw := hS.width; have hsc := hS.scale; have hr7 := hS.ref7
  have hnr := hS.newRef; have hlw := hS.localW; have hie := hS.ieee
  have hw' : (if st.s7 > 0 then (((10 * st.s7 + 2) / 3 : Nat) : Int) else st.dw) = ddo.addNbits := hw.symm
  have hm' : (if st.s7 > 0 then (st.s7 : Int) else st.ds) = ddo.multiplyScale := hsc.symm
  rw [hw', hm']
  unfold applyNumeric
  rw [hie, hnr, hlw, hr7]
  have hmax : INT_MAX = 2147483647 := rfl
  have hmin : INT_MIN = -2147483648 := rfl
  have hno : ¬ (rf * 10 ^ st.s7 > INT_MAX ∨ rf * 10 ^ st.s7 < INT_MIN) := by rw [hmax, hmin]; omega
  by_cases h1 : st.ieee > 0
  · simp [h1]
  · by_cases h2 : st.newRefBits > 0
    · simp [h1, h2]
    · by_cases h3 : st.localW > 0 <;> by_cases hl : isLocal n.desc = true <;>
        by_cases ha : ddo.addNbits = 0 <;> by_cases hm : ddo.multiplyScale = 0 <;> by_cases h7 : st.s7 = 0 <;>
        simp [h1, h2, h3, hl, ha, hm, h7, hno, isLocal_eq]

theorem isLocal_eq' (d : Nat) : isLocalDescriptor d = isLocal d := rfl

theorem sim_localW_reset (ddo : DDO) (st : OpState) (hS : Sim ddo st) :
    Sim { ddo with localNbitsFollows := 0 } { st with localW := 0 } := by
  constructor
  · exact hS.strict
  · exact hS.width
  · exact hS.scale
  · exact hS.ref7
  · exact hS.excl
  · exact hS.newRef
  · exact hS.noOverride
  · exact hS.af
  · exact hS.afSum
  · rfl
  · exact hS.ieee
  · exact hS.ccitt

theorem class31_eq (n : Node) (hwf : n.flags.class31 = true → Desc.x n.desc = 31) :
    (n.flags.class31 || decide (Desc.x n.desc = 31)) = decide (Desc.x n.desc = 31) := by
  cases hc : n.flags.class31
  · simp
  · simp [hwf hc]

/-- associated field of a data element under the simulation relation -/
theorem applyAF_data (ddo : DDO) (st : OpState) (e : Enc) (hS : Sim ddo st)
    (hb : listSum st.af ≤ 64) (hd : e.type = .ccitt ∨ e.type = .numeric ∨ e.type = .codetable ∨ e.type = .flagtable)
    (h0 : e.afNbits = 0) :
    applyAF ddo false e = { e with afNbits := afTotal st } := by
  have hAF := afNbits_eq ddo st hS hb
  unfold applyAF afApplies
  by_cases hpos : ddo.addAfNbits > 0
  · rw [if_pos hpos] at hAF
    have : (e.type = .ccitt || e.type = .numeric || e.type = .codetable || e.type = .flagtable) = true := by
      rcases hd with h | h | h | h <;> simp [h]
    simp [this, hpos, hAF]
  · rw [if_neg hpos] at hAF
    simp only [hpos, decide_false, Bool.and_false, Bool.false_eq_true, if_false]
    rw [← hAF]
    cases e; simp_all

theorem applyAF_class31 (ddo : DDO) (e : Enc) : applyAF ddo true e = e := by
  unfold applyAF afApplies; simp

theorem sim_elem (T : Tables) (ed : Nat) (ddo : DDO) (st : OpState) (n : Node)
    (hf : Desc.f n.desc = 0) (hwf : n.flags.class31 = true → Desc.x n.desc = 31)
    (hS : Sim ddo st) (hb : listSum st.af ≤ 64) (hok : elemOK T st n.desc) :
    Sim (applyTables2node T ed ddo n).1 (stepElem T st n.desc none).1 ∧
    layoutOf (applyTables2node T ed ddo n).2.1 = (stepElem T st n.desc none).2 ∧
    (applyTables2node T ed ddo n).2.2 = false := by
  have hno := hS.noOverride
  have hcc := hS.ccitt
  have hf2 : ¬ (Desc.f n.desc = 2 ∧ (!n.flags.skipped) = true) := by omega
  have hcl := class31_eq n hwf
  unfold elemOK at hok
  unfold applyTables2node
  rw [if_neg hf2]
  unfold applyTail stepElem baseEnc
  simp only [hcl, hf, ne_eq, not_true_eq_false, if_false]
  cases hfb : T.fetchB n.desc with
  | none =>
    rw [hfb] at hok
    obtain ⟨h1, h2, h3, h4, h5, h6, h7⟩ := hok
    have hloc : isLocalDescriptor n.desc = true := by rw [isLocal_eq]; exact h2
    have hfit0 : (-2147483648 : Int) ≤ 0 * 10 ^ st.s7 ∧ (0 : Int) * 10 ^ st.s7 ≤ 2147483647 := by simp
    have hd31 : decide (Desc.x n.desc = 31) = false := by simp [h3]
    simp only [reassign, hf, hloc, if_true, hd31, h1, h2, and_self]
    rw [applyAF_data ddo st _ hS hb (by simp) rfl]
    simp only [applyWidth, Bool.false_eq_true, if_false]
    rw [applyNumeric_spec ddo st _ 0 0 0 _ hS hfit0]
    have hsr := sim_localW_reset ddo st hS
    refine ⟨?_, ?_, ?_⟩
    · simpa [h4, h5, h1] using hsr
    · simp [h4, h5, h1, h2, h6, h7, layoutOf, kindOf]
    · simp [h4, h5, h1]
  | some e =>
    rw [hfb] at hok
    obtain ⟨hl, hc31, hfit⟩ := hok
    simp only [hno.1, List.find?_nil, hno.2]
    by_cases hx : Desc.x n.desc = 31
    · -- class 31: untouched
      have hne := hc31 hx
      simp only [hx, if_true, reassign, decide_true, applyAF_class31]
      cases ht : e.typ with
      | ccitt => exact absurd ht hne
      | numeric => simp [applyWidth, EntryB.enc, BType.toDType, ht, layoutOf, kindOf, hS]
      | codetable => simp [applyWidth, EntryB.enc, BType.toDType, ht, layoutOf, kindOf, hS]
      | flagtable => simp [applyWidth, EntryB.enc, BType.toDType, ht, layoutOf, kindOf, hS]
    · have hd31 : decide (Desc.x n.desc = 31) = false := by simp [hx]
      simp only [hx, if_false, reassign, hd31]
      have hA : ∀ E : Enc, (E.type = .ccitt ∨ E.type = .numeric ∨ E.type = .codetable ∨ E.type = .flagtable) →
          E.afNbits = 0 → applyAF ddo false E = { E with afNbits := afTotal st } :=
        fun E h1 h2 => applyAF_data ddo st E hS hb h1 h2
      have hdf : decide False = false := rfl
      cases ht : e.typ with
      | ccitt =>
        simp only [EntryB.enc, BType.toDType, ht, hdf]
        rw [hA _ (by simp) rfl]
        simp only [applyWidth, hcc]
        refine ⟨hS, ?_, by simp⟩
        by_cases hc0 : st.ccitt > 0
        · simp [hc0, layoutOf, kindOf, Int.mul_comm]
        · simp [hc0, layoutOf, kindOf]
      | codetable =>
        simp only [EntryB.enc, BType.toDType, ht, hdf]
        rw [hA _ (by simp) rfl]
        simp [applyWidth, layoutOf, kindOf, hS]
      | flagtable =>
        simp only [EntryB.enc, BType.toDType, ht, hdf]
        rw [hA _ (by simp) rfl]
        simp [applyWidth, layoutOf, kindOf, hS]
      | numeric =>
        simp only [EntryB.enc, BType.toDType, ht, hdf]
        rw [hA _ (by simp) rfl]
        simp only [applyWidth, Bool.false_eq_true, if_false]
        rw [applyNumeric_spec ddo st _ _ _ _ _ hS hfit]
        by_cases h1 : st.ieee > 0
        · simp only [h1, if_true]
          exact ⟨hS, by simp [layoutOf, kindOf], by simp⟩
        · simp only [h1, if_false]
          by_cases h2 : st.newRefBits > 0
          · simp only [h2, if_true]
            exact ⟨hS, by simp [layoutOf, kindOf], by simp⟩
          · simp only [h2, if_false]
            by_cases h3 : st.localW > 0
            · simp only [h3, if_true]
              refine ⟨by simpa [hno.2] using sim_localW_reset ddo st hS, ?_, by simp⟩
              by_cases hloc2 : isLocal n.desc = true <;> simp [layoutOf, kindOf, hloc2]
            · simp only [h3, if_false]
              exact ⟨hS, by simp [layoutOf, kindOf], by simp⟩

end Bufr

namespace Bufr
open Bufr.Spec

theorem stepOp_layout_ne5 (st : OpState) (d x y : Nat) (h5 : x ≠ 5) :
    (stepOp st d x y).2 = { desc := d, kind := .op } := by
  unfold stepOp
  split <;> (try rfl)
  · split <;> (try split) <;> rfl
  · split <;> rfl
  · exact absurd rfl h5

theorem sim_opnode (T : Tables) (ed : Nat) (ddo : DDO) (st : OpState) (n : Node)
    (hf : Desc.f n.desc = 2) (hsk : n.flags.skipped = false)
    (hwf : n.flags.class31 = true → Desc.x n.desc = 31)
    (hS : Sim ddo st) (hed : 2 ≤ ed ∧ ed ≤ 5) (hok : opOK ed st (Desc.x n.desc) (Desc.y n.desc)) :
    Sim (applyTables2node T ed ddo n).1 (stepOp st n.desc (Desc.x n.desc) (Desc.y n.desc)).1 ∧
    layoutOf (applyTables2node T ed ddo n).2.1 = (stepOp st n.desc (Desc.x n.desc) (Desc.y n.desc)).2 ∧
    (applyTables2node T ed ddo n).2.2 = false := by
  obtain ⟨hsim, hrc, henc⟩ := sim_op ddo st n.desc (Desc.x n.desc) (Desc.y n.desc) ed hS hed hok
  have hcl := class31_eq n hwf
  have hbase : baseEnc T ddo n.desc = none := by unfold baseEnc; simp [hf]
  have hre : reassign n.desc none = { type := .operator, scale := 0, ref := 0, nbits := 0, afNbits := 0 } := by
    simp [reassign, hf]
  have hrcf : decide ((resolveTableC ddo (Desc.x n.desc) (Desc.y n.desc) ed).rc < 0) = false := by
    simp; omega
  unfold applyTables2node
  rw [if_pos ⟨hf, by simp [hsk]⟩, hbase, hre]
  dsimp only
  rw [hrcf, henc]
  unfold applyTail
  rw [hcl]
  generalize hr : resolveTableC ddo (Desc.x n.desc) (Desc.y n.desc) ed = r at hsim
  by_cases h5 : Desc.x n.desc = 5
  · obtain ⟨_, _, _, h5ok, _⟩ := hok
    obtain ⟨haf, hcc⟩ := h5ok h5
    have hd31 : decide (Desc.x n.desc = 31) = false := by simp [h5]
    have hst : (stepOp st n.desc (Desc.x n.desc) (Desc.y n.desc)) =
        (st, { desc := n.desc, kind := .ccitt, width := 8 * (Desc.y n.desc : Int) }) := by
      rw [h5]; simp [stepOp]
    rw [hst] at hsim ⊢
    have hA0 : r.ddo.addAfNbits = 0 := by
      have := hsim.afSum
      rw [this, haf]; rfl
    have hC0 : r.ddo.redefineCcitt = 0 := by
      have := hsim.ccitt
      rw [this, hcc]
    rw [if_pos h5, hd31]
    simp only [applyAF, afApplies, hA0, applyWidth, hC0]
    refine ⟨by simpa using hsim, ?_, by simp⟩
    simp [layoutOf, kindOf, Int.mul_comm]
  · rw [if_neg h5]
    rw [stepOp_layout_ne5 st n.desc _ _ h5]
    simp only [applyAF, afApplies, applyWidth]
    refine ⟨by simpa using hsim, ?_, by simp⟩
    simp [layoutOf, kindOf]

theorem afBound_op (st : OpState) (d x y : Nat) (hb : listSum st.af ≤ 64)
    (h4 : (x = 4 ∧ y > 0) → afTotal st + y ≤ 64) : listSum (stepOp st d x y).1.af ≤ 64 := by
  unfold stepOp
  split <;> (try simp only) <;> (try exact hb)
  · split <;> (try split) <;> exact hb
  · split
    · rename_i hy
      have := h4 ⟨rfl, hy⟩
      rw [listSum_append]; simp only [listSum, List.foldl_cons, List.foldl_nil] at *
      unfold afTotal at this; omega
    · cases hl : st.af.getLast? with
      | none =>
        have : st.af = [] := by
          cases hst : st.af with
          | nil => rfl
          | cons a l => rw [hst] at hl; simp [List.getLast?] at hl
        simp [this, listSum]
      | some w => have := listSum_dropLast st.af w hl; simp only; omega

theorem afBound_elem (T : Tables) (st : OpState) (d : Nat) (hb : listSum st.af ≤ 64) :
    listSum (stepElem T st d none).1.af ≤ 64 := by
  unfold stepElem
  split
  · split <;> exact hb
  · split
    · exact hb
    · split <;> (try exact hb)
      split
      · exact hb
      · split
        · exact hb
        · simp only; split <;> exact hb

/-- the nodes Table C is applied to in the build of a subset: element or operator descriptors
whose CLASS31 flag (if any) is justified, operators not inside a zero-count replication -/
def NodeOK (n : Node) : Prop :=
  (n.flags.class31 = true → Desc.x n.desc = 31) ∧ (Desc.f n.desc = 2 → n.flags.skipped = false)

theorem layout_sim (T : Tables) (ed : Nat) (hed : 2 ≤ ed ∧ ed ≤ 5) :
    ∀ (ns : List Node) (ddo : DDO) (st : OpState), Sim ddo st → listSum st.af ≤ 64 →
      (∀ n ∈ ns, NodeOK n) → inScope T ed st (ns.map (·.desc)) = true →
      (applyTablesAll T ed ddo ns).1.map layoutOf = layoutAll T st (ns.map (·.desc)) ∧
      (applyTablesAll T ed ddo ns).2.2 = false := by
  intro ns
  induction ns with
  | nil => intro ddo st _ _ _ _; simp [applyTablesAll, layoutAll]
  | cons n ns ih =>
    intro ddo st hS hb hN hin
    have hn := hN n (by simp)
    have hNs : ∀ m ∈ ns, NodeOK m := fun m hm => hN m (by simp [hm])
    simp only [List.map_cons, inScope, Bool.and_eq_true] at hin
    obtain ⟨hhere, hrest⟩ := hin
    simp only [applyTablesAll, List.map_cons, layoutAll, step]
    by_cases hf2 : Desc.f n.desc = 2
    · simp only [hf2, if_true] at hhere hrest ⊢
      simp only [Bool.and_eq_true, decide_eq_true_eq] at hhere
      obtain ⟨⟨⟨⟨hdef, h12⟩, h7⟩, h5⟩, h4⟩ := hhere
      have hok : opOK ed st (Desc.x n.desc) (Desc.y n.desc) := by
        refine ⟨hdef, ?_, ?_, ?_, ?_⟩
        · intro h; simpa [h] using h12
        · intro h; simpa [h] using h7
        · intro h; simpa [h] using h5
        · intro h; simpa [h] using h4
      have hstep : step T st n.desc none = stepOp st n.desc (Desc.x n.desc) (Desc.y n.desc) := by
        simp [step, hf2]
      rw [hstep] at hrest
      obtain ⟨s1, s2, s3⟩ := sim_opnode T ed ddo st n hf2 (hn.2 hf2) hn.1 hS hed hok
      have hb' := afBound_op st n.desc (Desc.x n.desc) (Desc.y n.desc) hb hok.2.2.2.2
      obtain ⟨r1, r2⟩ := ih _ _ s1 hb' hNs hrest
      refine ⟨?_, ?_⟩
      · rw [s2, r1]
      · rw [s3, r2]; rfl
    · simp only [hf2, if_false] at hhere hrest ⊢
      by_cases hf0 : Desc.f n.desc = 0
      · simp only [hf0, if_true] at hhere hrest ⊢
        have hok : elemOK T st n.desc := by
          unfold elemOK
          cases hfb : T.fetchB n.desc with
          | none =>
            rw [hfb] at hhere
            simp only [Bool.and_eq_true, decide_eq_true_eq] at hhere
            obtain ⟨⟨⟨⟨⟨⟨a1, a2⟩, a3⟩, a4⟩, a5⟩, a6⟩, a7⟩ := hhere
            exact ⟨a1, a2, a3, a4, a5, a6, a7⟩
          | some e =>
            rw [hfb] at hhere
            simp only [Bool.and_eq_true, decide_eq_true_eq] at hhere
            obtain ⟨⟨a1, a2⟩, a3⟩ := hhere
            refine ⟨?_, ?_, a3⟩
            · intro h; simpa [h] using a1
            · intro h; simpa [h] using a2
        have hstep : step T st n.desc none = stepElem T st n.desc none := by
          simp [step, hf0]
        rw [hstep] at hrest
        obtain ⟨s1, s2, s3⟩ := sim_elem T ed ddo st n hf0 hn.1 hS hb hok
        have hb' := afBound_elem T st n.desc hb
        obtain ⟨r1, r2⟩ := ih _ _ s1 hb' hNs hrest
        refine ⟨?_, ?_⟩
        · rw [s2, r1]
        · rw [s3, r2]; rfl
      · simp [hf0] at hhere

end Bufr
