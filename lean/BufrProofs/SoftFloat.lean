import BufrModel.SoftFloat
import Mathlib.Tactic.Linarith
import Mathlib.Tactic.Positivity
import Mathlib.Tactic.Ring
import Mathlib.Tactic.NormNum
import Mathlib.Tactic.FieldSimp
import Mathlib.Data.Rat.Floor
/-
  The three laws of the soft-float (DESIGN §3), for the executable definitions of
  BufrModel/SoftFloat.lean:

    fl_err    : |fl p q − q| ≤ |q| · 2^(−p)
    fl_exact  : fl p (m · 2^k) = m · 2^k  when |m| < 2^p        (so integers below 2^p are exact)
    cround_near / ctrunc_* : C `round` and truncation

  (monotonicity of `fl` is not needed by the C08 proofs: every order fact used there follows
  from `fl_err` because neighbouring grid points are 2^20 ulps apart).
-/
namespace Bufr.SF

theorem floor_eq (x : ℚ) : x.floor = ⌊x⌋ := rfl

/-! ### powers -/

theorem pow2_eq (e : ℤ) : pow2 e = (2:ℚ) ^ e := by
  unfold pow2
  split_ifs with h
  · obtain ⟨n, rfl⟩ := Int.eq_ofNat_of_zero_le h
    simp
  · have h' : 0 ≤ -e := by omega
    obtain ⟨n, hn⟩ := Int.eq_ofNat_of_zero_le h'
    have : e = -(n:ℤ) := by omega
    subst this
    simp

theorem pow10r_eq (s : ℤ) : pow10r s = (10:ℚ) ^ s := by
  unfold pow10r
  split_ifs with h
  · obtain ⟨n, rfl⟩ := Int.eq_ofNat_of_zero_le h
    simp
  · have h' : 0 ≤ -s := by omega
    obtain ⟨n, hn⟩ := Int.eq_ofNat_of_zero_le h'
    have : s = -(n:ℤ) := by omega
    subst this
    simp

theorem pow2_pos (e : ℤ) : 0 < pow2 e := by rw [pow2_eq]; exact zpow_pos (by norm_num) _

/-! ### ilog2 -/

theorem ilog2_spec (q : ℚ) (hq : q ≠ 0) :
    (2:ℚ) ^ (ilog2 q) ≤ |q| ∧ |q| < (2:ℚ) ^ (ilog2 q + 1) := by
  have hnum : q.num ≠ 0 := Rat.num_ne_zero.mpr hq
  set a := q.num.natAbs with ha
  set b := q.den with hb
  have ha0 : a ≠ 0 := by rw [ha]; exact Int.natAbs_ne_zero.mpr hnum
  have hb0 : b ≠ 0 := q.den_nz
  have haQ : (0:ℚ) < a := by exact_mod_cast Nat.pos_of_ne_zero ha0
  have hbQ : (0:ℚ) < b := by exact_mod_cast Nat.pos_of_ne_zero hb0
  have habs : |q| = (a:ℚ) / b := by
    have h1 : q = (q.num : ℚ) / (q.den : ℚ) := (Rat.num_div_den q).symm
    have h2 : |(q.num : ℚ)| = (a:ℚ) := by
      rw [ha]; simp [Nat.cast_natAbs]
    calc |q| = |(q.num : ℚ) / (q.den : ℚ)| := by rw [← h1]
      _ = |(q.num : ℚ)| / |(q.den : ℚ)| := abs_div _ _
      _ = (a:ℚ) / b := by rw [h2, abs_of_pos hbQ]
  -- bounds on a, b by their log2
  have la1 : (2:ℚ) ^ (a.log2 : ℤ) ≤ a := by
    have := Nat.log2_self_le ha0
    rw [zpow_natCast]; exact_mod_cast this
  have la2 : (a:ℚ) < (2:ℚ) ^ ((a.log2 : ℤ) + 1) := by
    have := @Nat.lt_log2_self a
    have h : ((a.log2 : ℤ) + 1) = ((a.log2 + 1 : ℕ) : ℤ) := by push_cast; ring
    rw [h, zpow_natCast]; exact_mod_cast this
  have lb1 : (2:ℚ) ^ (b.log2 : ℤ) ≤ b := by
    have := Nat.log2_self_le hb0
    rw [zpow_natCast]; exact_mod_cast this
  have lb2 : (b:ℚ) < (2:ℚ) ^ ((b.log2 : ℤ) + 1) := by
    have := @Nat.lt_log2_self b
    have h : ((b.log2 : ℤ) + 1) = ((b.log2 + 1 : ℕ) : ℤ) := by push_cast; ring
    rw [h, zpow_natCast]; exact_mod_cast this
  have two : (2:ℚ) ≠ 0 := by norm_num
  set e0 : ℤ := (a.log2 : ℤ) - (b.log2 : ℤ) with he0
  -- a/b < 2^(e0+1)
  have up : (a:ℚ) / b < (2:ℚ) ^ (e0 + 1) := by
    rw [div_lt_iff₀ hbQ]
    calc (a:ℚ) < (2:ℚ) ^ ((a.log2 : ℤ) + 1) := la2
      _ = (2:ℚ) ^ (e0 + 1) * (2:ℚ) ^ (b.log2 : ℤ) := by
          rw [← zpow_add₀ two]; congr 1; rw [he0]; ring
      _ ≤ (2:ℚ) ^ (e0 + 1) * b := by
          apply mul_le_mul_of_nonneg_left lb1 (zpow_pos (by norm_num) _).le
  -- 2^(e0-1) < a/b
  have lo : (2:ℚ) ^ (e0 - 1) ≤ (a:ℚ) / b := by
    rw [le_div_iff₀ hbQ]
    calc (2:ℚ) ^ (e0 - 1) * b ≤ (2:ℚ) ^ (e0 - 1) * (2:ℚ) ^ ((b.log2 : ℤ) + 1) := by
          apply mul_le_mul_of_nonneg_left lb2.le (zpow_pos (by norm_num) _).le
      _ = (2:ℚ) ^ (a.log2 : ℤ) := by
          rw [← zpow_add₀ two]; congr 1; rw [he0]; ring
      _ ≤ a := la1
  have hdef : ilog2 q = if pow2 e0 * (b : ℚ) ≤ (a : ℚ) then e0 else e0 - 1 := rfl
  rw [hdef, habs]
  split_ifs with h
  · rw [pow2_eq] at h
    exact ⟨(le_div_iff₀ hbQ).mpr h, up⟩
  · rw [pow2_eq, not_le] at h
    refine ⟨lo, ?_⟩
    have : e0 - 1 + 1 = e0 := by ring
    rw [this, div_lt_iff₀ hbQ]; exact h

/-! ### rne -/

theorem rne_err (x : ℚ) : |(rne x : ℚ) - x| ≤ 1/2 := by
  have h1 := Int.floor_le x
  have h2 := Int.lt_floor_add_one x
  have hdef : rne x = if x - ((⌊x⌋ : ℤ) : ℚ) < 1/2 then ⌊x⌋ else
      if 1/2 < x - ((⌊x⌋ : ℤ) : ℚ) then ⌊x⌋ + 1 else if ⌊x⌋ % 2 = 0 then ⌊x⌋ else ⌊x⌋ + 1 := rfl
  rw [hdef]
  by_cases a : x - ((⌊x⌋ : ℤ) : ℚ) < 1/2
  · rw [if_pos a, abs_le]; constructor <;> linarith
  · rw [if_neg a]
    by_cases b : 1/2 < x - ((⌊x⌋ : ℤ) : ℚ)
    · rw [if_pos b, abs_le]; push_cast; constructor <;> linarith
    · rw [if_neg b]
      by_cases c : ⌊x⌋ % 2 = 0
      · rw [if_pos c, abs_le]; constructor <;> linarith
      · rw [if_neg c, abs_le]; push_cast; constructor <;> linarith

theorem rne_int (z : ℤ) : rne (z : ℚ) = z := by
  unfold rne
  simp [floor_eq]

/-! ### fl -/

theorem fl_zero (p : ℕ) : fl p 0 = 0 := by simp [fl]

theorem fl_err (p : ℕ) (q : ℚ) : |fl p q - q| ≤ |q| * (2:ℚ) ^ (-(p:ℤ)) := by
  unfold fl
  split_ifs with h0
  · simp [h0]
  · simp only
    set e := ilog2 q with he
    rw [pow2_eq]
    set sc : ℚ := (2:ℚ) ^ (e - ((p:ℤ) - 1)) with hsc
    have hscpos : 0 < sc := zpow_pos (by norm_num) _
    have hlo : (2:ℚ) ^ e ≤ |q| := (ilog2_spec q h0).1
    have herr := rne_err (q / sc)
    have : (rne (q / sc) : ℚ) * sc - q = ((rne (q / sc) : ℚ) - q / sc) * sc := by
      field_simp
    rw [this, abs_mul, abs_of_pos hscpos]
    have h3 : |(rne (q / sc) : ℚ) - q / sc| * sc ≤ 1/2 * sc :=
      mul_le_mul_of_nonneg_right herr hscpos.le
    have h4 : 1/2 * sc = (2:ℚ)^e * (2:ℚ)^(-(p:ℤ)) := by
      rw [hsc, ← zpow_add₀ (by norm_num : (2:ℚ) ≠ 0)]
      have : e - ((p:ℤ) - 1) = (e + -(p:ℤ)) + 1 := by ring
      rw [this, zpow_add_one₀ (by norm_num : (2:ℚ) ≠ 0)]
      ring
    have h5 : (2:ℚ)^e * (2:ℚ)^(-(p:ℤ)) ≤ |q| * (2:ℚ)^(-(p:ℤ)) :=
      mul_le_mul_of_nonneg_right hlo (zpow_pos (by norm_num) _).le
    linarith

/-- a value with a `p`-bit significand is a fixed point of `fl p` -/
theorem fl_exact (p : ℕ) (m k : ℤ) (hm : |m| < 2 ^ p) :
    fl p ((m:ℚ) * (2:ℚ) ^ k) = (m:ℚ) * (2:ℚ) ^ k := by
  by_cases hm0 : m = 0
  · subst hm0; simp [fl]
  have two : (2:ℚ) ≠ 0 := by norm_num
  have hq : (m:ℚ) * (2:ℚ) ^ k ≠ 0 :=
    mul_ne_zero (by exact_mod_cast hm0) (zpow_ne_zero _ two)
  unfold fl
  rw [if_neg hq]
  simp only
  set q := (m:ℚ) * (2:ℚ) ^ k with hqd
  set e := ilog2 q with he
  rw [pow2_eq]
  have hlo : (2:ℚ) ^ e ≤ |q| := (ilog2_spec q hq).1
  have habs : |q| = |(m:ℚ)| * (2:ℚ) ^ k := by
    rw [hqd, abs_mul, abs_of_pos (zpow_pos (by norm_num : (0:ℚ) < 2) k)]
  have hmq : |(m:ℚ)| < (2:ℚ) ^ (p:ℤ) := by
    rw [zpow_natCast]; exact_mod_cast hm
  -- 2^e < 2^(p+k)
  have hlt : (2:ℚ) ^ e < (2:ℚ) ^ ((p:ℤ) + k) := by
    calc (2:ℚ) ^ e ≤ |q| := hlo
      _ = |(m:ℚ)| * (2:ℚ) ^ k := habs
      _ < (2:ℚ) ^ (p:ℤ) * (2:ℚ) ^ k :=
          mul_lt_mul_of_pos_right hmq (zpow_pos (by norm_num) _)
      _ = (2:ℚ) ^ ((p:ℤ) + k) := (zpow_add₀ two _ _).symm
  have hek : e < (p:ℤ) + k := (zpow_lt_zpow_iff_right₀ (by norm_num : (1:ℚ) < 2)).mp hlt
  have hd : 0 ≤ k - (e - ((p:ℤ) - 1)) := by omega
  obtain ⟨d, hd'⟩ := Int.eq_ofNat_of_zero_le hd
  have hdiv : q / (2:ℚ) ^ (e - ((p:ℤ) - 1)) = ((m * 2 ^ d : ℤ) : ℚ) := by
    rw [hqd, mul_div_assoc, ← zpow_sub₀ two, hd']
    push_cast
    rw [zpow_natCast]
  rw [hdiv, rne_int]
  push_cast
  rw [hqd, mul_assoc, ← zpow_natCast, ← hd', ← zpow_add₀ two]
  congr 2
  ring

/-- integers below `2^p` in magnitude are exactly representable -/
theorem fl_int (p : ℕ) (z : ℤ) (hz : |z| < 2 ^ p) : fl p (z : ℚ) = z := by
  have := fl_exact p z 0 hz
  simpa using this

theorem fl_nat (p : ℕ) (n : ℕ) (hz : n < 2 ^ p) : fl p (n : ℚ) = n := by
  have := fl_int p (n : ℤ) (by rw [abs_of_nonneg (by positivity)]; exact_mod_cast hz)
  simpa using this

/-- `|fl p q| ≤ |q| (1 + 2^-p)` -/
theorem fl_abs_le (p : ℕ) (q : ℚ) : |fl p q| ≤ |q| + |q| * (2:ℚ) ^ (-(p:ℤ)) := by
  have h := fl_err p q
  have := abs_sub_abs_le_abs_sub (fl p q) q
  linarith

theorem fl_le (p : ℕ) (q : ℚ) : fl p q ≤ q + |q| * (2:ℚ) ^ (-(p:ℤ)) := by
  have h := fl_err p q
  rw [abs_le] at h; linarith [h.2]

theorem fl_ge (p : ℕ) (q : ℚ) : q - |q| * (2:ℚ) ^ (-(p:ℤ)) ≤ fl p q := by
  have h := fl_err p q
  rw [abs_le] at h; linarith [h.1]

/-- sign preservation: a non-negative value rounds to a non-negative value -/
theorem fl_nonneg (p : ℕ) (hp : 1 ≤ p) (q : ℚ) (hq : 0 ≤ q) : 0 ≤ fl p q := by
  have h := fl_ge p q
  rw [abs_of_nonneg hq] at h
  have hu : (2:ℚ) ^ (-(p:ℤ)) ≤ 1 := by
    apply zpow_le_one_of_nonpos₀ (by norm_num) (by omega)
  nlinarith

theorem fl_nonpos (p : ℕ) (hp : 1 ≤ p) (q : ℚ) (hq : q ≤ 0) : fl p q ≤ 0 := by
  have h := fl_le p q
  rw [abs_of_nonpos hq] at h
  have hu : (2:ℚ) ^ (-(p:ℤ)) ≤ 1 := by
    apply zpow_le_one_of_nonpos₀ (by norm_num) (by omega)
  nlinarith

theorem rne_ge_of_int_le (x : ℚ) (z : ℤ) (h : (z:ℚ) ≤ x) : z ≤ rne x := by
  have hf : z ≤ ⌊x⌋ := Int.le_floor.mpr h
  have hdef : rne x = if x - ((⌊x⌋ : ℤ) : ℚ) < 1/2 then ⌊x⌋ else
      if 1/2 < x - ((⌊x⌋ : ℤ) : ℚ) then ⌊x⌋ + 1 else if ⌊x⌋ % 2 = 0 then ⌊x⌋ else ⌊x⌋ + 1 := rfl
  rw [hdef]
  split_ifs <;> omega

/-- powers of two are fixed points and `fl` does not cross them: `2^k ≤ q → 2^k ≤ fl p q` -/
theorem fl_ge_pow2 (p : ℕ) (hp : 1 ≤ p) (k : ℤ) (q : ℚ) (h : (2:ℚ) ^ k ≤ q) : (2:ℚ) ^ k ≤ fl p q := by
  have two : (2:ℚ) ≠ 0 := by norm_num
  have hq0 : 0 < q := lt_of_lt_of_le (zpow_pos (by norm_num) _) h
  have hq : q ≠ 0 := hq0.ne'
  unfold fl
  rw [if_neg hq]
  simp only
  set e := ilog2 q with he
  rw [pow2_eq]
  obtain ⟨hlo, hhi⟩ := ilog2_spec q hq
  rw [abs_of_pos hq0] at hlo hhi
  have hke : k ≤ e := by
    have : (2:ℚ) ^ k < (2:ℚ) ^ (e + 1) := lt_of_le_of_lt h hhi
    have := (zpow_lt_zpow_iff_right₀ (by norm_num : (1:ℚ) < 2)).mp this
    omega
  set sc : ℚ := (2:ℚ) ^ (e - ((p:ℤ) - 1)) with hsc
  have hscpos : 0 < sc := zpow_pos (by norm_num) _
  have hdiv : (((2:ℤ) ^ (p - 1) : ℤ) : ℚ) ≤ q / sc := by
    rw [le_div_iff₀ hscpos, hsc]
    push_cast
    rw [← zpow_natCast, ← zpow_add₀ two]
    have : ((p - 1 : ℕ) : ℤ) + (e - ((p:ℤ) - 1)) = e := by
      rw [Nat.cast_sub hp]; push_cast; ring
    rw [this]; exact hlo
  have hr := rne_ge_of_int_le _ _ hdiv
  have hrq : (((2:ℤ) ^ (p - 1) : ℤ) : ℚ) ≤ (rne (q / sc) : ℚ) := by exact_mod_cast hr
  calc (2:ℚ) ^ k ≤ (2:ℚ) ^ e := zpow_le_zpow_right₀ (by norm_num) hke
    _ = (((2:ℤ) ^ (p - 1) : ℤ) : ℚ) * sc := by
        rw [hsc]; push_cast
        rw [← zpow_natCast, ← zpow_add₀ two]
        congr 1
        rw [Nat.cast_sub hp]; push_cast; ring
    _ ≤ (rne (q / sc) : ℚ) * sc := mul_le_mul_of_nonneg_right hrq hscpos.le

/-! ### C round / truncation -/

theorem cround_near (x : ℚ) (n : ℤ) (h : |x - n| < 1/2) : cround x = n := by
  unfold cround
  rw [abs_lt] at h
  simp only [floor_eq]
  split_ifs with hx
  · rw [Int.floor_eq_iff]; constructor <;> linarith [h.1, h.2]
  · have : ⌊-x + 1/2⌋ = -n := by
      rw [Int.floor_eq_iff]; push_cast; constructor <;> linarith [h.1, h.2]
    rw [this]; ring

theorem cround_int (z : ℤ) : cround (z : ℚ) = z :=
  cround_near _ z (by simp)

theorem ctrunc_of_nonneg (x : ℚ) (h : 0 ≤ x) : ctrunc x = ⌊x⌋ := by
  unfold ctrunc; rw [if_pos h]; rfl

theorem ctrunc_int (z : ℤ) : ctrunc (z : ℚ) = z := by
  unfold ctrunc
  simp only [floor_eq]
  split_ifs with h
  · simp
  · have : (-(z:ℚ)) = ((-z : ℤ) : ℚ) := by push_cast; ring
    rw [this, Int.floor_intCast]; ring

/-! ### casts in range -/

theorem castU64_of_range (t : ℤ) (h0 : 0 ≤ t) (h1 : t < 2 ^ 64) : castU64 t = t.toNat := by
  unfold castU64; rw [if_pos ⟨h0, h1⟩]

theorem castI64_of_range (t : ℤ) (h0 : -(2:ℤ) ^ 63 ≤ t) (h1 : t < 2 ^ 63) : castI64 t = t := by
  unfold castI64; rw [if_pos ⟨h0, h1⟩]

theorem castI32_of_range (t : ℤ) (h0 : -(2:ℤ) ^ 31 ≤ t) (h1 : t < 2 ^ 31) : castI32 t = t := by
  unfold castI32; rw [if_pos ⟨h0, h1⟩]

theorem castU32_of_range (t : ℤ) (h0 : 0 ≤ t) (h1 : t < 2 ^ 32) : castU32 t = t.toNat := by
  unfold castU32
  rw [castI64_of_range t (by omega) (by omega)]
  rw [Int.emod_eq_of_lt h0 (by omega)]

theorem wrapI32_of_range (t : ℤ) (h0 : -(2:ℤ) ^ 31 ≤ t) (h1 : t < 2 ^ 31) : wrapI32 t = t := by
  unfold wrapI32
  simp only
  split_ifs with h <;> omega

theorem wrapI64_of_range (t : ℤ) (h0 : -(2:ℤ) ^ 63 ≤ t) (h1 : t < 2 ^ 63) : wrapI64 t = t := by
  unfold wrapI64
  simp only
  split_ifs with h <;> omega

theorem wrapU64_of_range (t : ℤ) (h0 : 0 ≤ t) (h1 : t < 2 ^ 64) : wrapU64 t = t.toNat := by
  unfold wrapU64; rw [Int.emod_eq_of_lt h0 h1]

theorem wrapU32_of_range (t : ℤ) (h0 : 0 ≤ t) (h1 : t < 2 ^ 32) : wrapU32 t = t.toNat := by
  unfold wrapU32; rw [Int.emod_eq_of_lt h0 h1]

end Bufr.SF
