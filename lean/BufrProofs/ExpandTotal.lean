import BufrProofs.Expand
/-
  BufrProofs.ExpandTotal — the static expansion never "diverges" on a descriptor list whose
  regulation expansion exists.

  The model's expansion functions are recursive on a fuel argument and answer `.error .fuel` when it
  runs out: that outcome stands for the C recursing without end (a cyclic Table D, spans that keep
  unrolling).  `Static T ds out` is a *finite* derivation, so it bounds the recursion: by induction on
  the derivation there is an amount of fuel from which on the answer is never `.error .fuel`.
-/
namespace Bufr
open Bufr.Spec

theorem xres_map_ne_fuel {α β : Type} (x : Except XErr α) (g : α → β) (h : x ≠ .error .fuel) :
    x.map g ≠ .error .fuel := by
  cases x with
  | error e => intro hh; simp only [Except.map] at hh; injection hh with he; exact h (by rw [he])
  | ok a => intro hh; simp [Except.map] at hh

theorem xres_bind_ne_fuel {α β : Type} (x : Except XErr α) (g : α → Except XErr β) (h : x ≠ .error .fuel)
    (hg : ∀ a, x = .ok a → g a ≠ .error .fuel) : (x >>= g) ≠ .error .fuel := by
  cases x with
  | error e => intro hh; simp only [bind, Except.bind] at hh; injection hh with he; exact h (by rw [he])
  | ok a => simpa [bind, Except.bind] using hg a rfl

/-- enough fuel for the list: from `f0` on, expanding any fresh node list with these descriptors does not run
out of fuel (it succeeds or is refused) -/
def Enough (T : Tables) (ds : List Nat) (f0 : Nat) : Prop :=
  ∀ f, f0 ≤ f → ∀ ns : List Node, ns.map (·.desc) = ds → (∀ n ∈ ns, Fresh n) →
    expandList T f 0 none ns ≠ .error .fuel

theorem hasFlag0_delay : hasFlag 0 OP_EXPAND_DELAY_REPL = false := by decide
theorem hasFlag0_ignore : hasFlag 0 OP_ZDRC_IGNORE = false := by decide

/-- **Totality of the static expansion.**  If the regulation expansion of `ds` exists, the library's expansion
of `ds` needs only a bounded recursion depth. -/
theorem static_total (T : Tables) (ds out : List Nat) (h : Static T ds out) : ∃ f0, Enough T ds f0 := by
  induction h with
  | nil =>
    refine ⟨1, ?_⟩
    intro f hf ns hns _
    obtain ⟨f', rfl⟩ : ∃ f', f = f' + 1 := ⟨f - 1, by omega⟩
    have : ns = [] := by simpa using hns
    subst this
    simp [expandList]
  | elem d ds out hd _ ih =>
    obtain ⟨f1, ih⟩ := ih
    refine ⟨f1 + 1, ?_⟩
    intro f hf ns hns hfr
    obtain ⟨f', rfl⟩ : ∃ f', f = f' + 1 := ⟨f - 1, by omega⟩
    cases ns with
    | nil => simp at hns
    | cons n rest =>
      simp only [List.map_cons, List.cons.injEq] at hns
      obtain ⟨hnd, hrd⟩ := hns
      have hn : Fresh n := hfr n (by simp)
      have hrest : ∀ m ∈ rest, Fresh m := fun m hm => hfr m (by simp [hm])
      unfold expandList
      simp only [Node.skipped, Node.expanded, hn.1, hn.2, Bool.false_eq_true, or_self, if_false]
      rw [hnd]
      simp only [hd.1, hd.2, if_false]
      exact xres_map_ne_fuel _ _ (ih f' (by omega) rest hrd hrest)
  | seq d ds e m out h3 hfd _ _ ihm ihs =>
    obtain ⟨fm, ihm⟩ := ihm
    obtain ⟨fs, ihs⟩ := ihs
    refine ⟨max (fm + 1) fs + 1, ?_⟩
    intro f hf ns hns hfr
    obtain ⟨f', rfl⟩ : ∃ f', f = f' + 1 := ⟨f - 1, by omega⟩
    have hf1 : fm + 1 ≤ f' := by have := Nat.le_max_left (fm + 1) fs; omega
    have hf2 : fs ≤ f' := by have := Nat.le_max_right (fm + 1) fs; omega
    cases ns with
    | nil => simp at hns
    | cons n rest =>
      simp only [List.map_cons, List.cons.injEq] at hns
      obtain ⟨hnd, hrd⟩ := hns
      have hn : Fresh n := hfr n (by simp)
      have hrest : ∀ m ∈ rest, Fresh m := fun m hm => hfr m (by simp [hm])
      unfold expandList
      simp only [Node.skipped, Node.expanded, hn.1, hn.2, Bool.false_eq_true, or_self, if_false]
      rw [hnd]
      have h1 : ¬ Desc.f d = 1 := by omega
      simp only [h1, h3, if_false, if_true]
      -- the Table D sequence
      have hD : expandDesc T f' 0 none d ≠ .error .fuel := by
        obtain ⟨f'', rfl⟩ : ∃ f'', f' = f'' + 1 := ⟨f' - 1, by omega⟩
        unfold expandDesc
        have h3' : ¬ Desc.f d ≠ 3 := by omega
        simp only [h3', if_false, hfd]
        cases hcy : tabledCircular T d with
        | true => simp
        | false =>
        simp only [Bool.false_eq_true, if_false]
        cases hsc : (!spansClosed e.members) with
        | true => simp
        | false =>
          simp only [Bool.false_eq_true, if_false]
          cases hmn : memberNodes T none e.members with
          | none => simp
          | some nodes =>
            simp only
            obtain ⟨hdm, hfm⟩ := memberNodes_spec T _ _ _ hmn
            exact ihm f'' (by omega) nodes hdm hfm
      refine xres_bind_ne_fuel _ _ hD ?_
      intro a _
      refine xres_bind_ne_fuel _ _ (ihs f' hf2 rest hrd hrest) ?_
      intro b _
      simp [pure, Except.pure]
  | fixed d ds b out h1 hy hx _ _ ihb ihs =>
    obtain ⟨fb, ihb⟩ := ihb
    obtain ⟨fs, ihs⟩ := ihs
    refine ⟨max (fb + 1) fs + 1, ?_⟩
    intro f hf ns hns hfr
    obtain ⟨f', rfl⟩ : ∃ f', f = f' + 1 := ⟨f - 1, by omega⟩
    have hf1 : fb + 1 ≤ f' := by have := Nat.le_max_left (fb + 1) fs; omega
    have hf2 : fs ≤ f' := by have := Nat.le_max_right (fb + 1) fs; omega
    cases ns with
    | nil => simp at hns
    | cons n rest =>
      simp only [List.map_cons, List.cons.injEq] at hns
      obtain ⟨hnd, hrd⟩ := hns
      have hn : Fresh n := hfr n (by simp)
      have hrest : ∀ m ∈ rest, Fresh m := fun m hm => hfr m (by simp [hm])
      have hlen : rest.length = ds.length := by rw [← hrd]; simp
      unfold expandList
      simp only [Node.skipped, Node.expanded, hn.1, hn.2, Bool.false_eq_true, or_self, if_false]
      rw [hnd]
      have hlt : ¬ rest.length < Desc.x d := by omega
      simp only [h1, hy, hlt, if_true, if_false]
      have hR : replDescriptors T f' 0 none (List.take (Desc.x d) rest) (Desc.y d) ≠ .error .fuel := by
        obtain ⟨f'', rfl⟩ : ∃ f'', f' = f'' + 1 := ⟨f' - 1, by omega⟩
        unfold replDescriptors
        simp only [hasFlag0_ignore, Bool.false_eq_true, if_false]
        refine ihb f'' (by omega) _ ?_ (replicas_fresh T _ _ _ (fresh_take hrest _))
        rw [replicas_desc, List.map_take, hrd]
      refine xres_bind_ne_fuel _ _ hR ?_
      intro a _
      refine xres_bind_ne_fuel _ _ (ihs f' hf2 _ (by rw [List.map_drop, hrd]) (fresh_drop hrest _)) ?_
      intro b _
      simp [pure, Except.pure]
  | delayed d c ds out h1 hy0 hc _ ihs =>
    obtain ⟨fs, ihs⟩ := ihs
    refine ⟨fs + 1, ?_⟩
    intro f hf ns hns hfr
    obtain ⟨f', rfl⟩ : ∃ f', f = f' + 1 := ⟨f - 1, by omega⟩
    cases ns with
    | nil => simp at hns
    | cons n rest =>
      cases rest with
      | nil => simp at hns
      | cons c31 rest' =>
        simp only [List.map_cons, List.cons.injEq] at hns
        obtain ⟨hnd, hcd, hrd⟩ := hns
        have hn : Fresh n := hfr n (by simp)
        have hrest' : ∀ m ∈ rest', Fresh m := fun m hm => hfr m (by simp [hm])
        unfold expandList
        simp only [Node.skipped, Node.expanded, hn.1, hn.2, Bool.false_eq_true, or_self, if_false]
        rw [hnd]
        have hy : ¬ Desc.y d > 0 := by omega
        have hc' : Desc.f c31.desc = 0 ∧ Desc.x c31.desc = 31 := by rw [hcd]; exact hc
        simp only [h1, hy, if_true, if_false, hc', and_self, hasFlag0_delay, Bool.false_eq_true, and_false]
        refine xres_bind_ne_fuel _ _ (ihs f' (by omega) _ (by rw [List.map_drop, hrd]) (fresh_drop hrest' _)) ?_
        intro b _
        simp [pure, Except.pure]

/-! ### Fuel is only a bound: answers do not depend on it -/

/-- `y` is what `x` is, unless `x` ran out of fuel -/
def FLe {α : Type} (x y : Except XErr α) : Prop := x = .error .fuel ∨ x = y

theorem FLe.rfl' {α : Type} (x : Except XErr α) : FLe x x := Or.inr rfl

theorem FLe.map {α β : Type} {x y : Except XErr α} (g : α → β) (h : FLe x y) : FLe (x.map g) (y.map g) := by
  rcases h with h | h
  · left; rw [h]; rfl
  · right; rw [h]

theorem FLe.bind {α β : Type} {x y : Except XErr α} {g g' : α → Except XErr β} (h : FLe x y)
    (hg : ∀ a, FLe (g a) (g' a)) : FLe (x >>= g) (y >>= g') := by
  rcases h with h | h
  · left; rw [h]; rfl
  · subst h
    cases x with
    | error e => right; rfl
    | ok a => exact hg a

theorem FLe.ite {α : Type} {c : Prop} [Decidable c] {a a' b b' : Except XErr α}
    (h1 : c → FLe a a') (h2 : ¬ c → FLe b b') : FLe (if c then a else b) (if c then a' else b') := by
  by_cases h : c
  · rw [if_pos h, if_pos h]; exact h1 h
  · rw [if_neg h, if_neg h]; exact h2 h

def Mono (T : Tables) (f : Nat) : Prop :=
  (∀ flags ns, FLe (expandList T f flags none ns) (expandList T (f + 1) flags none ns)) ∧
  (∀ flags body count, FLe (replDescriptors T f flags none body count) (replDescriptors T (f + 1) flags none body count)) ∧
  (∀ flags d, FLe (expandDesc T f flags none d) (expandDesc T (f + 1) flags none d))

theorem mono (T : Tables) : ∀ f, Mono T f := by
  intro f
  induction f with
  | zero =>
    refine ⟨?_, ?_, ?_⟩
    · intro flags ns; left; simp [expandList]
    · intro flags b c; left; simp [replDescriptors]
    · intro flags d; left; simp [expandDesc]
  | succ f ih =>
    obtain ⟨ihL, ihR, ihD⟩ := ih
    refine ⟨?_, ?_, ?_⟩
    · intro flags ns
      cases ns with
      | nil => right; simp [expandList]
      | cons n rest =>
        rw [expandList, expandList]
        dsimp only
        refine FLe.ite (fun _ => FLe.map _ (ihL _ _)) (fun _ => ?_)
        refine FLe.ite (fun _ => ?_) (fun _ => ?_)
        · refine FLe.ite (fun _ => ?_) (fun _ => ?_)
          · exact FLe.ite (fun _ => FLe.rfl' _)
              (fun _ => FLe.bind (ihR _ _ _) (fun a => FLe.bind (ihL _ _) (fun b => FLe.rfl' _)))
          · cases rest with
            | nil => exact FLe.rfl' _
            | cons c31 rest' =>
              dsimp only
              refine FLe.ite (fun _ => ?_) (fun _ => FLe.map _ (ihL _ _))
              refine FLe.ite (fun _ => ?_) (fun _ => FLe.bind (ihL _ _) (fun b => FLe.rfl' _))
              exact FLe.ite (fun _ => FLe.rfl' _)
                (fun _ => FLe.bind (ihR _ _ _) (fun a => FLe.bind (ihL _ _) (fun b => FLe.rfl' _)))
        · refine FLe.ite (fun _ => ?_) (fun _ => FLe.map _ (ihL _ _))
          exact FLe.bind (ihD _ _) (fun a => FLe.bind (ihL _ _) (fun b => FLe.rfl' _))
    · intro flags body count
      unfold replDescriptors
      dsimp only
      exact ihL _ _
    · intro flags d
      unfold expandDesc
      split
      · exact FLe.rfl' _
      · split
        · exact FLe.rfl' _
        · split
          · exact FLe.rfl' _
          · split
            · exact FLe.rfl' _
            · split
              · exact FLe.rfl' _
              · exact ihL _ _

theorem FLe.trans {α : Type} {x y z : Except XErr α} (h1 : FLe x y) (h2 : FLe y z) : FLe x z := by
  rcases h1 with h | h
  · exact Or.inl h
  · subst h; exact h2

/-- more fuel never changes an answer that was not "out of fuel" -/
theorem expandList_mono (T : Tables) (flags : Nat) (ns : List Node) (f : Nat) :
    ∀ k, FLe (expandList T f flags none ns) (expandList T (f + k) flags none ns) := by
  intro k
  induction k with
  | zero => exact FLe.rfl' _
  | succ k ih => exact FLe.trans ih ((mono T (f + k)).1 flags ns)

end Bufr
