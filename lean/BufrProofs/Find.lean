import BufrModel.Find
import BufrSpec.Find
/-
  BufrProofs.Find — the search loops of bufr_api.c against "least matching position" (C17).

  Part 1  `findLoop` (the `i / j / jj` loop of bufr_subset_find_values with its restart) returns the least
          position at or after the start at which the per-position test holds for all keys consecutively,
          for EVERY per-position test `m`, number of keys, subset size and start; the fuel `findFuel`
          always suffices.
  Part 2  `findDescriptor`.
-/
namespace Bufr.Find
open Bufr Bufr.Spec.Find

/-- all `nb` keys match consecutively from position `p`, and they fit into the subset -/
def FullAt (m : Nat → Nat → Bool) (nb count p : Nat) : Prop :=
  p + nb ≤ count ∧ ∀ j, j < nb → m (p + j) j = true

/-- what a run of the loop is about to return, as a statement about positions `≥ p` -/
def LeastFrom (m : Nat → Nat → Bool) (nb count p : Nat) (r : Int) : Prop :=
  (r = -1 ∧ ∀ q, p ≤ q → ¬ FullAt m nb count q) ∨
  (∃ q : Nat, r = (q : Int) ∧ p ≤ q ∧ FullAt m nb count q ∧ ∀ q', p ≤ q' → q' < q → ¬ FullAt m nb count q')

/-- Invariant of the loop.  The state `(i, j, jj)` stands for "candidate start `p`, `j` keys matched":
either `jj = p` and `i = p + j`, or `jj = -1`, `j = 0` and `i = p`.  The measure
`(count - p) * (nb + 1) + (nb - j)` decreases with every turn. -/
theorem findLoop_spec (m : Nat → Nat → Bool) (nb count : Nat) :
    ∀ (fuel i j : Nat) (jj : Int) (p c : Nat),
      p + c = count → i = p + j → i ≤ count → j ≤ nb →
      (jj = (p : Int) ∨ (jj = -1 ∧ j = 0 ∧ 0 < nb)) →
      (∀ j', j' < j → m (p + j') j' = true) →
      c * (nb + 1) + (nb - j) ≤ fuel →
      LeastFrom m nb count p (findLoop m nb count fuel i j jj) := by
  intro fuel
  induction fuel with
  | zero =>
    intro i j jj p c hpc hi hic hj hst hpm hfuel
    have hc : c = 0 := by
      rcases Nat.eq_zero_or_pos c with h | h
      · exact h
      · have : 1 * (nb + 1) ≤ c * (nb + 1) := Nat.mul_le_mul_right _ h
        omega
    have hjn : j = nb := by omega
    have hj0 : j = 0 := by omega
    have hnb : nb = 0 := by omega
    have hjj : jj = (p : Int) := by
      rcases hst with h | ⟨_, _, h⟩
      · exact h
      · omega
    simp only [findLoop, hjn, if_true]
    right
    refine ⟨p, hjj, Nat.le_refl _, ⟨by omega, ?_⟩, ?_⟩
    · intro j' hj'; omega
    · intro q' h1 h2; omega
  | succ fuel ih =>
    intro i j jj p c hpc hi hic hj hst hpm hfuel
    unfold findLoop
    by_cases hcond : j < nb ∧ i < count
    · rw [if_pos hcond]
      obtain ⟨hjnb, hilt⟩ := hcond
      by_cases hm : m i j = true
      · rw [if_pos hm]
        have hjj' : (if jj < 0 then (i : Int) else jj) = (p : Int) := by
          rcases hst with h | ⟨h, h0, _⟩
          · have : ¬ (jj < 0) := by omega
            rw [if_neg this]; exact h
          · have : jj < 0 := by omega
            rw [if_pos this]; omega
        rw [hjj']
        apply ih (i + 1) (j + 1) (p : Int) p c hpc (by omega) (by omega) (by omega) (Or.inl rfl)
        · intro j' hj'
          by_cases h : j' < j
          · exact hpm j' h
          · have : j' = j := by omega
            subst this
            rw [← hi]; exact hm
        · omega
      · rw [if_neg hm]
        have hi' : (if jj ≥ 0 then jj.toNat else i) + 1 = p + 1 := by
          rcases hst with h | ⟨h, h0, _⟩
          · have : jj ≥ 0 := by omega
            rw [if_pos this]; omega
          · have : ¬ (jj ≥ 0) := by omega
            rw [if_neg this]; omega
        rw [hi']
        obtain ⟨c', rfl⟩ : ∃ c', c = c' + 1 := ⟨c - 1, by omega⟩
        have hmul : (c' + 1) * (nb + 1) = c' * (nb + 1) + (nb + 1) := Nat.succ_mul _ _
        have hrec := ih (p + 1) 0 (-1) (p + 1) c' (by omega) (by omega) (by omega) (by omega)
          (Or.inr ⟨rfl, rfl, by omega⟩) (by intro j' hj'; omega) (by omega)
        -- `p` itself is not a match: key `j` fails at `p + j`
        have hnot : ¬ FullAt m nb count p := by
          intro ⟨_, hall⟩
          have := hall j hjnb
          rw [← hi] at this
          exact hm this
        rcases hrec with ⟨hr, hall⟩ | ⟨q, hr, hq, hfull, hmin⟩
        · left
          refine ⟨hr, ?_⟩
          intro q hq
          by_cases h : q = p
          · subst h; exact hnot
          · exact hall q (by omega)
        · right
          refine ⟨q, hr, by omega, hfull, ?_⟩
          intro q' h1 h2
          by_cases h : q' = p
          · subst h; exact hnot
          · exact hmin q' (by omega) h2
    · rw [if_neg hcond]
      by_cases hjn : j = nb
      · rw [if_pos hjn]
        have hjj : jj = (p : Int) := by
          rcases hst with h | ⟨_, h0, hpos⟩
          · exact h
          · omega
        right
        refine ⟨p, hjj, Nat.le_refl _, ⟨by omega, ?_⟩, ?_⟩
        · intro j' hj'; exact hpm j' (by omega)
        · intro q' h1 h2; omega
      · rw [if_neg hjn]
        left
        refine ⟨rfl, ?_⟩
        intro q hq ⟨hfit, _⟩
        have : ¬ (i < count) := fun h => hcond ⟨by omega, h⟩
        omega

/-- the fuel of `findValues` is enough -/
theorem findFuel_ok (nb count s : Nat) : (count - s) * (nb + 1) + (nb - 0) ≤ findFuel nb count := by
  unfold findFuel
  have h1 : (count - s) * (nb + 1) ≤ count * (nb + 1) := Nat.mul_le_mul_right _ (Nat.sub_le _ _)
  have h2 : (count + 1) * (nb + 1) = count * (nb + 1) + (nb + 1) := Nat.succ_mul _ _
  omega

/-- the loop as started by `bufr_subset_find_values` (`i = jj = startpos`, `j = 0`) -/
theorem findLoop_least (m : Nat → Nat → Bool) (nb count s : Nat) (hs : s ≤ count) :
    LeastFrom m nb count s (findLoop m nb count (findFuel nb count) s 0 s) :=
  findLoop_spec m nb count (findFuel nb count) s 0 (s : Int) s (count - s) (by omega) (by omega) hs (by omega)
    (Or.inl rfl) (by intro j' hj'; omega) (findFuel_ok nb count s)

/-- the test `firstMatchGen` applies to a position -/
theorem fullAt_iff (m : Nat → Nat → Bool) (nb count s q : Nat) :
    (decide (s ≤ q) && decide (q + nb ≤ count) && (List.range nb).all fun j => m (q + j) j) = true ↔
      s ≤ q ∧ FullAt m nb count q := by
  simp only [Bool.and_eq_true, decide_eq_true_eq, List.all_eq_true, List.mem_range, FullAt]
  constructor
  · rintro ⟨⟨h1, h2⟩, h3⟩; exact ⟨h1, h2, h3⟩
  · rintro ⟨h1, h2, h3⟩; exact ⟨⟨h1, h2⟩, h3⟩

/-- **the restart logic is correct**: started at `s < count`, the loop returns exactly the least matching
position (`-1` when there is none), whatever the per-position test, the number of keys and the subset size -/
theorem findLoop_eq (m : Nat → Nat → Bool) (nb count s : Nat) (hs : s < count) :
    findLoop m nb count (findFuel nb count) s 0 s = result (firstMatchGen m nb count s) := by
  have h := findLoop_least m nb count s (Nat.le_of_lt hs)
  rcases h with ⟨hr, hall⟩ | ⟨q, hr, hq, hfull, hmin⟩
  · have : firstMatchGen m nb count s = none := by
      unfold firstMatchGen
      rw [List.find?_range_eq_none]
      intro q _
      rw [Bool.not_eq_true']
      apply Bool.eq_false_iff.mpr
      intro h
      have := (fullAt_iff m nb count s q).mp h
      exact hall q this.1 this.2
    rw [hr, this]; rfl
  · have hqc : q < count := by
      rcases Nat.eq_zero_or_pos nb with h0 | hpos
      · -- no key: the least position is the start itself
        subst h0
        by_cases h : q = s
        · omega
        · exfalso
          exact hmin s (Nat.le_refl _) (by omega) ⟨by omega, by intro j hj; omega⟩
      · have := hfull.1; omega
    have : firstMatchGen m nb count s = some q := by
      unfold firstMatchGen
      rw [List.find?_range_eq_some]
      refine ⟨(fullAt_iff m nb count s q).mpr ⟨hq, hfull⟩, List.mem_range.mpr hqc, ?_⟩
      intro q' hq'
      rw [Bool.not_eq_true']
      apply Bool.eq_false_iff.mpr
      intro h
      have := (fullAt_iff m nb count s q').mp h
      exact hmin q' this.1 hq' this.2
    rw [hr, this]; rfl

/-! ### Part 2: bufr_subset_find_descriptor -/

theorem findDescGo_spec (d : Int) : ∀ (l : List Node) (i : Nat),
    (findDescGo d l i = -1 ∧ ∀ k (h : k < l.length), ((l[k]).desc : Int) ≠ d) ∨
    (∃ k, ∃ h : k < l.length, findDescGo d l i = ((i + k : Nat) : Int) ∧ ((l[k]).desc : Int) = d ∧
      ∀ k' (h' : k' < l.length), k' < k → ((l[k']).desc : Int) ≠ d) := by
  intro l
  induction l with
  | nil => intro i; left; exact ⟨rfl, by intro k h; simp at h⟩
  | cons n rest ih =>
    intro i
    unfold findDescGo
    by_cases hn : (n.desc : Int) = d
    · rw [if_pos hn]
      right
      exact ⟨0, by simp, by simp, by simpa using hn, by intro k' _ h; omega⟩
    · rw [if_neg hn]
      rcases ih (i + 1) with ⟨hr, hall⟩ | ⟨k, hk, hr, hd, hmin⟩
      · left
        refine ⟨hr, ?_⟩
        intro k h
        cases k with
        | zero => simpa using hn
        | succ k => simpa using hall k (by simpa using h)
      · right
        refine ⟨k + 1, by simpa using hk, ?_, by simpa using hd, ?_⟩
        · rw [hr]; congr 1; omega
        · intro k' h' hlt
          cases k' with
          | zero => simpa using hn
          | succ k' => simpa using hmin k' (by simpa using h') (by omega)

theorem findDescriptor_eq (ns : List Node) (d start : Int) :
    findDescriptor ns d start = result (firstIndexFrom ns d start) := by
  unfold findDescriptor firstIndexFrom
  generalize hs : (if start < 0 then 0 else start.toNat) = s
  simp only []
  by_cases hge : s ≥ ns.length
  · rw [if_pos hge]
    have : (List.range ns.length).find? (fun p => decide (s ≤ p) && holdsDesc ns d p) = none := by
      rw [List.find?_range_eq_none]
      intro i hi
      have : ¬ (s ≤ i) := by omega
      simp [this]
    rw [this]; rfl
  · rw [if_neg hge]
    have hlen : (ns.drop s).length = ns.length - s := by simp
    rcases findDescGo_spec d (ns.drop s) s with ⟨hr, hall⟩ | ⟨k, hk, hr, hd, hmin⟩
    · have : (List.range ns.length).find? (fun p => decide (s ≤ p) && holdsDesc ns d p) = none := by
        rw [List.find?_range_eq_none]
        intro i hi
        by_cases hsi : s ≤ i
        · have h1 : i - s < (ns.drop s).length := by omega
          have h2 := hall (i - s) h1
          rw [List.getElem_drop] at h2
          have h3 : s + (i - s) = i := by omega
          simp only [h3] at h2
          have : ns[i]? = some ns[i] := List.getElem?_eq_getElem hi
          simp [holdsDesc, this, h2]
        · simp [hsi]
      rw [hr, this]; rfl
    · have hk' : s + k < ns.length := by omega
      have : (List.range ns.length).find? (fun p => decide (s ≤ p) && holdsDesc ns d p) = some (s + k) := by
        rw [List.find?_range_eq_some]
        refine ⟨?_, List.mem_range.mpr hk', ?_⟩
        · rw [List.getElem_drop] at hd
          have : ns[s + k]? = some ns[s + k] := List.getElem?_eq_getElem hk'
          simp [holdsDesc, this, hd]
        · intro j hj
          by_cases hsj : s ≤ j
          · have h1 : j - s < (ns.drop s).length := by omega
            have h2 := hmin (j - s) h1 (by omega)
            rw [List.getElem_drop] at h2
            have h3 : s + (j - s) = j := by omega
            simp only [h3] at h2
            have : ns[j]? = some ns[j] := List.getElem?_eq_getElem (by omega)
            simp [holdsDesc, this, h2]
          · simp [hsj]
      rw [hr, this]; rfl

end Bufr.Find

namespace Bufr.Find
open Bufr Bufr.Spec.Find

/-! ### `firstMatchGen`: what its answers mean -/

theorem firstMatchGen_some {m : Nat → Nat → Bool} {nb count s p : Nat} (h : firstMatchGen m nb count s = some p) :
    s ≤ p ∧ p < count ∧ FullAt m nb count p ∧ ∀ q, s ≤ q → q < p → ¬ FullAt m nb count q := by
  unfold firstMatchGen at h
  rw [List.find?_range_eq_some] at h
  obtain ⟨h1, h2, h3⟩ := h
  have h1' := (fullAt_iff m nb count s p).mp h1
  refine ⟨h1'.1, List.mem_range.mp h2, h1'.2, ?_⟩
  intro q hq hlt hfull
  have := h3 q hlt
  rw [Bool.not_eq_true', ← Bool.not_eq_true] at this
  exact this ((fullAt_iff m nb count s q).mpr ⟨hq, hfull⟩)

theorem firstMatchGen_none {m : Nat → Nat → Bool} {nb count s : Nat} (h : firstMatchGen m nb count s = none) :
    ∀ q, s ≤ q → q < count → ¬ FullAt m nb count q := by
  unfold firstMatchGen at h
  rw [List.find?_range_eq_none] at h
  intro q hq hlt hfull
  have := h q hlt
  rw [Bool.not_eq_true', ← Bool.not_eq_true] at this
  exact this ((fullAt_iff m nb count s q).mpr ⟨hq, hfull⟩)

theorem find?_congr' {α : Type} {p q : α → Bool} : ∀ (l : List α), (∀ x ∈ l, p x = q x) → l.find? p = l.find? q := by
  intro l
  induction l with
  | nil => intro _; rfl
  | cons a t ih =>
    intro h
    rw [List.find?_cons, List.find?_cons, h a (List.mem_cons_self), ih (fun x hx => h x (List.mem_cons_of_mem _ hx))]

/-- only the tests at positions inside the subset matter -/
theorem firstMatchGen_congr {m m' : Nat → Nat → Bool} (nb count s : Nat)
    (h : ∀ i j, i < count → m i j = m' i j) : firstMatchGen m nb count s = firstMatchGen m' nb count s := by
  unfold firstMatchGen
  apply find?_congr'
  intro p _
  by_cases hfit : p + nb ≤ count
  · have : ((List.range nb).all fun j => m (p + j) j) = ((List.range nb).all fun j => m' (p + j) j) := by
      rw [Bool.eq_iff_iff, List.all_eq_true, List.all_eq_true]
      constructor
      · intro h' j hj
        rw [← h (p + j) j (by have := List.mem_range.mp hj; omega)]; exact h' j hj
      · intro h' j hj
        rw [h (p + j) j (by have := List.mem_range.mp hj; omega)]; exact h' j hj
    rw [this]
  · simp [hfit]

end Bufr.Find
