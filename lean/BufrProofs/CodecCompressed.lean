import BufrProofs.Codec
/-
  BufrProofs.CodecCompressed — the compressed data section as a whole: what `putColumn` writes for
  one position of the template, what the lock-step decoder reads from it, and the walk over all
  positions of a static template.
-/
namespace Bufr
open Bufr

/-- the bits of the associated-field column of a position -/
def afColBits (col : List Node) : List Bool :=
  match col with
  | [] => []
  | n0 :: _ =>
    if n0.enc.afNbits = 0 ∨ n0.afW = 0 then []
    else
      bitsMSB n0.afW (encAfCol (col.map (·.afBits))).1 ++ bitsMSB 6 (encAfCol (col.map (·.afBits))).2.1 ++
        (encAfCol (col.map (·.afBits))).2.2.flatMap (bitsMSB (encAfCol (col.map (·.afBits))).2.1)

/-- the bits of the value column of a position (IEEE columns are outside this file) -/
def bodyColBits (col : List Node) : List Bool :=
  match col with
  | [] => []
  | n0 :: _ =>
    match n0.enc.type with
    | .ccitt =>
      if ccittDiffers n0 col then
        (strPad none (n0.enc.nbits / 8).toNat).flatMap (bitsMSB 8) ++ bitsMSB 6 (n0.enc.nbits / 8).toNat ++
          col.flatMap (fun n => (paddedString n).flatMap (bitsMSB 8))
      else (paddedString n0).flatMap (bitsMSB 8) ++ bitsMSB 6 0
    | .numeric | .codetable | .flagtable | .chngRef =>
      if n0.enc.nbits ≤ 0 then []
      else
        bitsMSB n0.enc.nbits.toNat (encNumCol n0.enc.nbits (col.map value2bits)).1 ++
          bitsMSB 6 (encNumCol n0.enc.nbits (col.map value2bits)).2.1 ++
          (encNumCol n0.enc.nbits (col.map value2bits)).2.2.flatMap (bitsMSB (encNumCol n0.enc.nbits (col.map value2bits)).2.1)
    | _ => []

/-- everything one position of the template contributes to a compressed Section 4 -/
def colBits (col : List Node) : List Bool :=
  match col with
  | [] => []
  | n0 :: _ => if n0.flags.skipped then [] else afColBits col ++ bodyColBits col

/-- **wire format of one position, compressed** -/
theorem putColumn_bits (w : W) (hI : WInv w) (col : List Node)
    (haf : ∀ n0 rest, col = n0 :: rest → ¬ (n0.enc.afNbits = 0 ∨ n0.afW = 0) → ∀ n ∈ col, n.afW > 0)
    (hie : ∀ n0 rest, col = n0 :: rest → n0.enc.type ≠ .ieee) :
    (putColumn w col).bits = w.bits ++ colBits col ∧ WInv (putColumn w col) := by
  cases col with
  | nil => simp [putColumn, colBits, hI]
  | cons n0 rest =>
    unfold putColumn colBits
    by_cases hs : n0.flags.skipped = true
    · simp [hs, hI]
    · simp only [hs, Bool.false_eq_true, if_false]
      -- associated fields
      have h1 : ∃ w1, putAfCompressed w (n0 :: rest) = w1 ∧ w1.bits = w.bits ++ afColBits (n0 :: rest) ∧ WInv w1 := by
        by_cases ha : n0.enc.afNbits = 0 ∨ n0.afW = 0
        · refine ⟨w, ?_, by simp [afColBits, ha], hI⟩
          unfold putAfCompressed; simp [ha]
        · obtain ⟨p1, p2⟩ := putAfCompressed_bits w hI n0 rest ha (haf n0 rest rfl ha)
          exact ⟨_, rfl, by rw [p1]; simp [afColBits, ha], p2⟩
      obtain ⟨w1, e1, hb1, hI1⟩ := h1
      rw [e1]
      have hni := hie n0 rest rfl
      unfold bodyColBits
      cases ht : n0.enc.type <;> simp only [ht] at hni ⊢
      case ccitt =>
        obtain ⟨p1, p2⟩ := putCcittCompressed_bits w1 hI1 n0 rest
        exact ⟨by rw [p1, hb1, List.append_assoc], p2⟩
      case ieee => exact absurd rfl hni
      case numeric | codetable | flagtable | chngRef =>
        by_cases hnb : n0.enc.nbits ≤ 0
        · simp only [hnb, if_true]; exact ⟨by rw [hb1]; simp, hI1⟩
        · simp only [hnb, if_false]
          obtain ⟨p1, p2⟩ := putNumericCompressed_bits w1 hI1 n0 rest
          exact ⟨by rw [p1, hb1, List.append_assoc], p2⟩
      all_goals exact ⟨by rw [hb1]; simp, hI1⟩

/-! ### one position read by the lock-step decoder -/

def numLike (t : DType) : Bool := t = .numeric || t = .codetable || t = .flagtable || t = .chngRef

/-- the node the decoder works on once the associated field of its position has been read -/
def afStep (n m : Node) : Node := if n.enc.afNbits = 0 then n else { mkvalNode n with afBits := m.afBits }

/-- decoder copy `n` after the column of its position has been read, for the subset whose encoder
node is `m` -/
def decElem (n m : Node) : Node :=
  if n.flags.skipped then n
  else
    let n2 := afStep n m
    match n.enc.type with
    | .ccitt => { mkvalNode n2 with
        val := (mkvalNode n2).val.setString (some ((paddedString m).map (· % 256))) (n.enc.nbits / 8).toNat }
    | .numeric | .codetable | .flagtable | .chngRef => setBitsValue n2 (value2bits m)
    | _ => n2

/-- the inline column step of `decodeCompressedLoop` -/
def readPosition (r : R) (cb1 : Node) (col1 : List Node) (g : Range) : Option (R × List Node) :=
  match getAfCompressed r col1 g with
  | none => none
  | some (r1, col2) =>
    match cb1.enc.type with
    | .ccitt => getCcittCompressed r1 col2 g
    | .ieee => getIeeeCompressed r1 col2 g
    | .numeric | .codetable | .flagtable | .chngRef => getNumericCompressed r1 col2 g
    | _ => some (r1, col2)

/-- what makes a column of encoder nodes fit position `n` of the decoder's list -/
structure ColOK (n : Node) (col : List Node) : Prop where
  ne : col ≠ []
  enc : ∀ m ∈ col, m.enc = n.enc
  notIeee : n.enc.type ≠ .ieee
  af : n.enc.afNbits ≠ 0 → ∀ m ∈ col, m.afW = (mkvalNode n).afW ∧ m.afW > 0 ∧ m.afW ≤ 62 ∧ m.afBits < 2^m.afW
  num : numLike n.enc.type = true → 1 ≤ n.enc.nbits ∧ n.enc.nbits ≤ 64 ∧
    (∀ m ∈ col, value2bits m ≤ missingIvalue n.enc.nbits) ∧
    (n.enc.nbits = 64 → ∀ a ∈ col, ∀ b ∈ col, value2bits a ≠ missingIvalue n.enc.nbits →
      value2bits b ≠ missingIvalue n.enc.nbits → value2bits a - value2bits b < 2^63 - 1)
  str : n.enc.type = .ccitt → 8 ≤ n.enc.nbits ∧ n.enc.nbits % 8 = 0 ∧ n.enc.nbits / 8 ≤ 63 ∧
    (∀ m ∈ col, ∀ c ∈ trimStr (valueString m) (n.enc.nbits / 8).toNat, c ≠ 0)

theorem zipWithNodes_replicate_map (f : Node → Nat → Node) (n : Node) (b : Node → Nat) : ∀ (l : List Node),
    zipWithNodes f (List.replicate l.length n) (l.map b) = l.map (fun x => f n (b x)) := by
  intro l
  induction l with
  | nil => simp [zipWithNodes]
  | cons a l ih => simp only [List.length_cons, List.replicate_succ, List.map_cons, zipWithNodes, ih]

theorem zipWithNodes_map_map (f : Node → Nat → Node) (a : Node → Node) (b : Node → Nat) : ∀ (l : List Node),
    zipWithNodes f (l.map a) (l.map b) = l.map (fun x => f (a x) (b x)) := by
  intro l
  induction l with
  | nil => simp [zipWithNodes]
  | cons x l ih => simp only [List.map_cons, zipWithNodes, ih]

theorem zipWithStrs_map_map (f : Node → List Nat → Node) (a : Node → Node) (b : Node → List Nat) : ∀ (l : List Node),
    zipWithStrs f (l.map a) (l.map b) = l.map (fun x => f (a x) (b x)) := by
  intro l
  induction l with
  | nil => simp [zipWithStrs]
  | cons x l ih => simp only [List.map_cons, zipWithStrs, ih]

theorem setBitsValue_shape (n : Node) (v : Nat) :
    (setBitsValue n v).desc = n.desc ∧ (setBitsValue n v).enc = n.enc ∧ (setBitsValue n v).flags = n.flags := by
  have hm := mkvalNode_enc n
  have hmf : (mkvalNode n).flags = n.flags := by
    unfold mkvalNode
    by_cases h1 : n.val.isSome
    · simp [h1]
    · simp only [h1]; by_cases h2 : (freshVal n.enc).isSome <;> simp [h2]
  unfold setBitsValue
  split
  · exact ⟨rfl, rfl, rfl⟩
  · split
    · exact ⟨rfl, rfl, rfl⟩
    · simp only
      split
      · split <;> simp [hm.1, hm.2, hmf]
      · simp [hm.1, hm.2, hmf]
      · simp [hm.1, hm.2, hmf]

theorem mkvalNode_flags (n : Node) : (mkvalNode n).flags = n.flags := by
  unfold mkvalNode
  by_cases h1 : n.val.isSome
  · simp [h1]
  · simp only [h1]; by_cases h2 : (freshVal n.enc).isSome <;> simp [h2]

/-- giving a copy its associated field does not change the value it will receive -/
theorem mkvalNode_af_copy (n : Node) (v : Nat) :
    (mkvalNode { mkvalNode n with afBits := v }).val = (mkvalNode n).val ∧
    (mkvalNode { mkvalNode n with afBits := v }).enc = n.enc := by
  have hm := mkvalNode_enc n
  constructor
  · unfold mkvalNode
    by_cases h1 : n.val.isSome
    · simp [h1]
    · simp only [h1, Bool.false_eq_true, if_false]
      by_cases h2 : (freshVal n.enc).isSome
      · simp [h2]
      · simp [h2, h1]
  · rw [(mkvalNode_enc _).1]; exact hm.1

theorem afStep_shape (n m : Node) : (afStep n m).enc = n.enc ∧ (afStep n m).desc = n.desc ∧
    (afStep n m).flags = n.flags ∧ (mkvalNode (afStep n m)).val = (mkvalNode n).val := by
  unfold afStep
  by_cases h : n.enc.afNbits = 0
  · simp [h]
  · simp only [h, if_false]
    have hm := mkvalNode_enc n
    exact ⟨hm.1, hm.2, mkvalNode_flags n, (mkvalNode_af_copy n m.afBits).1⟩

theorem bodyColBits_numLike (n0 : Node) (rest : List Node) (h : numLike n0.enc.type = true) (hpos : ¬ n0.enc.nbits ≤ 0) :
    bodyColBits (n0 :: rest) =
      bitsMSB n0.enc.nbits.toNat (encNumCol n0.enc.nbits ((n0 :: rest).map value2bits)).1 ++
        bitsMSB 6 (encNumCol n0.enc.nbits ((n0 :: rest).map value2bits)).2.1 ++
        (encNumCol n0.enc.nbits ((n0 :: rest).map value2bits)).2.2.flatMap
          (bitsMSB (encNumCol n0.enc.nbits ((n0 :: rest).map value2bits)).2.1) := by
  unfold bodyColBits numLike at *
  cases ht : n0.enc.type <;> simp [ht] at h <;> simp [ht, hpos]

theorem bodyColBits_other (n0 : Node) (rest : List Node) (h : numLike n0.enc.type = false) (hc : n0.enc.type ≠ .ccitt) :
    bodyColBits (n0 :: rest) = [] := by
  unfold bodyColBits numLike at *
  cases ht : n0.enc.type <;> simp [ht] at h hc <;> simp [ht]

theorem readSel_numLike {α} (t : DType) (a b c d : α) : numLike t = true →
    (match t with | .ccitt => a | .ieee => b | .numeric | .codetable | .flagtable | .chngRef => c | _ => d) = c := by
  intro h
  unfold numLike at h
  cases t <;> simp at h <;> rfl

theorem readSel_other {α} (t : DType) (a b c d : α) : numLike t = false → t ≠ .ccitt → t ≠ .ieee →
    (match t with | .ccitt => a | .ieee => b | .numeric | .codetable | .flagtable | .chngRef => c | _ => d) = d := by
  intro h hc hi
  unfold numLike at h
  cases t <;> simp at h hc hi <;> rfl

theorem decElem_numLike (n m : Node) (hns : n.flags.skipped = false) (h : numLike n.enc.type = true) :
    decElem n m = setBitsValue (afStep n m) (value2bits m) := by
  unfold decElem numLike at *
  simp only [hns, Bool.false_eq_true, if_false]
  cases ht : n.enc.type <;> simp [ht] at h <;> rfl

theorem decElem_other (n m : Node) (hns : n.flags.skipped = false) (h : numLike n.enc.type = false)
    (hc : n.enc.type ≠ .ccitt) : decElem n m = afStep n m := by
  unfold decElem numLike at *
  simp only [hns, Bool.false_eq_true, if_false]
  cases ht : n.enc.type <;> simp [ht] at h hc <;> rfl

/-- **one position of a compressed data section** (whole dataset): from the bits `putColumn` wrote
for the column, the decoder's copies of node `n` become `decElem n m`, one per subset, and the cursor
ends right after the column -/
theorem readPosition_roundtrip (n : Node) (col : List Node) (hok : ColOK n col) (hns : n.flags.skipped = false)
    (r : R) (hI : RInv r) (tail : List Bool) (hb : r.bits = afColBits col ++ bodyColBits col ++ tail)
    (g : Range) (hfull : g.from_ ≤ 0) (hn : g.nsub = col.length) :
    ∃ r', readPosition r n (List.replicate col.length n) g = some (r', col.map (decElem n)) ∧
      r'.bits = tail ∧ RInv r' := by
  obtain ⟨hne, henc, hnie, haf, hnum, hstr⟩ := hok
  cases col with
  | nil => exact absurd rfl hne
  | cons n0 rest =>
  have he0 := henc n0 (by simp)
  have hgok : g.OK := Or.inl hfull
  have hcount : g.count = (n0 :: rest).length := by unfold Range.count; rw [if_neg (by omega), hn]
  have hslice : ∀ {α} (l : List α), g.slice l = l := by intro α l; unfold Range.slice; rw [if_neg (by omega)]
  -- step 1: associated fields
  have hstep1 : ∃ r1, getAfCompressed r (List.replicate (n0 :: rest).length n) g =
      some (r1, (n0 :: rest).map (afStep n)) ∧ r1.bits = bodyColBits (n0 :: rest) ++ tail ∧ RInv r1 := by
    by_cases ha : n.enc.afNbits = 0
    · have hafb : afColBits (n0 :: rest) = [] := by unfold afColBits; simp [he0, ha]
      rw [hafb, List.nil_append] at hb
      refine ⟨r, ?_, hb, hI⟩
      unfold getAfCompressed
      simp only [List.length_cons, List.replicate_succ, ha, if_true]
      congr 2
      have : ∀ (l : List Node), List.replicate l.length n = l.map (afStep n) := by
        intro l; induction l with
        | nil => rfl
        | cons a l ih => simp [List.replicate_succ, ih, afStep, ha]
      have := this (n0 :: rest)
      simpa [List.replicate_succ] using this
    · have hall := haf ha
      have h0 := hall n0 (by simp)
      have hcond : ¬ (n0.enc.afNbits = 0 ∨ n0.afW = 0) := by rw [he0]; omega
      have hafb : afColBits (n0 :: rest) =
          bitsMSB n0.afW (encAfCol ((n0 :: rest).map (·.afBits))).1 ++ bitsMSB 6 (encAfCol ((n0 :: rest).map (·.afBits))).2.1 ++
            (encAfCol ((n0 :: rest).map (·.afBits))).2.2.flatMap (bitsMSB (encAfCol ((n0 :: rest).map (·.afBits))).2.1) := by
        unfold afColBits; simp only [hcond, if_false]
      obtain ⟨pb, _⟩ := putAfCompressed_bits (W.new 0) (WInv_new 0) n0 rest hcond (fun m hm => (hall m hm).2.1)
      have hb2 : (W.new 0).bits ++ r.bits = (putAfCompressed (W.new 0) (n0 :: rest)).bits ++ (bodyColBits (n0 :: rest) ++ tail) := by
        rw [pb, hb, hafb]; simp
      obtain ⟨r1, e, hbr, hIr⟩ := af_column_roundtrip (W.new 0) (WInv_new 0) n0 rest hcond (fun m hm => (hall m hm).2.1)
        h0.2.2.1 (fun m hm => by
          have hm' := hall m hm
          have e1 : m.afW = n0.afW := by rw [hm'.1, h0.1]
          rw [← e1]; exact hm'.2.2.2)
        r hI _ hb2 n (List.replicate rest.length n) ha h0.1.symm g hfull hn (by simp [hn])
      refine ⟨r1, ?_, hbr, hIr⟩
      have hrep : List.replicate (n0 :: rest).length n = n :: List.replicate rest.length n := by simp [List.replicate_succ]
      rw [hrep, e, ← hrep, zipWithNodes_replicate_map]
      congr 2
      apply List.map_congr_left
      intro m _
      simp [afStep, ha]
  obtain ⟨r1, e1, hb1, hI1⟩ := hstep1
  unfold readPosition
  rw [e1]
  simp only
  -- the copies after step 1
  have hcol2 : (n0 :: rest).map (afStep n) = afStep n n0 :: rest.map (afStep n) := rfl
  have hsh0 := afStep_shape n n0
  by_cases hnl : numLike n.enc.type = true
  · -- numeric, code table, flag table, new reference
    obtain ⟨h1, h2, hv, hsp⟩ := hnum hnl
    have hbody := bodyColBits_numLike n0 rest (by rw [he0]; exact hnl) (by rw [he0]; omega)
    obtain ⟨pb, _⟩ := putNumericCompressed_bits (W.new 0) (WInv_new 0) n0 rest
    have hb2 : (W.new 0).bits ++ r1.bits = (putNumericCompressed (W.new 0) (n0 :: rest)).bits ++ tail := by
      rw [pb, hb1, hbody]; simp
    obtain ⟨r2, e2, hb2', hI2⟩ := numeric_column_roundtrip (W.new 0) (WInv_new 0) n0 rest (by rw [he0]; exact h1)
      (by rw [he0]; exact h2) (by rw [he0]; exact hv) (by rw [he0]; exact hsp) r1 hI1 tail hb2
      (afStep n n0) (rest.map (afStep n)) (by rw [hsh0.1, he0]) g hgok hn (by simp [hcount])
    refine ⟨r2, ?_, hb2', hI2⟩
    rw [hcol2]
    have hsel := readSel_numLike n.enc.type (getCcittCompressed r1 (afStep n n0 :: rest.map (afStep n)) g)
      (getIeeeCompressed r1 (afStep n n0 :: rest.map (afStep n)) g) (getNumericCompressed r1 (afStep n n0 :: rest.map (afStep n)) g)
      (some (r1, afStep n n0 :: rest.map (afStep n))) hnl
    rw [hsel, e2, hslice, ← hcol2, zipWithNodes_map_map]
    congr 2
    apply List.map_congr_left
    intro m _
    exact (decElem_numLike n m hns hnl).symm
  · have hnl' : numLike n.enc.type = false := by simpa using hnl
    by_cases hc : n.enc.type = .ccitt
    · obtain ⟨h8, hm8, h63, hz⟩ := hstr hc
      have hbody : bodyColBits (n0 :: rest) =
          (if ccittDiffers n0 (n0 :: rest) then
            (strPad none (n0.enc.nbits / 8).toNat).flatMap (bitsMSB 8) ++ bitsMSB 6 (n0.enc.nbits / 8).toNat ++
              (n0 :: rest).flatMap (fun n => (paddedString n).flatMap (bitsMSB 8))
            else (paddedString n0).flatMap (bitsMSB 8) ++ bitsMSB 6 0) := by
        unfold bodyColBits; simp [he0, hc]
      obtain ⟨pb, _⟩ := putCcittCompressed_bits (W.new 0) (WInv_new 0) n0 rest
      have hb2 : (W.new 0).bits ++ r1.bits = (putCcittCompressed (W.new 0) (n0 :: rest)).bits ++ tail := by
        rw [pb, hb1, hbody]; simp
      obtain ⟨r2, e2, hb2', hI2⟩ := ccitt_column_roundtrip (W.new 0) (WInv_new 0) n0 rest (by rw [he0]; exact h8)
        (by rw [he0]; exact hm8) (by rw [he0]; exact h63) (fun m hm => by rw [henc m hm, he0])
        (by rw [he0]; exact hz n0 (by simp)) r1 hI1 tail hb2
        (afStep n n0) (rest.map (afStep n)) (by rw [hsh0.1, he0])
        (by
          intro x hx
          have hx' : x ∈ (n0 :: rest).map (afStep n) := hx
          obtain ⟨m, _, rfl⟩ := List.mem_map.mp hx'
          have hs := afStep_shape n m
          exact ⟨by rw [hs.2.2.2, hsh0.2.2.2], by rw [(mkvalNode_enc _).1, hs.1, hsh0.1]⟩)
        g hfull hn (by simp [hn])
      refine ⟨r2, ?_, hb2', hI2⟩
      rw [hcol2]
      simp only [hc]
      rw [e2, ← hcol2, zipWithStrs_map_map]
      congr 2
      apply List.map_congr_left
      intro m _
      unfold decElem
      have hs := afStep_shape n m
      simp only [hns, Bool.false_eq_true, if_false, hc, hsh0.1]
      rw [hsh0.2.2.2, ← hs.2.2.2]
    · -- an operator or other node without data: nothing on the wire
      have hbody := bodyColBits_other n0 rest (by rw [he0]; exact hnl') (by rw [he0]; exact hc)
      rw [hbody, List.nil_append] at hb1
      refine ⟨r1, ?_, hb1, hI1⟩
      have hsel := readSel_other n.enc.type (getCcittCompressed r1 ((n0 :: rest).map (afStep n)) g)
        (getIeeeCompressed r1 ((n0 :: rest).map (afStep n)) g) (getNumericCompressed r1 ((n0 :: rest).map (afStep n)) g)
        (some (r1, (n0 :: rest).map (afStep n))) hnl' hc hnie
      rw [hsel]
      congr 2
      apply List.map_congr_left
      intro m _
      exact (decElem_other n m hns hnl' hc).symm

/-! ### the lock-step walk over a static template -/

theorem replicate_any_isEmpty {α} (k : Nat) (a : α) (l : List α) :
    (List.replicate k (a :: l)).any (·.isEmpty) = false := by
  induction k with
  | zero => rfl
  | succ k ih => simp [List.replicate_succ, ih]

theorem replicate_filterMap_head {α} (k : Nat) (a : α) (l : List α) :
    (List.replicate k (a :: l)).filterMap (·.head?) = List.replicate k a := by
  induction k with
  | zero => rfl
  | succ k ih => simp [List.replicate_succ, ih]

theorem replicate_map_drop1 {α} (k : Nat) (a : α) (l : List α) :
    (List.replicate k (a :: l)).map (·.drop 1) = List.replicate k l := by
  induction k with
  | zero => rfl
  | succ k ih => simp [List.replicate_succ, ih]

theorem zipWith_replicate {α β γ} (f : α → β → γ) (k : Nat) (a : α) (b : β) :
    List.zipWith f (List.replicate k a) (List.replicate k b) = List.replicate k (f a b) := by
  induction k with
  | zero => rfl
  | succ k ih => simp [List.replicate_succ, ih]

theorem zipWith_replicate_left_const {α β γ} (f : α → β → γ) (c : γ) (a : α) : ∀ (l : List β),
    (∀ x ∈ l, f a x = c) → List.zipWith f (List.replicate l.length a) l = List.replicate l.length c := by
  intro l
  induction l with
  | nil => intro _; rfl
  | cons x l ih =>
    intro h
    simp only [List.length_cons, List.replicate_succ, List.zipWith_cons_cons]
    rw [h x (by simp), ih (fun y hy => h y (by simp [hy]))]

theorem decElem_shape (n m : Node) (hnie : n.enc.type ≠ .ieee) : (decElem n m).enc = n.enc ∧ (decElem n m).desc = n.desc := by
  by_cases hs : n.flags.skipped = true
  · unfold decElem; simp [hs]
  · have hns : n.flags.skipped = false := by simpa using hs
    have ha := afStep_shape n m
    by_cases hnl : numLike n.enc.type = true
    · rw [decElem_numLike n m hns hnl]
      have := setBitsValue_shape (afStep n m) (value2bits m)
      exact ⟨by rw [this.2.1, ha.1], by rw [this.1, ha.2.1]⟩
    · have hnl' : numLike n.enc.type = false := by simpa using hnl
      by_cases hc : n.enc.type = .ccitt
      · unfold decElem
        simp only [hns, Bool.false_eq_true, if_false, hc]
        have hm := mkvalNode_enc (afStep n m)
        exact ⟨by rw [hm.1, ha.1], by rw [hm.2, ha.2.1]⟩
      · rw [decElem_other n m hns hnl' hc]; exact ⟨ha.1, ha.2.1⟩

theorem colBits_cons (m0 : Node) (t : List Node) :
    colBits (m0 :: t) = if m0.flags.skipped then [] else afColBits (m0 :: t) ++ bodyColBits (m0 :: t) := rfl

/-- position `n` of the decoder's list against the column of encoder nodes for it -/
structure PosOK (k : Nat) (n : Node) (col : List Node) : Prop where
  len : col.length = k + 1
  skipped : ∀ m ∈ col, m.flags.skipped = n.flags.skipped
  ok : n.flags.skipped = false → ColOK n col

/-- what the walk leaves at position `n` for every subset -/
def decPos (k : Nat) (n : Node) (col : List Node) : List Node :=
  if n.flags.skipped then List.replicate (k + 1) n else col.map (decElem n)

/-- the per-subset lists after the positions `cols` have been pushed (newest first, as the decoder
keeps them) -/
def pushCols : List (List Node) → List (List Node) → List (List Node)
  | [], d => d
  | c :: cs, d => pushCols cs (List.zipWith (fun n l => n :: l) c d)

/-- **the compressed walk over a static template** (whole dataset, `k+1` subsets): from the bits the
encoder wrote column by column, the lock-step decoder leaves `decPos` at every position of every
subset, raises no error, never dereferences a missing node, and ends right after the last column -/
theorem decodeCompressedLoop_static (T : Tables) (edition s4max : Nat) (g : Range) (k : Nat)
    (hfull : g.from_ ≤ 0) (hn : g.nsub = k + 1) :
    ∀ (nodes : List Node) (cols : List (List Node)) (fuel : Nat) (ddo : DDO) (st : CompSt) (tail : List Bool),
    nodes.length < fuel → staticOK T edition ddo nodes = true → List.Forall₂ (PosOK k) nodes cols →
    st.todos = List.replicate (k + 1) nodes → st.ddos = List.replicate (k + 1) ddo → st.dones.length = k + 1 →
    st.pendingDelayed = false → RInv st.r → st.r.bits = cols.flatMap colBits ++ tail →
    ∃ st', decodeCompressedLoop T edition s4max g fuel st = .ok st' ∧ st'.invalid = st.invalid ∧
      st'.todos = List.replicate (k + 1) [] ∧
      st'.dones = pushCols (List.zipWith (decPos k) nodes cols) st.dones ∧ st'.r.bits = tail := by
  intro nodes
  induction nodes with
  | nil =>
    intro cols fuel ddo st tail hf _ hp ht _ _ _ _ hb
    cases hp
    cases fuel with
    | zero => simp at hf
    | succ f =>
      refine ⟨st, ?_, rfl, ht, by simp [pushCols], by simpa using hb⟩
      unfold decodeCompressedLoop
      rw [ht]
      simp [List.replicate_succ]
  | cons n ns ih =>
    intro cols fuel ddo st tail hf hok hp ht hd hdl hpd hI hb
    cases hp with
    | cons hpos hps =>
    rename_i col cols'
    cases fuel with
    | zero => simp at hf
    | succ f =>
    simp only [staticOK, Bool.and_eq_true, decide_eq_true_eq, Bool.not_eq_true', Bool.not_eq_eq_eq_not,
      Bool.not_true] at hok
    obtain ⟨⟨⟨⟨hfix, herr⟩, hnc⟩, hnd⟩, hrest⟩ := hok
    generalize ha : applyTables2node T edition ddo n = a at hfix herr hrest
    obtain ⟨ddo1, n1, err⟩ := a
    simp only at hfix herr hrest
    subst hfix
    subst herr
    rw [List.flatMap_cons, List.append_assoc] at hb
    -- the shape of one iteration
    have happ : List.zipWith (fun ddo n => applyTables2node T edition ddo n) (List.replicate (k + 1) ddo)
        (List.replicate (k + 1) n1) = List.replicate (k + 1) (ddo1, n1, false) := by
      rw [zipWith_replicate, ha]
    unfold decodeCompressedLoop
    rw [ht]
    simp only [List.replicate_succ]
    rw [← List.replicate_succ]
    simp only [replicate_any_isEmpty, Bool.false_eq_true, if_false, replicate_filterMap_head, replicate_map_drop1,
      hd, happ, List.map_replicate, List.any_replicate]
    have hk0 : ¬ (k + 1 = 0) := by omega
    have hf' : ns.length < f := by simp at hf; omega
    have hhd : (List.replicate (k + 1) n1).headD n1 = n1 := by simp [List.replicate_succ]
    simp only [hk0, if_false, List.isEmpty_cons, Bool.false_eq_true, List.drop_one, List.tail_cons, Bool.or_false, hhd, hpd,
      false_and]
    by_cases hsk : n1.flags.skipped = true
    · -- a position without data in every subset
      have hcb : colBits col = [] := by
        cases col with
        | nil => rfl
        | cons m0 _ => rw [colBits_cons, hpos.skipped m0 (by simp), hsk]; simp
      rw [hcb, List.nil_append] at hb
      simp only [hsk, if_true]
      obtain ⟨st', e, hinv, htd, hdn, hbt⟩ := ih cols' f ddo1
        { r := st.r, invalid := st.invalid, ddos := List.replicate (k + 1) ddo1,
          dones := List.zipWith (fun x1 x2 => x1 :: x2) (List.replicate (k + 1) n1) st.dones,
          todos := List.replicate (k + 1) ns, pendingDelayed := false, early := st.early } tail
        hf' hrest hps rfl rfl (by simp [hdl]) rfl hI hb
      refine ⟨st', e, hinv, htd, ?_, hbt⟩
      rw [hdn]
      simp only [List.zipWith_cons_cons, pushCols, decPos, hsk, if_true]
    · have hns : n1.flags.skipped = false := by simpa using hsk
      have hcok := hpos.ok hns
      have hcb : colBits col = afColBits col ++ bodyColBits col := by
        cases col with
        | nil => exact absurd rfl hcok.ne
        | cons m0 _ => rw [colBits_cons, hpos.skipped m0 (by simp), hns]; simp
      rw [hcb] at hb
      have hlen := hpos.len
      obtain ⟨r2, e2, hb2, hI2⟩ := readPosition_roundtrip n1 col hcok hns st.r hI (cols'.flatMap colBits ++ tail)
        (by rw [hb]) g hfull (by rw [hn, hlen])
      rw [hlen] at e2
      unfold readPosition at e2
      simp only [hns, Bool.false_eq_true, if_false]
      cases hga : getAfCompressed st.r (List.replicate (k + 1) n1) g with
      | none => rw [hga] at e2; simp at e2
      | some p =>
        obtain ⟨r1, col2⟩ := p
        rw [hga] at e2
        simp only at e2
        -- no new reference value is installed, no delayed replication is pending
        have hddos : List.zipWith (fun ddo n => applyOpCrefval T ddo n) (List.replicate (k + 1) ddo1) (col.map (decElem n1)) =
            List.replicate (k + 1) ddo1 := by
          have := zipWith_replicate_left_const (fun ddo n => applyOpCrefval T ddo n) ddo1 ddo1 (col.map (decElem n1)) (by
            intro x hx
            obtain ⟨m, _, rfl⟩ := List.mem_map.mp hx
            unfold applyOpCrefval
            rw [(decElem_shape n1 m hcok.notIeee).1]
            simp [hnc])
          simpa [hlen] using this
        have hpend : (decide (Desc.f n1.desc = 1) && decide (Desc.y n1.desc = 0)) = false := by
          by_contra hc
          have hc' : (decide (Desc.f n1.desc = 1) && decide (Desc.y n1.desc = 0)) = true := by simpa using hc
          simp [hc', hns] at hnd
        obtain ⟨st', e, hinv, htd, hdn, hbt⟩ := ih cols' f ddo1
          { r := r2, invalid := st.invalid, ddos := List.replicate (k + 1) ddo1,
            dones := List.zipWith (fun x1 x2 => x1 :: x2) (col.map (decElem n1)) st.dones,
            todos := List.replicate (k + 1) ns, pendingDelayed := false } tail
          hf' hrest hps rfl rfl (by simp [hdl, hlen]) rfl hI2 hb2
        refine ⟨st', ?_, hinv, htd, ?_, hbt⟩
        · cases ht : n1.enc.type <;> simp only [ht, readBody] at e2 ⊢ <;>
            first
              | (simp only [e2, hddos, hpend, Bool.not_false, Bool.true_and]; exact e)
              | (simp only [Option.some.injEq, Prod.mk.injEq] at e2
                 obtain ⟨h1, h2⟩ := e2
                 subst h1; subst h2
                 simp only [hddos, hpend, Bool.not_false, Bool.true_and]; exact e)
        · rw [hdn]
          simp only [List.zipWith_cons_cons, pushCols, decPos, hns, Bool.false_eq_true, if_false]

/-! ### encoder output into the lock-step decoder -/

theorem putColumn_skipped (w : W) (n0 : Node) (rest : List Node) (h : n0.flags.skipped = true) :
    putColumn w (n0 :: rest) = w := by
  unfold putColumn; simp [h]

/-- the compressed body: the columns in template order, nothing in between -/
theorem foldl_putColumn_bits (k : Nat) : ∀ (nodes : List Node) (cols : List (List Node)) (w : W), WInv w →
    List.Forall₂ (PosOK k) nodes cols →
    (cols.foldl putColumn w).bits = w.bits ++ cols.flatMap colBits ∧ WInv (cols.foldl putColumn w) := by
  intro nodes
  induction nodes with
  | nil => intro cols w hI hp; cases hp; simp [hI]
  | cons n ns ih =>
    intro cols w hI hp
    cases hp with
    | cons hpos hps =>
    rename_i col cols'
    have hstep : (putColumn w col).bits = w.bits ++ colBits col ∧ WInv (putColumn w col) := by
      cases col with
      | nil => simp [putColumn, colBits, hI]
      | cons m0 rest =>
        by_cases hsk : n.flags.skipped = true
        · have hm : m0.flags.skipped = true := by rw [hpos.skipped m0 (by simp)]; exact hsk
          rw [putColumn_skipped w m0 rest hm, colBits_cons, hm]; simp [hI]
        · have hns : n.flags.skipped = false := by simpa using hsk
          have hc := hpos.ok hns
          apply putColumn_bits w hI
          · intro n0 r0 heq hna m hm
            have e0 : n0 = m0 := by injection heq with a _; exact a.symm
            have haf : n.enc.afNbits ≠ 0 := by
              intro h0; apply hna; left; rw [e0, hc.enc m0 (by simp)]; exact h0
            exact (hc.af haf m hm).2.1
          · intro n0 r0 heq
            have e0 : n0 = m0 := by injection heq with a _; exact a.symm
            rw [e0, hc.enc m0 (by simp)]; exact hc.notIeee
    obtain ⟨q1, q2⟩ := ih cols' (putColumn w col) hstep.2 hps
    simp only [List.foldl_cons, List.flatMap_cons]
    exact ⟨by rw [q1, hstep.1, List.append_assoc], q2⟩

theorem pushCols_length (k : Nat) : ∀ (nodes : List Node) (cols : List (List Node)), List.Forall₂ (PosOK k) nodes cols →
    ∀ (d : List (List Node)), d.length = k + 1 → (pushCols (List.zipWith (decPos k) nodes cols) d).length = k + 1 := by
  intro nodes
  induction nodes with
  | nil => intro cols hp d hd; cases hp; simpa [pushCols] using hd
  | cons n ns ih =>
    intro cols hp d hd
    cases hp with
    | cons hpos hps =>
    rename_i col cols'
    simp only [List.zipWith_cons_cons, pushCols]
    apply ih _ hps
    have : (decPos k n col).length = k + 1 := by
      unfold decPos; split
      · simp
      · simp [hpos.len]
    rw [List.length_zipWith, this, hd]; simp

/-- the per-subset result of pushing the positions onto empty lists: position `j` of subset `i` -/
def transposeDec (k : Nat) (nodes : List Node) (cols : List (List Node)) : List (List Node) :=
  (pushCols (List.zipWith (decPos k) nodes cols) (List.replicate (k + 1) [])).map List.reverse

/-- **C02, static templates, compressed form.**  `bsq` is the decoder's template copy (static: no
delayed replication, no 2 03), `cols` the encoder's columns for `k+1` subsets, position by position
of the same layout with values in range (`PosOK`).  Reading the compressed body the encoder wrote,
the lock-step decoder returns `k+1` subsets holding `decElem` at every data position — the value the
subset had — does not flag the dataset invalid beyond what it was, and stops right after the last
column. -/
theorem compressed_static_roundtrip (T : Tables) (edition s4max : Nat) (enforce : Enforce) (k : Nat) (fuel : Nat)
    (bsq : List Node) (cols : List (List Node)) (w : W) (hIw : WInv w) (hw0 : w.bits = [])
    (hfuel : bsq.length < fuel) (hok : staticOK T edition { enforce := enforce } bsq = true)
    (hp : List.Forall₂ (PosOK k) bsq cols) (err : Bool) (r : R) (hI : RInv r) (pad : List Bool)
    (hb : r.bits = (cols.foldl putColumn w).bits ++ pad) :
    ∃ st', decodeCompressedLoop T edition s4max (⟨k + 1, 0, 0⟩ : Range) fuel
        { r := r, invalid := err, ddos := List.replicate (k + 1) { enforce := enforce },
          dones := List.replicate (k + 1) [], todos := List.replicate (k + 1) bsq } = .ok st' ∧
      st'.invalid = err ∧
      List.zipWith (fun d t => mkvalAll (d.reverse ++ t)) st'.dones st'.todos =
        (transposeDec k bsq cols).map mkvalAll ∧
      st'.r.bits = pad := by
  obtain ⟨eb, _⟩ := foldl_putColumn_bits k bsq cols w hIw hp
  rw [eb, hw0, List.nil_append] at hb
  obtain ⟨st', e, hinv, htd, hdn, hbt⟩ := decodeCompressedLoop_static T edition s4max ⟨k + 1, 0, 0⟩ k (by simp) rfl
    bsq cols fuel { enforce := enforce }
    { r := r, invalid := err, ddos := List.replicate (k + 1) { enforce := enforce },
      dones := List.replicate (k + 1) [], todos := List.replicate (k + 1) bsq } pad hfuel hok hp rfl rfl (by simp) rfl hI hb
  refine ⟨st', e, hinv, ?_, hbt⟩
  rw [htd, hdn]
  unfold transposeDec
  generalize hD : pushCols (List.zipWith (decPos k) bsq cols) (List.replicate (k + 1) []) = D
  -- every todo list is empty: the subsets are the reversed done lists
  have : ∀ (D : List (List Node)) (j : Nat), List.zipWith (fun d t => mkvalAll (d.reverse ++ t)) D (List.replicate j []) =
      ((D.take j).map List.reverse).map mkvalAll := by
    intro D
    induction D with
    | nil => intro j; simp
    | cons d ds ih2 =>
      intro j
      cases j with
      | zero => simp
      | succ j => simp [List.replicate_succ, ih2 j]
  rw [this]
  have hlen : D.length = k + 1 := by
    rw [← hD]
    exact pushCols_length k bsq cols hp _ (by simp)
  rw [List.take_of_length_le (by omega)]

end Bufr
