import BufrModel.Decode
import BufrProofs.Bits
/-
  BufrProofs.Codec — bit-stream lemmas about the Section 4 codec (`BufrModel.Codec`,
  `BufrModel.Decode`): what the element and column writers put on the wire, and what the
  element and column readers return for every well-formed bit string.
-/
namespace Bufr
open Bufr

/-! ### `bufr_value_nbits` -/

theorem valueNbitsF_spec : ∀ (f i v : Nat), 1 ≤ i →
    (∀ j, 1 ≤ j → j < i → 2^j - 1 ≤ v) → v < 2^(i+f) - 1 →
    i ≤ valueNbitsF f i v ∧ valueNbitsF f i v ≤ i + f ∧ v < 2^(valueNbitsF f i v) - 1 ∧
    (∀ j, 1 ≤ j → j < valueNbitsF f i v → 2^j - 1 ≤ v) := by
  intro f
  induction f with
  | zero => intro i v hi hlow hup; simp [valueNbitsF] at *; exact ⟨hup, hlow⟩
  | succ f ih =>
    intro i v hi hlow hup
    unfold valueNbitsF
    by_cases h : 2^i - 1 > v
    · rw [if_pos h]; exact ⟨Nat.le_refl _, by omega, h, hlow⟩
    · rw [if_neg h]
      have := ih (i+1) v (by omega) (by
        intro j hj1 hj2
        by_cases hj : j < i
        · exact hlow j hj1 hj
        · have : j = i := by omega
          subst this; omega) (by rw [show i + 1 + f = i + (f + 1) by omega]; exact hup)
      obtain ⟨a, b, c, d⟩ := this
      exact ⟨by omega, by omega, c, d⟩

/-- `bufr_value_nbits(v)`: the least width `k ≥ 1` in which `v` is not the all-ones pattern -/
theorem valueNbits_spec (v : Nat) (hv : v < 2^64 - 1) :
    1 ≤ valueNbits v ∧ valueNbits v ≤ 64 ∧ v < 2^(valueNbits v) - 1 ∧
    (∀ j, 1 ≤ j → j < valueNbits v → 2^j - 1 ≤ v) := by
  have h65 : v < 2^(1+64) - 1 := by
    have : (2:Nat)^64 ≤ 2^(1+64) := Nat.pow_le_pow_right (by omega) (by omega)
    omega
  obtain ⟨a, b, c, d⟩ := valueNbitsF_spec 64 1 v (by omega) (by intro j h1 h2; omega) h65
  unfold valueNbits
  refine ⟨a, ?_, c, d⟩
  by_contra hgt
  have h64 := d 64 (by omega) (by omega)
  omega

/-! ### the reader seen through the pending bit stream -/

/-- reading a field that heads the pending bits -/
theorem getbits_view (r : R) (n v : Nat) (rest : List Bool) (hI : RInv r) (hn0 : 0 < n) (hn : n ≤ 64)
    (hb : r.bits = bitsMSB n v ++ rest) :
    ∃ r', r.getbits n = (v % 2^n, 0, r') ∧ r'.bits = rest ∧ RInv r' := by
  have hlen : r.bits.length ≥ n := by rw [hb]; simp [bitsMSB_length]
  have hfit : r.pos + n ≤ 8 * r.maxDataLen := by rw [bits_length_r] at hlen; omega
  obtain ⟨r1, e, _, hI1, _, _⟩ := getbits_ok r n hI hn0 hn hfit
  have hb1 := getbits_ok_bits r n hI hn0 hn hfit
  rw [e] at hb1
  simp only at hb1
  refine ⟨r1, ?_, ?_, hI1⟩
  · rw [e, hb, List.take_append_of_le_length (by simp [bitsMSB_length])]
    rw [List.take_of_length_le (by simp [bitsMSB_length]), ofBitsMSB_bitsMSB]
  · rw [hb1, hb, List.drop_append_of_le_length (by simp [bitsMSB_length])]
    rw [List.drop_of_length_le (by simp [bitsMSB_length])]; simp

/-- skipping a prefix of the pending bits -/
theorem skipN_view (r : R) (pre rest : List Bool) (hI : RInv r) (hb : r.bits = pre ++ rest) (k : Int)
    (hk : k = pre.length) : (skipN r k).bits = rest ∧ RInv (skipN r k) := by
  unfold skipN
  by_cases h0 : k ≤ 0
  · rw [if_pos h0]
    have : pre = [] := by
      have : pre.length = 0 := by omega
      exact List.length_eq_zero_iff.mp this
    subst this; simpa using ⟨hb, hI⟩
  · rw [if_neg h0]
    have hkn : k.toNat = pre.length := by omega
    have hlen : r.bits.length ≥ pre.length := by rw [hb]; simp
    have hfit : r.pos + k.toNat ≤ 8 * r.maxDataLen := by rw [bits_length_r] at hlen; omega
    obtain ⟨r1, e, hp, hI1, hd, hm⟩ := skipBits_ok r k.toNat hI hfit
    rw [e]
    refine ⟨?_, hI1⟩
    simp only
    have hall : r1.allBits = r.allBits := by unfold R.allBits R.byte; rw [hd, hm]
    unfold R.bits at hb ⊢
    rw [hall, hp, ← List.drop_drop, hb, hkn]
    simp

/-- reading `incs.length` increments of `k` bits that head the pending bits -/
theorem readIncs_view (k : Nat) (hk0 : 0 < k) (hk : k ≤ 64) : ∀ (incs : List Nat) (r : R) (rest : List Bool),
    RInv r → r.bits = incs.flatMap (bitsMSB k) ++ rest →
    ∃ r', readIncs r k incs.length = some (incs.map (· % 2^k), r') ∧ r'.bits = rest ∧ RInv r' := by
  intro incs
  induction incs with
  | nil => intro r rest hI hb; exact ⟨r, by simp [readIncs], by simpa using hb, hI⟩
  | cons v vs ih =>
    intro r rest hI hb
    rw [List.flatMap_cons, List.append_assoc] at hb
    obtain ⟨r1, e1, hb1, hI1⟩ := getbits_view r k v _ hI hk0 hk hb
    obtain ⟨r2, e2, hb2, hI2⟩ := ih r1 rest hI1 hb1
    refine ⟨r2, ?_, hb2, hI2⟩
    simp only [List.length_cons, readIncs, e1, e2, List.map_cons]
    simp

/-! ### compressed numeric column, reader side -/

theorem flatMap_bitsMSB_length (k : Nat) (l : List Nat) : (l.flatMap (bitsMSB k)).length = k * l.length := by
  induction l with
  | nil => simp
  | cons a l ih => simp [List.flatMap_cons, ih, Nat.mul_add]; omega

/-- the subsets a decode request keeps -/
def Range.slice {α} (g : Range) (l : List α) : List α :=
  if g.from_ > 0 then (l.drop (g.from_ - 1).toNat).take g.count else l

/-- a decode request the API accepts after clamping: everything, or `1 ≤ from ≤ to ≤ n` -/
def Range.OK (g : Range) : Prop := g.from_ ≤ 0 ∨ (1 ≤ g.from_ ∧ g.from_ ≤ g.to ∧ g.to ≤ g.nsub)

/-- **constant column** (`NBINC = 0`): every subset gets the local reference value, whatever it is -/
theorem getNumericCompressed_const (r : R) (cb : Node) (col : List Node) (g : Range) (r0 : Nat)
    (rest : List Bool) (hI : RInv r) (hnb : 1 ≤ cb.enc.nbits ∧ cb.enc.nbits ≤ 64)
    (hb : r.bits = bitsMSB cb.enc.nbits.toNat r0 ++ bitsMSB 6 0 ++ rest) :
    ∃ r', getNumericCompressed r (cb :: col) g =
        some (r', (cb :: col).map (fun n => setBitsValue n (r0 % 2^cb.enc.nbits.toNat))) ∧
      r'.bits = rest ∧ RInv r' := by
  rw [List.append_assoc] at hb
  obtain ⟨r1, e1, hb1, hI1⟩ := getbits_view r cb.enc.nbits.toNat r0 _ hI (by omega) (by omega) hb
  obtain ⟨r2, e2, hb2, hI2⟩ := getbits_view r1 6 0 _ hI1 (by omega) (by omega) hb1
  refine ⟨r2, ?_, hb2, hI2⟩
  unfold getNumericCompressed
  simp only [e1, e2]
  have h0 : (0 % 2^6 : Nat) = 0 := by decide
  rw [h0]
  simp
  omega

/-- **listed column** (`NBINC = k > 0`): subset `i` gets `R0 + increment_i`, all ones meaning
missing, for *any* local reference value and *any* increment width up to the element width; a
partial request `from..to` returns exactly that slice and leaves the cursor after the column -/
theorem getNumericCompressed_listed (r : R) (cb : Node) (col : List Node) (g : Range) (r0 k : Nat)
    (incs : List Nat) (rest : List Bool) (hI : RInv r) (hnb : 1 ≤ cb.enc.nbits ∧ cb.enc.nbits ≤ 64)
    (hk0 : 0 < k) (hk : (k : Int) ≤ cb.enc.nbits) (hk63 : k < 63) (hg : g.OK) (hlen : incs.length = g.nsub)
    (hb : r.bits = bitsMSB cb.enc.nbits.toNat r0 ++ bitsMSB 6 k ++ incs.flatMap (bitsMSB k) ++ rest) :
    ∃ r', getNumericCompressed r (cb :: col) g =
        some (r', zipWithNodes (fun n v => setBitsValue n
                    (if v = missingIvalue k then missingIvalue cb.enc.nbits else v + r0 % 2^cb.enc.nbits.toNat))
                  (cb :: col) ((g.slice incs).map (· % 2^k))) ∧
      r'.bits = rest ∧ RInv r' := by
  rw [List.append_assoc, List.append_assoc] at hb
  obtain ⟨r1, e1, hb1, hI1⟩ := getbits_view r cb.enc.nbits.toNat r0 _ hI (by omega) (by omega) hb
  obtain ⟨r2, e2, hb2, hI2⟩ := getbits_view r1 6 k _ hI1 (by omega) (by omega) hb1
  have hk6 : k % 2^6 = k := Nat.mod_eq_of_lt (by omega)
  rw [hk6] at e2
  -- split the increments into skipped / kept / skipped
  let a : Nat := if g.from_ > 0 then (g.from_ - 1).toNat else 0
  let pre := incs.take a
  let mid := g.slice incs
  let post := if g.from_ > 0 then (incs.drop a).drop g.count else []
  have hsplit : incs = pre ++ mid ++ post := by
    simp only [pre, mid, post, a, Range.slice]
    by_cases hf : g.from_ > 0
    · simp only [if_pos hf]
      rw [List.append_assoc, List.take_append_drop, List.take_append_drop]
    · simp [if_neg hf]
  have hprelen : pre.length = a := by
    simp only [pre, a]
    rw [List.length_take]
    rcases hg with h | ⟨h1, h2, h3⟩
    · rw [if_neg (by omega)]; omega
    · rw [if_pos (by omega)]; omega
  have hmidlen : mid.length = g.count := by
    simp only [mid, Range.slice, Range.count, a]
    rcases hg with h | ⟨h1, h2, h3⟩
    · rw [if_neg (by omega), if_neg (by omega)]; exact hlen
    · rw [if_pos (by omega), if_pos (by omega), List.length_take, List.length_drop]; omega
  rw [hsplit, List.flatMap_append, List.flatMap_append, List.append_assoc, List.append_assoc] at hb2
  -- first skip
  have hs1 := skipN_view r2 (pre.flatMap (bitsMSB k)) _ hI2 hb2 ((k : Int) * (g.from_ - 1))
  have hr3 : ∃ r3, (if g.from_ > 1 then skipN r2 ((k : Int) * (g.from_ - 1)) else r2) = r3 ∧
      r3.bits = mid.flatMap (bitsMSB k) ++ (post.flatMap (bitsMSB k) ++ rest) ∧ RInv r3 := by
    by_cases hf : g.from_ > 1
    · rw [if_pos hf]
      have := hs1 (by
        rw [flatMap_bitsMSB_length, hprelen]; simp only [a]; rw [if_pos (by omega)]
        push_cast; rw [Int.toNat_of_nonneg (by omega)])
      exact ⟨_, rfl, this.1, this.2⟩
    · rw [if_neg hf]
      have hpre0 : pre = [] := by
        apply List.length_eq_zero_iff.mp; rw [hprelen]; simp only [a]; split <;> omega
      rw [hpre0] at hb2
      exact ⟨r2, rfl, by simpa using hb2, hI2⟩
  obtain ⟨r3, e3, hb3, hI3⟩ := hr3
  obtain ⟨r4, e4, hb4, hI4⟩ := readIncs_view k hk0 (by omega) mid r3 _ hI3 hb3
  rw [hmidlen] at e4
  have hs2 := skipN_view r4 (post.flatMap (bitsMSB k)) rest hI4 hb4 ((k : Int) * ((g.nsub : Int) - g.to))
  have hr5 : ∃ r5, (if g.from_ > 0 then skipN r4 ((k : Int) * ((g.nsub : Int) - g.to)) else r4) = r5 ∧
      r5.bits = rest ∧ RInv r5 := by
    by_cases hf : g.from_ > 0
    · rw [if_pos hf]
      have hpostlen : post.length = (g.nsub - g.to.toNat) := by
        simp only [post, a]; rw [if_pos hf, if_pos hf, List.length_drop, List.length_drop, hlen]
        rcases hg with h | ⟨h1, h2, h3⟩
        · omega
        · simp only [Range.count]; rw [if_pos hf]; omega
      have := hs2 (by
        rw [flatMap_bitsMSB_length, hpostlen]
        rcases hg with h | ⟨h1, h2, h3⟩
        · omega
        · have : ((g.nsub - g.to.toNat : Nat) : Int) = (g.nsub : Int) - g.to := by omega
          push_cast; rw [this])
      exact ⟨_, rfl, this.1, this.2⟩
    · rw [if_neg hf]
      have : post = [] := by simp only [post]; rw [if_neg hf]
      rw [this] at hb4
      exact ⟨r4, rfl, by simpa using hb4, hI4⟩
  obtain ⟨r5, e5, hb5, hI5⟩ := hr5
  refine ⟨r5, ?_, hb5, hI5⟩
  unfold getNumericCompressed
  simp only [e1, e2]
  have hng : ¬ (((k : Nat) : Int) > cb.enc.nbits) := by omega
  have h63 : ¬ (k = 63) := by omega
  have hk0' : ¬ (k = 0) := by omega
  simp only [hng, h63, if_false, hk0']
  simp only [e3, e4, e5]
  simp [mid]

end Bufr
