import BufrModel.Decode
import BufrProofs.Bits
/-
  BufrProofs.Codec — bit-stream lemmas about the Section 4 codec (`BufrModel.Codec`,
  `BufrModel.Decode`): what the element and column writers put on the wire, and what the
  element and column readers return for every well-formed bit string.
-/
namespace Bufr
open Bufr

/-! ### `bufr_value_nbits` -/

theorem valueNbitsF_spec : ∀ (f i v : Nat), 1 ≤ i →
    (∀ j, 1 ≤ j → j < i → 2^j - 1 ≤ v) → v < 2^(i+f) - 1 →
    i ≤ valueNbitsF f i v ∧ valueNbitsF f i v ≤ i + f ∧ v < 2^(valueNbitsF f i v) - 1 ∧
    (∀ j, 1 ≤ j → j < valueNbitsF f i v → 2^j - 1 ≤ v) := by
  intro f
  induction f with
  | zero => intro i v hi hlow hup; simp [valueNbitsF] at *; exact ⟨hup, hlow⟩
  | succ f ih =>
    intro i v hi hlow hup
    unfold valueNbitsF
    by_cases h : 2^i - 1 > v
    · rw [if_pos h]; exact ⟨Nat.le_refl _, by omega, h, hlow⟩
    · rw [if_neg h]
      have := ih (i+1) v (by omega) (by
        intro j hj1 hj2
        by_cases hj : j < i
        · exact hlow j hj1 hj
        · have : j = i := by omega
          subst this; omega) (by rw [show i + 1 + f = i + (f + 1) by omega]; exact hup)
      obtain ⟨a, b, c, d⟩ := this
      exact ⟨by omega, by omega, c, d⟩

/-- `bufr_value_nbits(v)`: the least width `k ≥ 1` in which `v` is not the all-ones pattern -/
theorem valueNbits_spec (v : Nat) (hv : v < 2^64 - 1) :
    1 ≤ valueNbits v ∧ valueNbits v ≤ 64 ∧ v < 2^(valueNbits v) - 1 ∧
    (∀ j, 1 ≤ j → j < valueNbits v → 2^j - 1 ≤ v) := by
  have h65 : v < 2^(1+64) - 1 := by
    have : (2:Nat)^64 ≤ 2^(1+64) := Nat.pow_le_pow_right (by omega) (by omega)
    omega
  obtain ⟨a, b, c, d⟩ := valueNbitsF_spec 64 1 v (by omega) (by intro j h1 h2; omega) h65
  unfold valueNbits
  refine ⟨a, ?_, c, d⟩
  by_contra hgt
  have h64 := d 64 (by omega) (by omega)
  omega

/-! ### the reader seen through the pending bit stream -/

/-- reading a field that heads the pending bits -/
theorem getbits_view (r : R) (n v : Nat) (rest : List Bool) (hI : RInv r) (hn0 : 0 < n) (hn : n ≤ 64)
    (hb : r.bits = bitsMSB n v ++ rest) :
    ∃ r', r.getbits n = (v % 2^n, 0, r') ∧ r'.bits = rest ∧ RInv r' := by
  have hlen : r.bits.length ≥ n := by rw [hb]; simp [bitsMSB_length]
  have hfit : r.pos + n ≤ 8 * r.maxDataLen := by rw [bits_length_r] at hlen; omega
  obtain ⟨r1, e, _, hI1, _, _⟩ := getbits_ok r n hI hn0 hn hfit
  have hb1 := getbits_ok_bits r n hI hn0 hn hfit
  rw [e] at hb1
  simp only at hb1
  refine ⟨r1, ?_, ?_, hI1⟩
  · rw [e, hb, List.take_append_of_le_length (by simp [bitsMSB_length])]
    rw [List.take_of_length_le (by simp [bitsMSB_length]), ofBitsMSB_bitsMSB]
  · rw [hb1, hb, List.drop_append_of_le_length (by simp [bitsMSB_length])]
    rw [List.drop_of_length_le (by simp [bitsMSB_length])]; simp

/-- skipping a prefix of the pending bits -/
theorem skipN_view (r : R) (pre rest : List Bool) (hI : RInv r) (hb : r.bits = pre ++ rest) (k : Int)
    (hk : k = pre.length) : (skipN r k).bits = rest ∧ RInv (skipN r k) := by
  unfold skipN
  by_cases h0 : k ≤ 0
  · rw [if_pos h0]
    have : pre = [] := by
      have : pre.length = 0 := by omega
      exact List.length_eq_zero_iff.mp this
    subst this; simpa using ⟨hb, hI⟩
  · rw [if_neg h0]
    have hkn : k.toNat = pre.length := by omega
    have hlen : r.bits.length ≥ pre.length := by rw [hb]; simp
    have hfit : r.pos + k.toNat ≤ 8 * r.maxDataLen := by rw [bits_length_r] at hlen; omega
    obtain ⟨r1, e, hp, hI1, hd, hm⟩ := skipBits_ok r k.toNat hI hfit
    rw [e]
    refine ⟨?_, hI1⟩
    simp only
    have hall : r1.allBits = r.allBits := by unfold R.allBits R.byte; rw [hd, hm]
    unfold R.bits at hb ⊢
    rw [hall, hp, ← List.drop_drop, hb, hkn]
    simp

/-- reading `incs.length` increments of `k` bits that head the pending bits -/
theorem readIncs_view (k : Nat) (hk0 : 0 < k) (hk : k ≤ 64) : ∀ (incs : List Nat) (r : R) (rest : List Bool),
    RInv r → r.bits = incs.flatMap (bitsMSB k) ++ rest →
    ∃ r', readIncs r k incs.length = some (incs.map (· % 2^k), r') ∧ r'.bits = rest ∧ RInv r' := by
  intro incs
  induction incs with
  | nil => intro r rest hI hb; exact ⟨r, by simp [readIncs], by simpa using hb, hI⟩
  | cons v vs ih =>
    intro r rest hI hb
    rw [List.flatMap_cons, List.append_assoc] at hb
    obtain ⟨r1, e1, hb1, hI1⟩ := getbits_view r k v _ hI hk0 hk hb
    obtain ⟨r2, e2, hb2, hI2⟩ := ih r1 rest hI1 hb1
    refine ⟨r2, ?_, hb2, hI2⟩
    simp only [List.length_cons, readIncs, e1, e2, List.map_cons]
    simp

/-! ### compressed numeric column, reader side -/

theorem flatMap_bitsMSB_length (k : Nat) (l : List Nat) : (l.flatMap (bitsMSB k)).length = k * l.length := by
  induction l with
  | nil => simp
  | cons a l ih => simp [List.flatMap_cons, ih, Nat.mul_add]; omega

/-- the subsets a decode request keeps -/
def Range.slice {α} (g : Range) (l : List α) : List α :=
  if g.from_ > 0 then (l.drop (g.from_ - 1).toNat).take g.count else l

/-- a decode request the API accepts after clamping: everything, or `1 ≤ from ≤ to ≤ n` -/
def Range.OK (g : Range) : Prop := g.from_ ≤ 0 ∨ (1 ≤ g.from_ ∧ g.from_ ≤ g.to ∧ g.to ≤ g.nsub)

/-- **constant column** (`NBINC = 0`): every subset gets the local reference value, whatever it is -/
theorem getNumericCompressed_const (r : R) (cb : Node) (col : List Node) (g : Range) (r0 : Nat)
    (rest : List Bool) (hI : RInv r) (hnb : 1 ≤ cb.enc.nbits ∧ cb.enc.nbits ≤ 64)
    (hb : r.bits = bitsMSB cb.enc.nbits.toNat r0 ++ bitsMSB 6 0 ++ rest) :
    ∃ r', getNumericCompressed r (cb :: col) g =
        some (r', (cb :: col).map (fun n => setBitsValue n (r0 % 2^cb.enc.nbits.toNat))) ∧
      r'.bits = rest ∧ RInv r' := by
  rw [List.append_assoc] at hb
  obtain ⟨r1, e1, hb1, hI1⟩ := getbits_view r cb.enc.nbits.toNat r0 _ hI (by omega) (by omega) hb
  obtain ⟨r2, e2, hb2, hI2⟩ := getbits_view r1 6 0 _ hI1 (by omega) (by omega) hb1
  refine ⟨r2, ?_, hb2, hI2⟩
  unfold getNumericCompressed
  simp only [e1, e2]
  have h0 : (0 % 2^6 : Nat) = 0 := by decide
  rw [h0]
  simp
  omega

/-- **listed column** (`NBINC = k > 0`): subset `i` gets `R0 + increment_i`, all ones meaning
missing, for *any* local reference value and *any* increment width up to the element width; a
partial request `from..to` returns exactly that slice and leaves the cursor after the column -/
theorem getNumericCompressed_listed (r : R) (cb : Node) (col : List Node) (g : Range) (r0 k : Nat)
    (incs : List Nat) (rest : List Bool) (hI : RInv r) (hnb : 1 ≤ cb.enc.nbits ∧ cb.enc.nbits ≤ 64)
    (hk0 : 0 < k) (hk : (k : Int) ≤ cb.enc.nbits) (hk63 : k < 64) (hg : g.OK) (hlen : incs.length = g.nsub)
    (hb : r.bits = bitsMSB cb.enc.nbits.toNat r0 ++ bitsMSB 6 k ++ incs.flatMap (bitsMSB k) ++ rest) :
    ∃ r', getNumericCompressed r (cb :: col) g =
        some (r', zipWithNodes (fun n v => setBitsValue n
                    (if v = missingIvalue k then missingIvalue cb.enc.nbits else v + r0 % 2^cb.enc.nbits.toNat))
                  (cb :: col) ((g.slice incs).map (· % 2^k))) ∧
      r'.bits = rest ∧ RInv r' := by
  rw [List.append_assoc, List.append_assoc] at hb
  obtain ⟨r1, e1, hb1, hI1⟩ := getbits_view r cb.enc.nbits.toNat r0 _ hI (by omega) (by omega) hb
  obtain ⟨r2, e2, hb2, hI2⟩ := getbits_view r1 6 k _ hI1 (by omega) (by omega) hb1
  have hk6 : k % 2^6 = k := Nat.mod_eq_of_lt (by omega)
  rw [hk6] at e2
  -- split the increments into skipped / kept / skipped
  let a : Nat := if g.from_ > 0 then (g.from_ - 1).toNat else 0
  let pre := incs.take a
  let mid := g.slice incs
  let post := if g.from_ > 0 then (incs.drop a).drop g.count else []
  have hsplit : incs = pre ++ mid ++ post := by
    simp only [pre, mid, post, a, Range.slice]
    by_cases hf : g.from_ > 0
    · simp only [if_pos hf]
      rw [List.append_assoc, List.take_append_drop, List.take_append_drop]
    · simp [if_neg hf]
  have hprelen : pre.length = a := by
    simp only [pre, a]
    rw [List.length_take]
    rcases hg with h | ⟨h1, h2, h3⟩
    · rw [if_neg (by omega)]; omega
    · rw [if_pos (by omega)]; omega
  have hmidlen : mid.length = g.count := by
    simp only [mid, Range.slice, Range.count, a]
    rcases hg with h | ⟨h1, h2, h3⟩
    · rw [if_neg (by omega), if_neg (by omega)]; exact hlen
    · rw [if_pos (by omega), if_pos (by omega), List.length_take, List.length_drop]; omega
  rw [hsplit, List.flatMap_append, List.flatMap_append, List.append_assoc, List.append_assoc] at hb2
  -- first skip
  have hs1 := skipN_view r2 (pre.flatMap (bitsMSB k)) _ hI2 hb2 ((k : Int) * (g.from_ - 1))
  have hr3 : ∃ r3, (if g.from_ > 1 then skipN r2 ((k : Int) * (g.from_ - 1)) else r2) = r3 ∧
      r3.bits = mid.flatMap (bitsMSB k) ++ (post.flatMap (bitsMSB k) ++ rest) ∧ RInv r3 := by
    by_cases hf : g.from_ > 1
    · rw [if_pos hf]
      have := hs1 (by
        rw [flatMap_bitsMSB_length, hprelen]; simp only [a]; rw [if_pos (by omega)]
        push_cast; rw [Int.toNat_of_nonneg (by omega)])
      exact ⟨_, rfl, this.1, this.2⟩
    · rw [if_neg hf]
      have hpre0 : pre = [] := by
        apply List.length_eq_zero_iff.mp; rw [hprelen]; simp only [a]; split <;> omega
      rw [hpre0] at hb2
      exact ⟨r2, rfl, by simpa using hb2, hI2⟩
  obtain ⟨r3, e3, hb3, hI3⟩ := hr3
  obtain ⟨r4, e4, hb4, hI4⟩ := readIncs_view k hk0 (by omega) mid r3 _ hI3 hb3
  rw [hmidlen] at e4
  have hs2 := skipN_view r4 (post.flatMap (bitsMSB k)) rest hI4 hb4 ((k : Int) * ((g.nsub : Int) - g.to))
  have hr5 : ∃ r5, (if g.from_ > 0 then skipN r4 ((k : Int) * ((g.nsub : Int) - g.to)) else r4) = r5 ∧
      r5.bits = rest ∧ RInv r5 := by
    by_cases hf : g.from_ > 0
    · rw [if_pos hf]
      have hpostlen : post.length = (g.nsub - g.to.toNat) := by
        simp only [post, a]; rw [if_pos hf, if_pos hf, List.length_drop, List.length_drop, hlen]
        rcases hg with h | ⟨h1, h2, h3⟩
        · omega
        · simp only [Range.count]; rw [if_pos hf]; omega
      have := hs2 (by
        rw [flatMap_bitsMSB_length, hpostlen]
        rcases hg with h | ⟨h1, h2, h3⟩
        · omega
        · have : ((g.nsub - g.to.toNat : Nat) : Int) = (g.nsub : Int) - g.to := by omega
          push_cast; rw [this])
      exact ⟨_, rfl, this.1, this.2⟩
    · rw [if_neg hf]
      have : post = [] := by simp only [post]; rw [if_neg hf]
      rw [this] at hb4
      exact ⟨r4, rfl, by simpa using hb4, hI4⟩
  obtain ⟨r5, e5, hb5, hI5⟩ := hr5
  refine ⟨r5, ?_, hb5, hI5⟩
  unfold getNumericCompressed
  simp only [e1, e2]
  have hng : ¬ (((k : Nat) : Int) > cb.enc.nbits) := by omega
  have hk0' : ¬ (k = 0) := by omega
  simp only [hng, and_false, if_false, hk0']
  try simp only [e3, e4, e5]
  simp [mid]

/-! ### compressed numeric column, writer side -/

theorem foldl_min_le (l : List Nat) : ∀ (a : Nat), l.foldl min a ≤ a ∧ (∀ v ∈ l, l.foldl min a ≤ v) ∧
    (l.foldl min a = a ∨ l.foldl min a ∈ l) := by
  induction l with
  | nil => intro a; simp
  | cons x xs ih =>
    intro a
    obtain ⟨h1, h2, h3⟩ := ih (min a x)
    simp only [List.foldl_cons]
    refine ⟨by omega, ?_, ?_⟩
    · intro v hv
      rcases List.mem_cons.mp hv with rfl | hv
      · omega
      · exact h2 v hv
    · rcases h3 with h | h
      · by_cases hax : a ≤ x
        · left; rw [h]; omega
        · right; rw [h]; simp; left; omega
      · right; simp [h]

theorem foldl_max_ge (l : List Nat) : ∀ (a : Nat), a ≤ l.foldl max a ∧ (∀ v ∈ l, v ≤ l.foldl max a) ∧
    (l.foldl max a = a ∨ l.foldl max a ∈ l) := by
  induction l with
  | nil => intro a; simp
  | cons x xs ih =>
    intro a
    obtain ⟨h1, h2, h3⟩ := ih (max a x)
    simp only [List.foldl_cons]
    refine ⟨by omega, ?_, ?_⟩
    · intro v hv
      rcases List.mem_cons.mp hv with rfl | hv
      · omega
      · exact h2 v hv
    · rcases h3 with h | h
      · by_cases hax : x ≤ a
        · left; rw [h]; omega
        · right; rw [h]; simp; left; omega
      · right; simp [h]

theorem listMin_spec (l : List Nat) (d : Nat) (hne : l ≠ []) :
    (∀ v ∈ l, listMin l d ≤ v) ∧ listMin l d ∈ l := by
  cases l with
  | nil => exact absurd rfl hne
  | cons x xs =>
    unfold listMin
    simp only [List.headD_cons]
    obtain ⟨h1, h2, h3⟩ := foldl_min_le (x :: xs) x
    refine ⟨h2, ?_⟩
    rcases h3 with h | h
    · rw [h]; simp
    · exact h

theorem listMax_spec (l : List Nat) (d : Nat) (hne : l ≠ []) :
    (∀ v ∈ l, v ≤ listMax l d) ∧ listMax l d ∈ l := by
  cases l with
  | nil => exact absurd rfl hne
  | cons x xs =>
    unfold listMax
    simp only [List.headD_cons]
    obtain ⟨h1, h2, h3⟩ := foldl_max_ge (x :: xs) x
    refine ⟨h2, ?_⟩
    rcases h3 with h | h
    · rw [h]; simp
    · exact h

theorem foldl_putbits_bits (k : Nat) (f : Nat → Nat) : ∀ (vals : List Nat) (w : W), WInv w →
    (vals.foldl (fun w v => w.putbits (f v) k) w).bits = w.bits ++ (vals.map f).flatMap (bitsMSB k) ∧
    WInv (vals.foldl (fun w v => w.putbits (f v) k) w) := by
  intro vals
  induction vals with
  | nil => intro w h; simp [h]
  | cons v vs ih =>
    intro w h
    obtain ⟨p1, p2⟩ := putbits_bits w (f v) k h
    obtain ⟨q1, q2⟩ := ih _ p2
    simp only [List.foldl_cons, List.map_cons, List.flatMap_cons]
    exact ⟨by rw [q1, p1, List.append_assoc], q2⟩

/-- **wire format of a compressed numeric column**: local reference value in the element width,
6-bit increment width, one increment per subset -/
theorem putNumericCompressed_bits (w : W) (hI : WInv w) (n0 : Node) (rest : List Node) :
    (putNumericCompressed w (n0 :: rest)).bits =
      w.bits ++ (bitsMSB n0.enc.nbits.toNat (encNumCol n0.enc.nbits ((n0 :: rest).map value2bits)).1 ++
        bitsMSB 6 (encNumCol n0.enc.nbits ((n0 :: rest).map value2bits)).2.1 ++
        (encNumCol n0.enc.nbits ((n0 :: rest).map value2bits)).2.2.flatMap
          (bitsMSB (encNumCol n0.enc.nbits ((n0 :: rest).map value2bits)).2.1)) ∧
    WInv (putNumericCompressed w (n0 :: rest)) := by
  unfold putNumericCompressed
  simp only
  obtain ⟨p1, p2⟩ := putbits_bits w (encNumCol n0.enc.nbits ((n0 :: rest).map value2bits)).1 n0.enc.nbits.toNat hI
  obtain ⟨q1, q2⟩ := putbits_bits _ (encNumCol n0.enc.nbits ((n0 :: rest).map value2bits)).2.1 6 p2
  obtain ⟨s1, s2⟩ := foldl_putbits_bits (encNumCol n0.enc.nbits ((n0 :: rest).map value2bits)).2.1 id
    (encNumCol n0.enc.nbits ((n0 :: rest).map value2bits)).2.2 _ q2
  simp only [id, List.map_id'] at s1 s2
  refine ⟨?_, s2⟩
  rw [s1, q1, p1]; simp

/-! ### what the encoder's column denotes -/

theorem missingIvalue_nat (k : Nat) (h1 : 1 ≤ k) (h2 : k < 64) : missingIvalue (k : Int) = 2^k - 1 := by
  unfold missingIvalue
  rw [if_neg (by omega), if_neg (by omega)]
  simp

theorem missingIvalue_le (nb : Int) (h1 : 1 ≤ nb) (h2 : nb ≤ 64) : missingIvalue nb = 2^nb.toNat - 1 := by
  unfold missingIvalue
  rw [if_neg (by omega)]
  by_cases h : nb ≥ 64
  · rw [if_pos h]; have : nb.toNat = 64 := by omega
    rw [this]
  · rw [if_neg h]

/-- the raw value a decoder must assign to a subset of a listed column -/
def decInc (nb : Int) (r0 k inc : Nat) : Nat :=
  if inc % 2^k = missingIvalue k then missingIvalue nb else inc % 2^k + r0 % 2^nb.toNat

theorem filter_length_eq {α} (p : α → Bool) (l : List α) (h : (l.filter p).length = l.length) : l.filter p = l := by
  induction l with
  | nil => rfl
  | cons x xs ih =>
    simp only [List.filter_cons] at h ⊢
    split at h
    · next hp => rw [if_pos hp, ih (by simpa using h)]
    · next hp =>
      have := List.length_filter_le p xs
      simp at h; omega

/-- **the encoder's choice is sound**: the local reference value fits the element, the increment
width fits the 6-bit field and the element width, a constant column really is constant, and a listed
column gives every subset back its raw value (missing as missing) -/
theorem encNumCol_sound (nb : Int) (h1 : 1 ≤ nb) (h2 : nb ≤ 64) (vals : List Nat) (hne : vals ≠ [])
    (hv : ∀ v ∈ vals, v ≤ missingIvalue nb)
    (hspread : nb = 64 → ∀ a ∈ vals, ∀ b ∈ vals, a ≠ missingIvalue nb → b ≠ missingIvalue nb → a - b < 2^63 - 1) :
    (encNumCol nb vals).1 ≤ missingIvalue nb ∧
    ((encNumCol nb vals).2.1 : Int) ≤ nb ∧ (encNumCol nb vals).2.1 < 64 ∧
    ((encNumCol nb vals).2.1 = 0 → (encNumCol nb vals).2.2 = [] ∧ ∀ v ∈ vals, v = (encNumCol nb vals).1) ∧
    ((encNumCol nb vals).2.1 > 0 → (encNumCol nb vals).2.2.length = vals.length ∧
      (encNumCol nb vals).2.2.map (decInc nb (encNumCol nb vals).1 (encNumCol nb vals).2.1) = vals) := by
  have hm := missingIvalue_le nb h1 h2
  have hpow : (2:Nat)^nb.toNat ≥ 2 := by
    have : nb.toNat ≥ 1 := by omega
    calc (2:Nat)^nb.toNat ≥ 2^1 := Nat.pow_le_pow_right (by omega) this
      _ = 2 := by norm_num
  unfold encNumCol
  simp only
  generalize hpres : vals.filter (fun x => decide (x ≠ missingIvalue nb)) = present
  have hmem : ∀ v, v ∈ present ↔ v ∈ vals ∧ v ≠ missingIvalue nb := by
    intro v; rw [← hpres]; simp
  by_cases hempty : present = []
  · -- every value missing
    have hall : ∀ v ∈ vals, v = missingIvalue nb := by
      intro v hvm
      by_contra hc
      have : v ∈ present := (hmem v).mpr ⟨hvm, hc⟩
      rw [hempty] at this; simp at this
    simp only [hempty, List.isEmpty_nil, if_true, List.length_nil, Nat.sub_zero, or_true]
    exact ⟨Nat.le_refl _, by omega, by omega, fun _ => ⟨trivial, hall⟩, fun h => absurd h (by omega)⟩
  · have hie : present.isEmpty = false := by cases present <;> simp_all
    simp only [hie, Bool.false_eq_true, if_false]
    obtain ⟨hmin1, hmin2⟩ := listMin_spec present (missingIvalue nb) hempty
    obtain ⟨hmax1, hmax2⟩ := listMax_spec present (missingIvalue nb) hempty
    have hminv := (hmem _).mp hmin2
    have hmaxv := (hmem _).mp hmax2
    have hminle := hv _ hminv.1
    have hmaxle := hv _ hmaxv.1
    have hlenle : present.length ≤ vals.length := by rw [← hpres]; exact List.length_filter_le _ _
    have hplen : present.length > 0 := List.length_pos_iff.mpr hempty
    have hvlen : vals.length > 0 := List.length_pos_iff.mpr hne
    by_cases hc : (listMin present (missingIvalue nb) = listMax present (missingIvalue nb) ∧
        vals.length - present.length = 0) ∨ vals.length - present.length = vals.length
    · rw [if_pos hc]
      simp only
      refine ⟨hminle, by omega, by omega, fun _ => ⟨trivial, ?_⟩, fun h => absurd h (by omega)⟩
      intro v hvm
      rcases hc with ⟨heq, hnone⟩ | hallm
      · have hfull : present = vals := by
          rw [← hpres]; apply filter_length_eq; rw [hpres]; omega
        have hvp : v ∈ present := by rw [hfull]; exact hvm
        have := hmin1 v hvp
        have := hmax1 v hvp
        omega
      · omega
    · rw [if_neg hc]
      simp only
      have hsp : listMax present (missingIvalue nb) - listMin present (missingIvalue nb) < 2^64 - 1 := by
        have : (2:Nat)^nb.toNat ≤ 2^64 := Nat.pow_le_pow_right (by omega) (by omega)
        omega
      obtain ⟨k1, k2, k3, k4⟩ := valueNbits_spec _ hsp
      generalize hk : valueNbits (listMax present (missingIvalue nb) - listMin present (missingIvalue nb)) = k at *
      have hknb : (k : Int) ≤ nb := by
        by_contra hgt
        have hlt : nb.toNat < k := by omega
        have := k4 nb.toNat (by omega) hlt
        omega
      have hk64 : k < 64 := by
        by_contra hge
        have hk64 : k = 64 := by omega
        have hnb64 : nb = 64 := by omega
        have := hspread hnb64 _ hmaxv.1 _ hminv.1 hmaxv.2 hminv.2
        have := k4 63 (by omega) (by omega)
        omega
      refine ⟨hminle, hknb, hk64, fun h => absurd h (by omega), fun _ => ⟨by simp, ?_⟩⟩
      rw [List.map_map]
      conv => rhs; rw [← List.map_id vals]
      apply List.map_congr_left
      intro v hvm
      have hmk := missingIvalue_nat k k1 hk64
      have hpk : (2:Nat)^k ≥ 2 := by
        calc (2:Nat)^k ≥ 2^1 := Nat.pow_le_pow_right (by omega) k1
          _ = 2 := by norm_num
      simp only [Function.comp, id, decInc]
      by_cases hvmiss : v = missingIvalue nb
      · rw [if_pos hvmiss, hmk, Nat.mod_eq_of_lt (by omega), if_pos rfl, hvmiss]
      · rw [if_neg hvmiss]
        have hvp : v ∈ present := (hmem v).mpr ⟨hvm, hvmiss⟩
        have := hmin1 v hvp
        have := hmax1 v hvp
        have hlt : v - listMin present (missingIvalue nb) < 2^k - 1 := by omega
        rw [Nat.mod_eq_of_lt (by omega), hmk, if_neg (by omega), Nat.mod_eq_of_lt (by omega)]
        omega

/-! ### compressed numeric column: round trip -/

theorem zipWithNodes_map (f : Node → Nat → Node) (h : Nat → Nat) : ∀ (ns : List Node) (vs : List Nat),
    zipWithNodes f ns (vs.map h) = zipWithNodes (fun n v => f n (h v)) ns vs := by
  intro ns
  induction ns with
  | nil => intro vs; cases vs <;> simp [zipWithNodes]
  | cons n ns ih => intro vs; cases vs with
    | nil => simp [zipWithNodes]
    | cons v vs => simp [zipWithNodes, ih]

theorem zipWithNodes_const (f : Node → Nat → Node) (c : Nat) : ∀ (ns : List Node) (vs : List Nat),
    ns.length = vs.length → (∀ v ∈ vs, v = c) → zipWithNodes f ns vs = ns.map (fun n => f n c) := by
  intro ns
  induction ns with
  | nil => intro vs _ _; cases vs <;> simp [zipWithNodes]
  | cons n ns ih => intro vs hl hc; cases vs with
    | nil => simp at hl
    | cons v vs =>
      simp only [zipWithNodes, List.map_cons]
      rw [hc v (by simp), ih vs (by simpa using hl) (fun x hx => hc x (by simp [hx]))]

theorem Range.slice_map {α β} (g : Range) (f : α → β) (l : List α) : g.slice (l.map f) = (g.slice l).map f := by
  unfold Range.slice; split <;> simp [List.map_take, List.map_drop]

theorem Range.slice_length {α} (g : Range) (hg : g.OK) (l : List α) (hl : l.length = g.nsub) :
    (g.slice l).length = g.count := by
  unfold Range.slice Range.count
  rcases hg with h | ⟨a, b, c⟩
  · rw [if_neg (by omega), if_neg (by omega)]; exact hl
  · rw [if_pos (by omega), if_pos (by omega), List.length_take, List.length_drop]; omega

theorem Range.slice_mem {α} (g : Range) (l : List α) (x : α) (h : x ∈ g.slice l) : x ∈ l := by
  unfold Range.slice at h
  split at h
  · exact List.mem_of_mem_drop (List.mem_of_mem_take h)
  · exact h

/-- **C02, numeric column.** Whatever raw values (missing included) the subsets hold for one
element, the column `bufr_put_numeric_compressed` writes is read back by
`bufr_get_numeric_compressed` as exactly those raw values, subset by subset — for the whole
dataset or for any slice `from..to` — and the cursor ends right after the column. -/
theorem numeric_column_roundtrip (w : W) (hI : WInv w) (n0 : Node) (rest : List Node)
    (h1 : 1 ≤ n0.enc.nbits) (h2 : n0.enc.nbits ≤ 64)
    (hv : ∀ n ∈ n0 :: rest, value2bits n ≤ missingIvalue n0.enc.nbits)
    (hspread : n0.enc.nbits = 64 → ∀ a ∈ n0 :: rest, ∀ b ∈ n0 :: rest,
      value2bits a ≠ missingIvalue n0.enc.nbits → value2bits b ≠ missingIvalue n0.enc.nbits →
      value2bits a - value2bits b < 2^63 - 1)
    (r : R) (hIr : RInv r) (tail : List Bool)
    (hb : w.bits ++ r.bits = (putNumericCompressed w (n0 :: rest)).bits ++ tail)
    (cb : Node) (col : List Node) (hnb : cb.enc.nbits = n0.enc.nbits)
    (g : Range) (hg : g.OK) (hn : g.nsub = (n0 :: rest).length) (hcol : (cb :: col).length = g.count) :
    ∃ r', getNumericCompressed r (cb :: col) g =
        some (r', zipWithNodes setBitsValue (cb :: col) (g.slice ((n0 :: rest).map value2bits))) ∧
      r'.bits = tail ∧ RInv r' := by
  obtain ⟨pb, _⟩ := putNumericCompressed_bits w hI n0 rest
  rw [pb, List.append_assoc] at hb
  have hb' := List.append_cancel_left hb
  generalize hvals : (n0 :: rest).map value2bits = vals at *
  have hne : vals ≠ [] := by rw [← hvals]; simp
  have hvv : ∀ v ∈ vals, v ≤ missingIvalue n0.enc.nbits := by
    intro v hvm; rw [← hvals] at hvm
    obtain ⟨n, hn1, hn2⟩ := List.mem_map.mp hvm
    rw [← hn2]; exact hv n hn1
  have hsp : n0.enc.nbits = 64 → ∀ a ∈ vals, ∀ b ∈ vals, a ≠ missingIvalue n0.enc.nbits →
      b ≠ missingIvalue n0.enc.nbits → a - b < 2^63 - 1 := by
    intro h64 a ha b hb2 hna hnb2
    rw [← hvals] at ha hb2
    obtain ⟨na, ha1, ha2⟩ := List.mem_map.mp ha
    obtain ⟨nb', hb1, hb3⟩ := List.mem_map.mp hb2
    subst ha2 hb3
    exact hspread h64 na ha1 nb' hb1 hna hnb2
  obtain ⟨s1, s2, s3, s4, s5⟩ := encNumCol_sound n0.enc.nbits h1 h2 vals hne hvv hsp
  have hvlen : vals.length = g.nsub := by rw [← hvals, hn]; simp
  generalize encNumCol n0.enc.nbits vals = plan at *
  obtain ⟨r0, k, incs⟩ := plan
  simp only at s1 s2 s3 s4 s5 hb'
  have hm := missingIvalue_le n0.enc.nbits h1 h2
  have hpow : (2:Nat)^n0.enc.nbits.toNat ≥ 2 := by
    have : n0.enc.nbits.toNat ≥ 1 := by omega
    calc (2:Nat)^n0.enc.nbits.toNat ≥ 2^1 := Nat.pow_le_pow_right (by omega) this
      _ = 2 := by norm_num
  have hr0 : r0 % 2^n0.enc.nbits.toNat = r0 := Nat.mod_eq_of_lt (by omega)
  by_cases hk : k = 0
  · subst hk
    obtain ⟨hinc, hall⟩ := s4 rfl
    subst hinc
    simp only [List.flatMap_nil, List.append_nil] at hb'
    rw [← hnb] at hb'
    obtain ⟨r', e, hbr, hIr'⟩ := getNumericCompressed_const r cb col g r0 tail hIr (by omega) hb'
    refine ⟨r', ?_, hbr, hIr'⟩
    rw [e, hnb, hr0]
    congr 1; congr 1
    symm
    apply zipWithNodes_const
    · rw [hcol, Range.slice_length g hg vals hvlen]
    · intro v hvm; exact hall v (Range.slice_mem g vals v hvm)
  · obtain ⟨hilen, hdec⟩ := s5 (by omega)
    rw [← hnb] at hb' s2
    obtain ⟨r', e, hbr, hIr'⟩ := getNumericCompressed_listed r cb col g r0 k incs tail hIr (by omega)
      (by omega) s2 s3 hg (by omega) hb'
    refine ⟨r', ?_, hbr, hIr'⟩
    rw [e]
    congr 1; congr 1
    rw [zipWithNodes_map, ← hdec, Range.slice_map, zipWithNodes_map]
    congr 1
    funext n v
    simp only [decInc, hnb]

/-! ### one element, uncompressed -/

theorem putPadString_bits (w : W) (s : List Nat) (enclen : Nat) (hI : WInv w) :
    (w.putPadString s enclen).bits =
      w.bits ++ ((s.take enclen ++ List.replicate (enclen - s.length) 32).flatMap (bitsMSB 8)) ∧
    WInv (w.putPadString s enclen) := by
  unfold W.putPadString
  obtain ⟨a1, a2⟩ := foldl_putbits_bits 8 id (s.take enclen) w hI
  obtain ⟨b1, b2⟩ := foldl_putbits_bits 8 id (List.replicate (enclen - s.length) 32) _ a2
  simp only [id] at a1 a2 b1 b2
  exact ⟨by rw [b1, a1, List.append_assoc, List.flatMap_append]; simp, b2⟩

/-- the octets a character element occupies: the value left-justified, cut or blank-padded to the
element width -/
def paddedString (n : Node) : List Nat :=
  let len := (n.enc.nbits / 8).toNat
  (valueString n).take len ++ List.replicate (len - (valueString n).length) 32

/-- what one node contributes to an uncompressed Section 4: nothing when it carries no data,
otherwise its associated field followed by its value in exactly the element width -/
def nodeBits (n : Node) : List Bool :=
  if n.flags.skipped then []
  else
    (if n.enc.afNbits > 0 ∧ n.afW > 0 then bitsMSB n.afW n.afBits else []) ++
    (match n.enc.type with
     | .ccitt => (paddedString n).flatMap (bitsMSB 8)
     | .ieee => bitsMSB (if n.enc.nbits = 64 then 64 else 32) (valueBits n)
     | .numeric | .chngRef | .codetable | .flagtable => bitsMSB n.enc.nbits.toNat (valueBits n)
     | _ => [])

/-- **wire format of one element** (`bufr_put_desc_value`) -/
theorem putDescValue_bits (w : W) (hI : WInv w) (n : Node) :
    (putDescValue w n).bits = w.bits ++ nodeBits n ∧ WInv (putDescValue w n) := by
  unfold putDescValue nodeBits
  by_cases hs : n.flags.skipped
  · simp [hs, hI]
  · simp only [hs, Bool.false_eq_true, if_false]
    have haf : ∃ w1, (if n.enc.afNbits > 0 ∧ n.afW > 0 then w.putbits n.afBits n.afW else w) = w1 ∧
        w1.bits = w.bits ++ (if n.enc.afNbits > 0 ∧ n.afW > 0 then bitsMSB n.afW n.afBits else []) ∧ WInv w1 := by
      by_cases ha : n.enc.afNbits > 0 ∧ n.afW > 0
      · rw [if_pos ha, if_pos ha]
        obtain ⟨p1, p2⟩ := putbits_bits w n.afBits n.afW hI
        exact ⟨_, rfl, p1, p2⟩
      · rw [if_neg ha, if_neg ha]; exact ⟨w, rfl, by simp, hI⟩
    obtain ⟨w1, e1, hb1, hI1⟩ := haf
    rw [e1]
    cases ht : n.enc.type <;> simp only []
    all_goals first
      | (obtain ⟨p1, p2⟩ := putbits_bits w1 (valueBits n) n.enc.nbits.toNat hI1
         exact ⟨by rw [p1, hb1, List.append_assoc], p2⟩)
      | (obtain ⟨p1, p2⟩ := putPadString_bits w1 (valueString n) (n.enc.nbits / 8).toNat hI1
         exact ⟨by rw [p1, hb1, List.append_assoc]; rfl, p2⟩)
      | (obtain ⟨p1, p2⟩ := putbits_bits w1 (valueBits n) (if n.enc.nbits = 64 then 64 else 32) hI1
         exact ⟨by rw [p1, hb1, List.append_assoc], p2⟩)
      | exact ⟨by rw [hb1]; simp, hI1⟩

/-- **wire format of an uncompressed Section 4**: the elements of subset 1 in expansion order, then
those of subset 2, … with no gaps -/
theorem encode_subsets_bits (ss : List (List Node)) : ∀ (w : W), WInv w →
    (ss.foldl (fun w s => s.foldl putDescValue w) w).bits = w.bits ++ ss.flatMap (fun s => s.flatMap nodeBits) ∧
    WInv (ss.foldl (fun w s => s.foldl putDescValue w) w) := by
  have one : ∀ (s : List Node) (w : W), WInv w →
      (s.foldl putDescValue w).bits = w.bits ++ s.flatMap nodeBits ∧ WInv (s.foldl putDescValue w) := by
    intro s
    induction s with
    | nil => intro w h; simp [h]
    | cons n ns ih =>
      intro w h
      obtain ⟨p1, p2⟩ := putDescValue_bits w h n
      obtain ⟨q1, q2⟩ := ih _ p2
      simp only [List.foldl_cons, List.flatMap_cons]
      exact ⟨by rw [q1, p1, List.append_assoc], q2⟩
  induction ss with
  | nil => intro w h; simp [h]
  | cons s ss ih =>
    intro w h
    obtain ⟨p1, p2⟩ := one s w h
    obtain ⟨q1, q2⟩ := ih _ p2
    simp only [List.foldl_cons, List.flatMap_cons]
    exact ⟨by rw [q1, p1, List.append_assoc], q2⟩

/-! ### one element, uncompressed: reader -/

theorem getstring_view : ∀ (cs : List Nat) (r : R) (rest : List Bool), RInv r → cs ≠ [] →
    r.bits = cs.flatMap (bitsMSB 8) ++ rest →
    ∃ r', r.getstring cs.length = (cs.map (· % 256), 0, r') ∧ r'.bits = rest ∧ RInv r' := by
  intro cs
  induction cs with
  | nil => intro r rest _ h; exact absurd rfl h
  | cons c cs ih =>
    intro r rest hI _ hb
    rw [List.flatMap_cons, List.append_assoc] at hb
    obtain ⟨r1, e1, hb1, hI1⟩ := getbits_view r 8 c _ hI (by omega) (by omega) hb
    have hand : ∀ x : Nat, x % 256 &&& 255 = x % 256 := by
      intro x
      have h255 : (255 : Nat) = 2^8 - 1 := by norm_num
      rw [h255, Nat.and_two_pow_sub_one_eq_mod]
      norm_num
    have e1' : r.getbits 8 = (c % 256, 0, r1) := by simpa using e1
    by_cases hcs : cs = []
    · subst hcs
      refine ⟨r1, ?_, by simpa using hb1, hI1⟩
      simp [R.getstring, e1', hand]
    · obtain ⟨r2, e2, hb2, hI2⟩ := ih r1 rest hI1 hcs hb1
      refine ⟨r2, ?_, hb2, hI2⟩
      have hlen : cs.length ≠ 0 := by
        intro h; exact hcs (List.length_eq_zero_iff.mp h)
      simp only [List.length_cons, R.getstring, e1', e2, List.map_cons, hand]
      simp [hlen]

/-- the value `bufr_get_desc_value` stores in a node of the decoder's own list when the pending bits
start with `nodeBits m` for an encoder node `m` of the same layout -/
def readBack (n : Node) (m : Node) : Node :=
  let n1 := mkvalNode n
  let n2 := if n1.enc.afNbits > 0 ∧ n1.afW > 0 then { n1 with afBits := m.afBits % 2^n1.afW } else n1
  match n2.enc.type with
  | .ccitt => { n2 with val := n2.val.setString (some ((paddedString m).map (· % 256))) (n2.enc.nbits / 8).toNat }
  | .ieee =>
    if n2.enc.nbits = 64 then { n2 with val := n2.val.setDouble (SF.ofDoubleBits (valueBits m % 2^64)) }
    else { n2 with val := n2.val.setFloat (SF.ofFloatBits (valueBits m % 2^n2.enc.nbits.toNat)) }
  | .numeric | .chngRef | .codetable | .flagtable =>
    { n2 with val := valueOfBits n2 n2.val (valueBits m % 2^n2.enc.nbits.toNat) }
  | _ => n2

/-- the layout facts the decoder's node must share with the encoder's -/
structure SameLayout (n m : Node) : Prop where
  enc : n.enc = m.enc
  skipped : n.flags.skipped = m.flags.skipped
  afW : (mkvalNode n).afW = m.afW
  hasVal : (mkvalNode n).val.isSome = true

/-- **one element read back** (`bufr_get_desc_value`) for the element kinds whose width the
library supports (1..64 bits, whole octets for characters, 32/64 for IEEE) -/
theorem getDescValue_view (r : R) (hI : RInv r) (n m : Node) (rest : List Bool) (hl : SameLayout n m)
    (hns : m.flags.skipped = false)
    (hw : match m.enc.type with
          | .ccitt => 8 ≤ m.enc.nbits
          | .ieee => m.enc.nbits = 32 ∨ m.enc.nbits = 64
          | .numeric | .chngRef | .codetable | .flagtable => 1 ≤ m.enc.nbits ∧ m.enc.nbits ≤ 64
          | _ => True)
    (haf : m.afW ≤ 64)
    (hb : r.bits = nodeBits m ++ rest) :
    ∃ r', getDescValue r n = some (r', readBack n m) ∧ r'.bits = rest ∧ RInv r' := by
  obtain ⟨henc, hsk, hafw, hval⟩ := hl
  unfold getDescValue
  rw [hsk, hns]
  simp only [Bool.false_eq_true, if_false, hval, Bool.not_true]
  unfold nodeBits at hb
  rw [hns] at hb
  simp only [Bool.false_eq_true, if_false] at hb
  have hmk : (mkvalNode n).enc = m.enc := by
    rw [← henc]; unfold mkvalNode
    by_cases h1 : n.val.isSome
    · simp [h1]
    · simp only [h1]
      by_cases h2 : (freshVal n.enc).isSome <;> simp [h2]
  -- associated field
  have hafr : ∃ r1, (if (mkvalNode n).enc.afNbits > 0 ∧ (mkvalNode n).afW > 0 then
        (let (v, e, r') := r.getbits (mkvalNode n).afW
         if e < 0 then none else some (r', { mkvalNode n with afBits := v }))
      else some (r, mkvalNode n)) =
      some (r1, if (mkvalNode n).enc.afNbits > 0 ∧ (mkvalNode n).afW > 0 then
                  { mkvalNode n with afBits := m.afBits % 2^(mkvalNode n).afW } else mkvalNode n) ∧
      RInv r1 ∧
      r1.bits = (match m.enc.type with
        | .ccitt => (paddedString m).flatMap (bitsMSB 8)
        | .ieee => bitsMSB (if m.enc.nbits = 64 then 64 else 32) (valueBits m)
        | .numeric | .chngRef | .codetable | .flagtable => bitsMSB m.enc.nbits.toNat (valueBits m)
        | _ => []) ++ rest := by
    by_cases ha : (mkvalNode n).enc.afNbits > 0 ∧ (mkvalNode n).afW > 0
    · have ha' : m.enc.afNbits > 0 ∧ m.afW > 0 := by rw [← hmk, ← hafw]; exact ha
      rw [if_pos ha, if_pos ha]
      rw [if_pos ha', List.append_assoc] at hb
      rw [← hafw] at hb
      obtain ⟨r1, e1, hb1, hI1⟩ := getbits_view r _ _ _ hI ha.2 (by rw [hafw]; exact haf) hb
      refine ⟨r1, ?_, hI1, hb1⟩
      simp [e1]
    · have ha' : ¬ (m.enc.afNbits > 0 ∧ m.afW > 0) := by rw [← hmk, ← hafw]; exact ha
      rw [if_neg ha, if_neg ha]
      rw [if_neg ha'] at hb
      exact ⟨r, rfl, hI, by simpa using hb⟩
  obtain ⟨r1, e1, hI1, hb1⟩ := hafr
  rw [e1]
  simp only
  generalize hn2 : (if (mkvalNode n).enc.afNbits > 0 ∧ (mkvalNode n).afW > 0 then
      { mkvalNode n with afBits := m.afBits % 2^(mkvalNode n).afW } else mkvalNode n) = n2
  have hn2enc : n2.enc = m.enc := by
    rw [← hn2]; split <;> simp [hmk]
  have hrb : readBack n m = (match n2.enc.type with
      | .ccitt => { n2 with val := n2.val.setString (some ((paddedString m).map (· % 256))) (n2.enc.nbits / 8).toNat }
      | .ieee =>
        if n2.enc.nbits = 64 then { n2 with val := n2.val.setDouble (SF.ofDoubleBits (valueBits m % 2^64)) }
        else { n2 with val := n2.val.setFloat (SF.ofFloatBits (valueBits m % 2^n2.enc.nbits.toNat)) }
      | .numeric | .chngRef | .codetable | .flagtable =>
        { n2 with val := valueOfBits n2 n2.val (valueBits m % 2^n2.enc.nbits.toNat) }
      | _ => n2) := by
    unfold readBack; simp only [hn2]
  rw [hrb, hn2enc]
  cases ht : m.enc.type <;> simp only [ht] at hw hb1 ⊢
  case ccitt =>
    have hlen : (paddedString m).length = (m.enc.nbits / 8).toNat := by
      unfold paddedString; simp only [List.length_append, List.length_take, List.length_replicate]; omega
    have hne : paddedString m ≠ [] := by
      intro h; rw [h] at hlen; simp at hlen; omega
    obtain ⟨r2, e2, hb2, hI2⟩ := getstring_view (paddedString m) r1 rest hI1 hne hb1
    rw [hlen] at e2
    refine ⟨r2, ?_, hb2, hI2⟩
    simp [e2]
  case ieee =>
    rcases hw with h32 | h64
    · rw [h32] at hb1 ⊢
      obtain ⟨r2, e2, hb2, hI2⟩ := getbits_view r1 32 (valueBits m) rest hI1 (by omega) (by omega) (by simpa using hb1)
      exact ⟨r2, by simp [e2], hb2, hI2⟩
    · rw [h64] at hb1 ⊢
      obtain ⟨r2, e2, hb2, hI2⟩ := getbits_view r1 64 (valueBits m) rest hI1 (by omega) (by omega) (by simpa using hb1)
      exact ⟨r2, by simp [e2], hb2, hI2⟩
  case numeric | chngRef | codetable | flagtable =>
    obtain ⟨r2, e2, hb2, hI2⟩ := getbits_view r1 m.enc.nbits.toNat (valueBits m) rest hI1 (by omega) (by omega) hb1
    exact ⟨r2, by simp [e2], hb2, hI2⟩
  all_goals exact ⟨r1, rfl, by simpa using hb1, hI1⟩

/-! ### one subset, uncompressed, static layout -/

/-- the widths the library supports for a data-bearing node -/
def widthOK (m : Node) : Prop :=
  (match m.enc.type with
   | .ccitt => 8 ≤ m.enc.nbits
   | .ieee => m.enc.nbits = 32 ∨ m.enc.nbits = 64
   | .numeric | .chngRef | .codetable | .flagtable => 1 ≤ m.enc.nbits ∧ m.enc.nbits ≤ 64
   | _ => True) ∧ m.afW ≤ 64

/-- decoder node `n` and encoder node `m` describe the same position of the same layout -/
structure Pair (n m : Node) : Prop where
  enc : n.enc = m.enc
  skipped : n.flags.skipped = m.flags.skipped
  data : n.flags.skipped = false →
    ((mkvalNode n).val.isSome = true ∧ (mkvalNode n).afW = m.afW ∧ widthOK m) ∨
    ((mkvalNode n).val.isSome = false ∧ nodeBits m = [])

/-- what the decoder leaves in position `n` after reading the bits of `m` -/
def readBack' (n m : Node) : Node :=
  if n.flags.skipped then n else if (mkvalNode n).val.isSome then readBack n m else mkvalNode n

/-- the decoder's list is a fixed point of Table C application from state `ddo`, holds no new
reference value definitions (2 03) and no unexpanded delayed replication -/
def staticOK (T : Tables) (edition : Nat) : DDO → List Node → Bool
  | _, [] => true
  | ddo, n :: ns =>
    let a := applyTables2node T edition ddo n
    decide (a.2.1 = n) && !a.2.2 && decide (n.enc.type ≠ .chngRef) &&
    !(decide (Desc.f n.desc = 1) && decide (Desc.y n.desc = 0) && !n.flags.skipped) &&
    staticOK T edition a.1 ns

theorem readBack_enc (n m : Node) : (readBack n m).enc = (mkvalNode n).enc ∧ (readBack n m).desc = (mkvalNode n).desc := by
  unfold readBack
  simp only
  split <;> (try split) <;> (try split) <;> simp

theorem mkvalNode_enc (n : Node) : (mkvalNode n).enc = n.enc ∧ (mkvalNode n).desc = n.desc := by
  unfold mkvalNode
  by_cases h1 : n.val.isSome
  · simp [h1]
  · simp only [h1]
    by_cases h2 : (freshVal n.enc).isSome <;> simp [h2]

/-- **one subset of a static layout is decoded position by position**: the loop of
`bufr_decode_message_subsets` walks the whole list, re-derives the same encodings, reads every
data-bearing node from exactly the bits the encoder wrote for it, raises no error and consumes
exactly the subset -/
theorem decodeSubsetLoop_static (T : Tables) (edition s4max : Nat) :
    ∀ (nodes ms : List Node) (fuel : Nat) (ddo : DDO) (st : DecSt) (done : List Node) (rest : List Bool),
    nodes.length < fuel → staticOK T edition ddo nodes = true → List.Forall₂ Pair nodes ms →
    RInv st.r → st.r.bits = ms.flatMap nodeBits ++ rest →
    ∃ r', decodeSubsetLoop T edition s4max fuel ddo st done nodes =
        .ok ({ st with r := r' }, done.reverse ++ List.zipWith readBack' nodes ms, .complete) ∧
      r'.bits = rest ∧ RInv r' := by
  intro nodes
  induction nodes with
  | nil =>
    intro ms fuel ddo st done rest hf _ hp hI hb
    cases hp
    cases fuel with
    | zero => simp at hf
    | succ f => exact ⟨st.r, by simp [decodeSubsetLoop], by simpa using hb, hI⟩
  | cons n ns ih =>
    intro ms fuel ddo st done rest hf hok hp hI hb
    cases hp with
    | cons hpair hps =>
    rename_i m ms'
    cases fuel with
    | zero => simp at hf
    | succ f =>
    simp only [staticOK, Bool.and_eq_true, decide_eq_true_eq, Bool.not_eq_true', Bool.not_eq_eq_eq_not,
      Bool.not_true] at hok
    obtain ⟨⟨⟨⟨hfix, herr⟩, hnc⟩, hnd⟩, hrest⟩ := hok
    rw [List.flatMap_cons, List.append_assoc] at hb
    unfold decodeSubsetLoop
    generalize ha : applyTables2node T edition ddo n = a at hfix herr hrest
    obtain ⟨ddo1, n1, err⟩ := a
    simp only at hfix herr hrest
    subst hfix
    subst herr
    simp only [Bool.or_false]
    by_cases hsk : n1.flags.skipped = true
    · -- nothing on the wire
      rw [if_pos hsk]
      have hm : nodeBits m = [] := by
        unfold nodeBits; rw [← hpair.skipped, hsk]; simp
      rw [hm, List.nil_append] at hb
      obtain ⟨r', e, hb', hI'⟩ := ih ms' f ddo1 st (n1 :: done) rest (by simp at hf; omega) hrest hps hI hb
      refine ⟨r', ?_, hb', hI'⟩
      rw [e]
      simp [readBack', hsk]
    · have hsk' : n1.flags.skipped = false := by simpa using hsk
      rw [if_neg hsk]
      rcases hpair.data hsk' with ⟨hv, hafw, hw⟩ | ⟨hv, hnb⟩
      · -- a value is read
        have hl : SameLayout n1 m := ⟨hpair.enc, hpair.skipped, hafw, hv⟩
        have hms : m.flags.skipped = false := by rw [← hpair.skipped]; exact hsk'
        obtain ⟨r2, e2, hb2, hI2⟩ := getDescValue_view st.r hI n1 m _ hl hms hw.1 hw.2 hb
        rw [e2]
        simp only
        have hrenc := readBack_enc n1 m
        have hmenc := mkvalNode_enc n1
        have hcr : applyOpCrefval T ddo1 (readBack n1 m) = ddo1 := by
          unfold applyOpCrefval
          rw [hrenc.1, hmenc.1]
          simp [hnc]
        rw [hcr]
        have hnd' : ¬ (Desc.f (readBack n1 m).desc = 1 ∧ Desc.y (readBack n1 m).desc = 0) := by
          rw [hrenc.2, hmenc.2]
          intro ⟨h1, h2⟩
          simp [h1, h2, hsk'] at hnd
        rw [if_neg hnd']
        obtain ⟨r', e, hb', hI'⟩ := ih ms' f ddo1 { st with r := r2 } (readBack n1 m :: done) rest
          (by simp at hf; omega) hrest hps hI2 hb2
        refine ⟨r', ?_, hb', hI'⟩
        rw [e]
        simp [readBack', hsk', hv]
      · -- a node without a value (an operator): `bufr_get_desc_value` returns at once
        rw [hnb, List.nil_append] at hb
        have e2 : getDescValue st.r n1 = some (st.r, mkvalNode n1) := by
          unfold getDescValue
          simp [hsk', hv]
        rw [e2]
        simp only
        have hmenc := mkvalNode_enc n1
        have hcr : applyOpCrefval T ddo1 (mkvalNode n1) = ddo1 := by
          unfold applyOpCrefval
          rw [hmenc.1]
          simp [hnc]
        rw [hcr]
        have hnd' : ¬ (Desc.f (mkvalNode n1).desc = 1 ∧ Desc.y (mkvalNode n1).desc = 0) := by
          rw [hmenc.2]
          intro ⟨h1, h2⟩
          simp [h1, h2, hsk'] at hnd
        rw [if_neg hnd']
        obtain ⟨r', e, hb', hI'⟩ := ih ms' f ddo1 st (mkvalNode n1 :: done) rest
          (by simp at hf; omega) hrest hps hI hb
        refine ⟨r', ?_, hb', hI'⟩
        rw [e]
        simp [readBack', hsk', hv]

/-! ### the decoder re-derives the layout the encoder used -/

theorem applyWidth_upd (ddo1 : DDO) (n : Node) (f : Flags) (e' : Enc) (a : List Nat) (w b : Nat) (c : Bool) (e : Enc) :
    applyWidth ddo1 { n with flags := f, enc := e', af := a, afW := w, afBits := b } c e = applyWidth ddo1 n c e := by
  unfold applyWidth applyNumeric
  rfl

theorem applyTail_idem (ddo1 : DDO) (n : Node) (e1 : Enc) (err1 : Bool) :
    applyTail ddo1 (applyTail ddo1 n e1 err1).2.1 e1 err1 = applyTail ddo1 n e1 err1 := by
  unfold applyTail
  simp only [Bool.or_assoc, Bool.or_self, applyWidth_upd]
  have haf : ∀ c, applyAFList ddo1 c e1 (applyAFList ddo1 c e1 n.af) = applyAFList ddo1 c e1 n.af := by
    intro c; unfold applyAFList; split <;> simp_all
  rw [haf]
  by_cases hc : (afApplies ddo1 (n.flags.class31 || decide (Desc.x n.desc = 31)) e1 && n.val.isSome &&
      n.afW != listSumN ddo1.afList) = true
  · simp only [hc, if_true]
    simp
  · simp only [hc, Bool.false_eq_true, if_false]

theorem applyTail_desc (d : DDO) (n : Node) (e : Enc) (b : Bool) : (applyTail d n e b).2.1.desc = n.desc := by
  unfold applyTail; simp
theorem applyTail_skipped (d : DDO) (n : Node) (e : Enc) (b : Bool) :
    (applyTail d n e b).2.1.flags.skipped = n.flags.skipped := by
  unfold applyTail; simp

/-- **Table C application is idempotent**: applying `bufr_apply_tables2node` to a node it has
already processed, from the same operator state, changes nothing — which is why the decoder, which
applies the tables to its template copy and then again while reading, sees the layout the encoder
wrote -/
theorem applyTables2node_idem (T : Tables) (edition : Nat) (ddo : DDO) (n : Node) :
    applyTables2node T edition ddo (applyTables2node T edition ddo n).2.1 = applyTables2node T edition ddo n := by
  by_cases hop : Desc.f n.desc = 2 ∧ (!n.flags.skipped) = true
  · have h1 : applyTables2node T edition ddo n =
        applyTail (resolveTableC ddo (Desc.x n.desc) (Desc.y n.desc) edition).ddo n
          (match (resolveTableC ddo (Desc.x n.desc) (Desc.y n.desc) edition).enc with
            | some (t, nb) => { reassign n.desc (baseEnc T ddo n.desc) with type := t, nbits := nb }
            | none => reassign n.desc (baseEnc T ddo n.desc))
          (decide ((resolveTableC ddo (Desc.x n.desc) (Desc.y n.desc) edition).rc < 0)) := by
      unfold applyTables2node; simp only; rw [if_pos hop]; try rfl
    rw [h1]
    unfold applyTables2node
    simp only [applyTail_desc, applyTail_skipped]
    rw [if_pos hop]
    exact applyTail_idem _ _ _ _
  · have h1 : applyTables2node T edition ddo n =
        applyTail ddo n (reassign n.desc (baseEnc T ddo n.desc)) false := by
      unfold applyTables2node; simp only; rw [if_neg hop]; try rfl
    rw [h1]
    unfold applyTables2node
    simp only [applyTail_desc, applyTail_skipped]
    rw [if_neg hop]
    exact applyTail_idem _ _ _ _

/-- the decoder's own template copy: whatever list Table C application produced, every node of it is
a fixed point of a second application along the same operator states -/
theorem applyTablesAll_fixed (T : Tables) (edition : Nat) : ∀ (ns : List Node) (ddo : DDO),
    applyTablesAll T edition ddo (applyTablesAll T edition ddo ns).1 = applyTablesAll T edition ddo ns := by
  intro ns
  induction ns with
  | nil => intro ddo; simp [applyTablesAll]
  | cons n ns ih =>
    intro ddo
    simp only [applyTablesAll]
    rw [applyTables2node_idem, ih]

/-- `staticOK` without the fixed-point clause: a property of the template alone -/
def plainOK (T : Tables) (edition : Nat) : DDO → List Node → Bool
  | _, [] => true
  | ddo, n :: ns =>
    let a := applyTables2node T edition ddo n
    !a.2.2 && decide (n.enc.type ≠ .chngRef) &&
    !(decide (Desc.f n.desc = 1) && decide (Desc.y n.desc = 0) && !n.flags.skipped) &&
    plainOK T edition a.1 ns

/-- the decoder's template copy (`bufr_apply_Tables` over the expanded template) is static as soon as
it raises no operator error and holds no 2 03 definitions and no delayed replication -/
theorem staticOK_of_applied (T : Tables) (edition : Nat) : ∀ (ns : List Node) (ddo : DDO),
    plainOK T edition ddo (applyTablesAll T edition ddo ns).1 = true →
    staticOK T edition ddo (applyTablesAll T edition ddo ns).1 = true := by
  intro ns
  induction ns with
  | nil => intro ddo _; simp [applyTablesAll, staticOK]
  | cons n ns ih =>
    intro ddo h
    simp only [applyTablesAll] at h ⊢
    simp only [plainOK, applyTables2node_idem, Bool.and_eq_true] at h
    simp only [staticOK, applyTables2node_idem, Bool.and_eq_true, decide_eq_true_eq]
    obtain ⟨⟨⟨h1, h2⟩, h3⟩, h4⟩ := h
    exact ⟨⟨⟨⟨trivial, h1⟩, by simpa using h2⟩, h3⟩, ih _ h4⟩

/-! ### every subset, uncompressed, static layout -/

/-- **all subsets of a static layout**: the `for` loop of `bufr_decode_message_subsets` returns one
decoded subset per encoded subset, in order, each read position by position, and never raises the
invalid flag -/
theorem decodeUncompressed_static (T : Tables) (edition : Nat) (enforce : Enforce) (fuel s4max : Nat)
    (bsq : List Node) (nbitsSeq : Int) (lenConst : Bool) (from_ to_ : Int)
    (hkeep : lenConst = true ∨ from_ ≤ 0)
    (hfuel : bsq.length < fuel) (hok : staticOK T edition { enforce := enforce } bsq = true) :
    ∀ (mss : List (List Node)) (j : Nat) (st : DecSt) (acc : List (List Node)) (rest : List Bool),
    (∀ ms ∈ mss, List.Forall₂ Pair bsq ms) → RInv st.r →
    st.r.bits = mss.flatMap (fun ms => ms.flatMap nodeBits) ++ rest →
    ∃ st', decodeUncompressed T edition enforce fuel s4max bsq nbitsSeq lenConst from_ to_ mss.length j st acc =
        .ok (st', acc.reverse ++ mss.map (fun ms => mkvalAll (List.zipWith readBack' bsq ms))) ∧
      st'.invalid = st.invalid ∧ st'.r.bits = rest ∧ RInv st'.r := by
  intro mss
  induction mss with
  | nil =>
    intro j st acc rest _ hI hb
    exact ⟨st, by simp [decodeUncompressed], rfl, by simpa using hb, hI⟩
  | cons ms mss ih =>
    intro j st acc rest hp hI hb
    rw [List.flatMap_cons, List.append_assoc] at hb
    obtain ⟨r', e, hb', hI'⟩ := decodeSubsetLoop_static T edition s4max bsq ms fuel { enforce := enforce } st []
      _ hfuel hok (hp ms (by simp)) hI hb
    simp only [List.length_cons, decodeUncompressed, e]
    have hk : (lenConst = true ∨ from_ ≤ 0 ∨ (from_ ≤ (j : Int) + 1 ∧ (j : Int) + 1 ≤ to_)) := by
      rcases hkeep with h | h
      · exact Or.inl h
      · exact Or.inr (Or.inl h)
    simp only [hk, if_true, List.reverse_nil, List.nil_append]
    obtain ⟨st', e2, hinv, hb2, hI2⟩ := ih (j + 1)
      { st with r := r', s4len := st.s4len + (if lenConst then nbitsSeq else
          estimateSeqLength T fuel (List.zipWith readBack' bsq ms)) }
      (mkvalAll (List.zipWith readBack' bsq ms) :: acc) rest
      (fun m hm => hp m (by simp [hm])) hI' hb'
    refine ⟨st', ?_, hinv, hb2, hI2⟩
    rw [e2]
    simp

/-! ### encoder output into the decoder -/

theorem padSection4_bits (edition : Nat) (w : W) (hI : WInv w) :
    ∃ z, (padSection4 edition w).bits = w.bits ++ z ∧ WInv (padSection4 edition w) := by
  unfold padSection4
  simp only
  by_cases h : edition ≤ 3 ∧ (w.filled + 4 + (if w.bitno > 0 then 1 else 0)) % 2 = 1
  · rw [if_pos h]
    obtain ⟨p1, p2⟩ := putbits_bits w 0 (if w.bitno = 0 then 8 else 8 - w.bitno + 8) hI
    exact ⟨_, p1, p2⟩
  · rw [if_neg h]; exact ⟨[], by simp, hI⟩

/-- the data section the uncompressed encoder produces, as the decoder's reader sees it: the
elements of every subset in order, then padding -/
theorem encodeData_reader (ss : List (List Node)) (dataFlag edition : Nat) :
    ∃ pad, (R.ofBytes (padSection4 edition (encodeData ss dataFlag 0).2).bytes).bits =
      ss.flatMap (fun s => s.flatMap nodeBits) ++ pad ∧
      RInv (R.ofBytes (padSection4 edition (encodeData ss dataFlag 0).2).bytes) := by
  have h0 : WInv ((W.new 0).alloc (s4Estimate ss)) := alloc_inv _ _ (WInv_new 0)
  have hb0 : ((W.new 0).alloc (s4Estimate ss)).bits = [] := by
    unfold W.alloc W.new W.bits; split <;> simp
  have he : (encodeData ss dataFlag 0).2 =
      ss.foldl (fun w s => s.foldl putDescValue w) ((W.new 0).alloc (s4Estimate ss)) := by
    unfold encodeData; simp
  obtain ⟨p1, p2⟩ := encode_subsets_bits ss _ h0
  rw [hb0, List.nil_append] at p1
  rw [he]
  obtain ⟨z, q1, q2⟩ := padSection4_bits edition _ p2
  obtain ⟨pad, hall⟩ := ofBytes_allBits _ q2
  refine ⟨z ++ pad, ?_, ⟨by simp [R.ofBytes]⟩⟩
  have : ∀ r : R, r.pos = 0 → r.bits = r.allBits := by
    intro r h; unfold R.bits; rw [h]; simp
  rw [this _ (by simp [R.ofBytes, R.pos]), hall, q1, p1, List.append_assoc]

/-- **C01, static templates.** For every list `bsq` the decoder derives for a template without
delayed replication and without 2 03 (any Table B/D content, any operators 2 01/2 02/2 04–2 09, any
fixed replication), every number of subsets and every assignment of values whose nodes `ss` share that
layout: decoding the uncompressed encoding returns the same number of subsets, each with the same
descriptor positions, every data-bearing position read from exactly the bits its own value was written
to (`readBack'`), and the dataset is not flagged invalid. -/
theorem encode_decode_static (T : Tables) (edition : Nat) (enforce : Enforce) (fuel s4max : Nat)
    (bsq : List Node) (nbitsSeq : Int) (ss : List (List Node)) (dataFlag : Nat)
    (hfuel : bsq.length < fuel) (hok : staticOK T edition { enforce := enforce } bsq = true)
    (hp : ∀ ms ∈ ss, List.Forall₂ Pair bsq ms) :
    ∃ st', decodeUncompressed T edition enforce fuel s4max bsq nbitsSeq true 0 0 ss.length 0
        { r := R.ofBytes (padSection4 edition (encodeData ss dataFlag 0).2).bytes, invalid := false } [] =
        .ok (st', ss.map (fun ms => mkvalAll (List.zipWith readBack' bsq ms))) ∧ st'.invalid = false := by
  obtain ⟨pad, hb, hI⟩ := encodeData_reader ss dataFlag edition
  obtain ⟨st', e, hinv, _, _⟩ := decodeUncompressed_static T edition enforce fuel s4max bsq nbitsSeq true 0 0
    (Or.inl rfl) hfuel hok ss 0
    { r := R.ofBytes (padSection4 edition (encodeData ss dataFlag 0).2).bytes, invalid := false } [] pad hp hI hb
  exact ⟨st', by simpa using e, hinv⟩

/-! ### decidable forms of the layout hypotheses (for concrete instances) -/

def widthOKb (m : Node) : Bool :=
  (match m.enc.type with
   | .ccitt => decide (8 ≤ m.enc.nbits)
   | .ieee => decide (m.enc.nbits = 32 ∨ m.enc.nbits = 64)
   | .numeric | .chngRef | .codetable | .flagtable => decide (1 ≤ m.enc.nbits ∧ m.enc.nbits ≤ 64)
   | _ => true) && decide (m.afW ≤ 64)

theorem widthOK_of_b (m : Node) (h : widthOKb m = true) : widthOK m := by
  unfold widthOKb at h
  unfold widthOK
  rw [Bool.and_eq_true] at h
  refine ⟨?_, by simpa using h.2⟩
  have h1 := h.1
  cases ht : m.enc.type <;> simp only [ht] at h1 ⊢ <;> first | trivial | simpa using h1

def pairb (n m : Node) : Bool :=
  decide (n.enc = m.enc) && decide (n.flags.skipped = m.flags.skipped) &&
  (n.flags.skipped ||
    ((mkvalNode n).val.isSome && decide ((mkvalNode n).afW = m.afW) && widthOKb m) ||
    (!(mkvalNode n).val.isSome && decide (nodeBits m = [])))

theorem pair_of_b (n m : Node) (h : pairb n m = true) : Pair n m := by
  unfold pairb at h
  simp only [Bool.and_eq_true, Bool.or_eq_true, decide_eq_true_eq, Bool.not_eq_true'] at h
  obtain ⟨⟨h1, h2⟩, h3⟩ := h
  refine ⟨h1, h2, ?_⟩
  intro hs
  rcases h3 with (h | ⟨⟨a, b⟩, c⟩) | ⟨a, b⟩
  · rw [hs] at h; exact absurd h (by simp)
  · exact Or.inl ⟨a, b, widthOK_of_b m c⟩
  · exact Or.inr ⟨a, b⟩

def pairsb : List Node → List Node → Bool
  | [], [] => true
  | n :: ns, m :: ms => pairb n m && pairsb ns ms
  | _, _ => false

theorem pairs_of_b : ∀ (ns ms : List Node), pairsb ns ms = true → List.Forall₂ Pair ns ms := by
  intro ns
  induction ns with
  | nil => intro ms h; cases ms with
    | nil => exact List.Forall₂.nil
    | cons _ _ => simp [pairsb] at h
  | cons n ns ih => intro ms h; cases ms with
    | nil => simp [pairsb] at h
    | cons m ms =>
      simp only [pairsb, Bool.and_eq_true] at h
      exact List.Forall₂.cons (pair_of_b n m h.1) (ih ms h.2)

theorem forall2_length {α β} {R : α → β → Prop} : ∀ {l₁ : List α} {l₂ : List β}, List.Forall₂ R l₁ l₂ → l₁.length = l₂.length
  | _, _, .nil => rfl
  | _, _, .cons _ h => by simp [forall2_length h]

/-! ### arbitrary bytes (C05) -/

/-- whatever the bytes, `bufr_get_desc_value` keeps the descriptor and its encoding -/
theorem getDescValue_preserves (r : R) (n : Node) (r' : R) (n' : Node) (h : getDescValue r n = some (r', n')) :
    n'.desc = n.desc ∧ n'.enc = n.enc := by
  have hm := mkvalNode_enc n
  unfold getDescValue at h
  by_cases hs : n.flags.skipped = true
  · simp only [hs, if_true, Option.some.injEq, Prod.mk.injEq] at h
    obtain ⟨_, rfl⟩ := h; exact ⟨rfl, rfl⟩
  · simp only [hs, Bool.false_eq_true, if_false] at h
    by_cases hv : (mkvalNode n).val.isSome = true
    · simp only [hv, Bool.not_true, Bool.false_eq_true, if_false] at h
      -- associated field step
      generalize haf : (if (mkvalNode n).enc.afNbits > 0 ∧ (mkvalNode n).afW > 0 then
          (let (v, e, r') := r.getbits (mkvalNode n).afW
           if e < 0 then none else some (r', { mkvalNode n with afBits := v }))
        else some (r, mkvalNode n)) = afr at h
      cases afr with
      | none => simp at h
      | some p =>
        obtain ⟨r1, n2⟩ := p
        have hn2 : n2.desc = n.desc ∧ n2.enc = n.enc := by
          by_cases ha : (mkvalNode n).enc.afNbits > 0 ∧ (mkvalNode n).afW > 0
          · rw [if_pos ha] at haf
            simp only at haf
            split at haf
            · simp at haf
            · simp only [Option.some.injEq, Prod.mk.injEq] at haf
              obtain ⟨_, rfl⟩ := haf
              exact ⟨hm.2, hm.1⟩
          · rw [if_neg ha] at haf
            simp only [Option.some.injEq, Prod.mk.injEq] at haf
            obtain ⟨_, rfl⟩ := haf
            exact ⟨hm.2, hm.1⟩
        simp only at h
        cases ht : n2.enc.type <;> simp only [ht] at h
        all_goals first
          | (simp only [Option.some.injEq, Prod.mk.injEq] at h; obtain ⟨_, rfl⟩ := h; exact hn2)
          | (split at h
             · simp at h
             · simp only [Option.some.injEq, Prod.mk.injEq] at h; obtain ⟨_, rfl⟩ := h; exact hn2)
          | (split at h
             · simp at h
             · split at h <;>
               (simp only [Option.some.injEq, Prod.mk.injEq] at h; obtain ⟨_, rfl⟩ := h; exact hn2))
    · simp only [hv, Bool.not_false, if_true, Option.some.injEq, Prod.mk.injEq] at h
      obtain ⟨_, rfl⟩ := h
      exact ⟨hm.2, hm.1⟩

/-- **C05, static templates, arbitrary bytes.**  Whatever bytes the reader holds — truncated,
random, hostile — the subset loop over a static layout ends normally: it never dereferences a
missing node (`XErr.null`), never runs out of fuel once `fuel > |nodes|` (the number of iterations is
the number of nodes, not something the data claim), and returns every node of the list; it either
completes or stops at the first premature end of data. -/
theorem decodeSubsetLoop_static_any (T : Tables) (edition s4max : Nat) :
    ∀ (nodes : List Node) (fuel : Nat) (ddo : DDO) (st : DecSt) (done : List Node),
    nodes.length < fuel → staticOK T edition ddo nodes = true →
    ∃ st' out fin, decodeSubsetLoop T edition s4max fuel ddo st done nodes = .ok (st', out, fin) ∧
      (fin = .complete ∨ fin = .shortRead) ∧ out.length = done.length + nodes.length := by
  intro nodes
  induction nodes with
  | nil =>
    intro fuel ddo st done hf _
    cases fuel with
    | zero => simp at hf
    | succ f => exact ⟨st, done.reverse, .complete, by simp [decodeSubsetLoop], Or.inl rfl, by simp⟩
  | cons n ns ih =>
    intro fuel ddo st done hf hok
    cases fuel with
    | zero => simp at hf
    | succ f =>
    simp only [staticOK, Bool.and_eq_true, decide_eq_true_eq, Bool.not_eq_true', Bool.not_eq_eq_eq_not,
      Bool.not_true] at hok
    obtain ⟨⟨⟨⟨hfix, herr⟩, hnc⟩, hnd⟩, hrest⟩ := hok
    unfold decodeSubsetLoop
    generalize ha : applyTables2node T edition ddo n = a at hfix herr hrest
    obtain ⟨ddo1, n1, err⟩ := a
    simp only at hfix herr hrest
    subst hfix
    subst herr
    simp only [Bool.or_false]
    by_cases hsk : n1.flags.skipped = true
    · rw [if_pos hsk]
      obtain ⟨st', out, fin, e, hfin, hlen⟩ := ih f ddo1 st (n1 :: done) (by simp at hf; omega) hrest
      exact ⟨st', out, fin, e, hfin, by rw [hlen]; simp; omega⟩
    · rw [if_neg hsk]
      cases hg : getDescValue st.r n1 with
      | none =>
        exact ⟨{ st with invalid := true }, done.reverse ++ n1 :: ns, .shortRead, by simp, Or.inr rfl, by simp⟩
      | some p =>
        obtain ⟨r2, n2⟩ := p
        obtain ⟨hd, he⟩ := getDescValue_preserves st.r n1 r2 n2 hg
        simp only
        have hcr : applyOpCrefval T ddo1 n2 = ddo1 := by
          unfold applyOpCrefval; rw [he]; simp [hnc]
        rw [hcr]
        have hsk' : n1.flags.skipped = false := by simpa using hsk
        have hnd' : ¬ (Desc.f n2.desc = 1 ∧ Desc.y n2.desc = 0) := by
          rw [hd]; intro ⟨h1, h2⟩; simp [h1, h2, hsk'] at hnd
        rw [if_neg hnd']
        obtain ⟨st', out, fin, e, hfin, hlen⟩ := ih f ddo1 { st with r := r2 } (n2 :: done) (by simp at hf; omega) hrest
        exact ⟨st', out, fin, e, hfin, by rw [hlen]; simp; omega⟩

/-! ### compressed character and associated-field columns (whole dataset) -/

theorem readStrs_view (k : Nat) (hk : 0 < k) : ∀ (strs : List (List Nat)) (r : R) (rest : List Bool),
    (∀ s ∈ strs, s.length = k) → RInv r → r.bits = strs.flatMap (fun s => s.flatMap (bitsMSB 8)) ++ rest →
    ∃ r', readStrs r k strs.length = some (strs.map (fun s => s.map (· % 256)), r') ∧ r'.bits = rest ∧ RInv r' := by
  intro strs
  induction strs with
  | nil => intro r rest _ hI hb; exact ⟨r, by simp [readStrs], by simpa using hb, hI⟩
  | cons s ss ih =>
    intro r rest hl hI hb
    rw [List.flatMap_cons, List.append_assoc] at hb
    have hsl := hl s (by simp)
    have hne : s ≠ [] := by intro h; rw [h] at hsl; simp at hsl; omega
    obtain ⟨r1, e1, hb1, hI1⟩ := getstring_view s r _ hI hne hb
    rw [hsl] at e1
    obtain ⟨r2, e2, hb2, hI2⟩ := ih r1 rest (fun x hx => hl x (by simp [hx])) hI1 hb1
    refine ⟨r2, ?_, hb2, hI2⟩
    simp only [List.length_cons, readStrs, e1, e2, List.map_cons]
    simp

/-- **constant character column** (`NBINC = 0`): every subset gets the reference string -/
theorem getCcittCompressed_const (r : R) (cb : Node) (col : List Node) (g : Range) (cs : List Nat)
    (rest : List Bool) (hI : RInv r) (hlen : cs.length = (cb.enc.nbits / 8).toNat) (hpos : 0 < cs.length)
    (hb : r.bits = cs.flatMap (bitsMSB 8) ++ bitsMSB 6 0 ++ rest) :
    ∃ r', getCcittCompressed r (cb :: col) g =
        some (r', (cb :: col).map (fun n => { mkvalNode n with
          val := (mkvalNode cb).val.setString (some (cs.map (· % 256))) (cb.enc.nbits / 8).toNat })) ∧
      r'.bits = rest ∧ RInv r' := by
  rw [List.append_assoc] at hb
  have hne : cs ≠ [] := by intro h; rw [h] at hpos; simp at hpos
  obtain ⟨r1, e1, hb1, hI1⟩ := getstring_view cs r _ hI hne hb
  rw [hlen] at e1
  obtain ⟨r2, e2, hb2, hI2⟩ := getbits_view r1 6 0 _ hI1 (by omega) (by omega) hb1
  refine ⟨r2, ?_, hb2, hI2⟩
  unfold getCcittCompressed
  simp only [e1, e2]
  simp

/-- **listed character column** (`NBINC = octets`): subset `i` gets string `i`, whatever the
reference string is -/
theorem getCcittCompressed_listed (r : R) (cb : Node) (col : List Node) (g : Range) (r0 : List Nat) (k : Nat)
    (strs : List (List Nat)) (rest : List Bool) (hI : RInv r)
    (hlen : r0.length = (cb.enc.nbits / 8).toNat) (hpos : 0 < r0.length)
    (hk0 : 0 < k) (hk : k < 64) (hk63 : k = 63 → cb.enc.nbits = 63 * 8)
    (hfull : g.from_ ≤ 0) (hn : strs.length = g.nsub) (hsl : ∀ s ∈ strs, s.length = k)
    (hb : r.bits = r0.flatMap (bitsMSB 8) ++ bitsMSB 6 k ++ strs.flatMap (fun s => s.flatMap (bitsMSB 8)) ++ rest) :
    ∃ r', getCcittCompressed r (cb :: col) g =
        some (r', zipWithStrs (fun n s => { mkvalNode n with
          val := (mkvalNode n).val.setString (some s) ((mkvalNode n).enc.nbits / 8).toNat })
          (cb :: col) (strs.map (fun s => s.map (· % 256)))) ∧
      r'.bits = rest ∧ RInv r' := by
  rw [List.append_assoc, List.append_assoc] at hb
  have hne : r0 ≠ [] := by intro h; rw [h] at hpos; simp at hpos
  obtain ⟨r1, e1, hb1, hI1⟩ := getstring_view r0 r _ hI hne hb
  rw [hlen] at e1
  obtain ⟨r2, e2, hb2, hI2⟩ := getbits_view r1 6 k _ hI1 (by omega) (by omega) hb1
  have hk6 : k % 2^6 = k := Nat.mod_eq_of_lt (by omega)
  rw [hk6] at e2
  obtain ⟨r3, e3, hb3, hI3⟩ := readStrs_view k hk0 strs r2 rest hsl hI2 hb2
  refine ⟨r3, ?_, hb3, hI3⟩
  unfold getCcittCompressed
  simp only [e1, e2]
  have h63 : ¬ (k = 63 ∧ cb.enc.nbits ≠ 63 * 8) := by
    intro ⟨a, b⟩; exact b (hk63 a)
  have hk0' : ¬ k = 0 := by omega
  have hf1 : ¬ g.from_ > 1 := by omega
  have hf0 : ¬ g.from_ > 0 := by omega
  have hcount : g.count = strs.length := by unfold Range.count; rw [if_neg hf0, hn]
  simp only [h63, if_false, hk0', hf1, hf0, hcount, e3]
  simp

/-- **associated-field column**, constant -/
theorem getAfCompressed_const (r : R) (cb : Node) (col : List Node) (g : Range) (r0 : Nat) (rest : List Bool)
    (hI : RInv r) (haf : cb.enc.afNbits ≠ 0) (hw : 1 ≤ (mkvalNode cb).afW ∧ (mkvalNode cb).afW ≤ 64)
    (hb : r.bits = bitsMSB (mkvalNode cb).afW r0 ++ bitsMSB 6 0 ++ rest) :
    ∃ r', getAfCompressed r (cb :: col) g =
        some (r', (cb :: col).map (fun n => { mkvalNode n with afBits := r0 % 2^(mkvalNode cb).afW })) ∧
      r'.bits = rest ∧ RInv r' := by
  rw [List.append_assoc] at hb
  obtain ⟨r1, e1, hb1, hI1⟩ := getbits_view r _ r0 _ hI (by omega) (by omega) hb
  obtain ⟨r2, e2, hb2, hI2⟩ := getbits_view r1 6 0 _ hI1 (by omega) (by omega) hb1
  refine ⟨r2, ?_, hb2, hI2⟩
  unfold getAfCompressed
  simp only [haf, if_false, e1, e2]
  simp

/-- **associated-field column**, listed: subset `i` gets `R0 + increment_i` (no missing pattern) -/
theorem getAfCompressed_listed (r : R) (cb : Node) (col : List Node) (g : Range) (r0 k : Nat) (incs : List Nat)
    (rest : List Bool) (hI : RInv r) (haf : cb.enc.afNbits ≠ 0) (hw : 1 ≤ (mkvalNode cb).afW ∧ (mkvalNode cb).afW ≤ 64)
    (hk0 : 0 < k) (hk : k < 64) (hfull : g.from_ ≤ 0) (hn : incs.length = g.nsub)
    (hb : r.bits = bitsMSB (mkvalNode cb).afW r0 ++ bitsMSB 6 k ++ incs.flatMap (bitsMSB k) ++ rest) :
    ∃ r', getAfCompressed r (cb :: col) g =
        some (r', zipWithNodes (fun n v => { mkvalNode n with afBits := v + r0 % 2^(mkvalNode cb).afW })
          (cb :: col) (incs.map (· % 2^k))) ∧
      r'.bits = rest ∧ RInv r' := by
  rw [List.append_assoc, List.append_assoc] at hb
  obtain ⟨r1, e1, hb1, hI1⟩ := getbits_view r _ r0 _ hI (by omega) (by omega) hb
  obtain ⟨r2, e2, hb2, hI2⟩ := getbits_view r1 6 k _ hI1 (by omega) (by omega) hb1
  have hk6 : k % 2^6 = k := Nat.mod_eq_of_lt (by omega)
  rw [hk6] at e2
  obtain ⟨r3, e3, hb3, hI3⟩ := readIncs_view k hk0 (by omega) incs r2 rest hI2 hb2
  refine ⟨r3, ?_, hb3, hI3⟩
  unfold getAfCompressed
  have hk0' : ¬ k = 0 := by omega
  have hf1 : ¬ g.from_ > 1 := by omega
  have hf0 : ¬ g.from_ > 0 := by omega
  have hcount : g.count = incs.length := by unfold Range.count; rw [if_neg hf0, hn]
  simp only [haf, if_false, e1, e2, hk0', hf1, hf0, hcount, e3]
  simp

theorem zipWithNodes_congr (f g : Node → Nat → Node) : ∀ (ns : List Node) (vs : List Nat),
    (∀ n, ∀ v ∈ vs, f n v = g n v) → zipWithNodes f ns vs = zipWithNodes g ns vs := by
  intro ns
  induction ns with
  | nil => intro vs _; cases vs <;> simp [zipWithNodes]
  | cons n ns ih =>
    intro vs h
    cases vs with
    | nil => simp [zipWithNodes]
    | cons v vs =>
      simp only [zipWithNodes]
      rw [h n v (by simp), ih vs (fun m x hx => h m x (by simp [hx]))]

/-! ### associated-field column: writer and round trip -/

/-- the plan of `bufr_put_af_compressed` -/
def encAfCol (vals : List Nat) : Nat × Nat × List Nat :=
  let umin := listMin vals 0
  let umax := listMax vals 0
  if umin = umax then (umin, 0, []) else (umin, valueNbits (umax - umin), vals.map (· - umin))

theorem putAfCompressed_bits (w : W) (hI : WInv w) (n0 : Node) (rest : List Node)
    (haf : ¬ (n0.enc.afNbits = 0 ∨ n0.afW = 0)) (hall : ∀ n ∈ n0 :: rest, n.afW > 0) :
    (putAfCompressed w (n0 :: rest)).bits =
      w.bits ++ (bitsMSB n0.afW (encAfCol ((n0 :: rest).map (·.afBits))).1 ++
        bitsMSB 6 (encAfCol ((n0 :: rest).map (·.afBits))).2.1 ++
        (encAfCol ((n0 :: rest).map (·.afBits))).2.2.flatMap (bitsMSB (encAfCol ((n0 :: rest).map (·.afBits))).2.1)) ∧
    WInv (putAfCompressed w (n0 :: rest)) := by
  unfold putAfCompressed encAfCol
  simp only [haf, if_false]
  by_cases heq : listMin ((n0 :: rest).map (·.afBits)) 0 = listMax ((n0 :: rest).map (·.afBits)) 0
  · rw [if_pos heq, if_pos heq]
    obtain ⟨p1, p2⟩ := putbits_bits w _ n0.afW hI
    obtain ⟨q1, q2⟩ := putbits_bits _ 0 6 p2
    exact ⟨by rw [q1, p1]; simp, q2⟩
  · rw [if_neg heq, if_neg heq]
    obtain ⟨p1, p2⟩ := putbits_bits w (listMin ((n0 :: rest).map (·.afBits)) 0) n0.afW hI
    obtain ⟨q1, q2⟩ := putbits_bits _ (valueNbits (listMax ((n0 :: rest).map (·.afBits)) 0 - listMin ((n0 :: rest).map (·.afBits)) 0)) 6 p2
    -- the fold over nodes is the fold over their field values
    have hfold : ∀ (l : List Node) (w0 : W), (∀ n ∈ l, n.afW > 0) → ∀ (u k : Nat),
        l.foldl (fun w n => if n.afW > 0 then w.putbits (n.afBits - u) k else w) w0 =
        (l.map (·.afBits)).foldl (fun w v => w.putbits ((fun x => x - u) v) k) w0 := by
      intro l
      induction l with
      | nil => intro w0 _ u k; rfl
      | cons a l ih =>
        intro w0 h u k
        simp only [List.foldl_cons, List.map_cons, if_pos (h a (by simp))]
        exact ih _ (fun n hn => h n (by simp [hn])) u k
    simp only
    rw [hfold _ _ hall]
    obtain ⟨s1, s2⟩ := foldl_putbits_bits _ (fun x => x - listMin ((n0 :: rest).map (·.afBits)) 0)
      ((n0 :: rest).map (·.afBits)) _ q2
    exact ⟨by rw [s1, q1, p1]; simp, s2⟩

/-- **associated-field column round trip** (whole dataset): every subset gets its own associated
field back -/
theorem af_column_roundtrip (w : W) (hI : WInv w) (n0 : Node) (rest : List Node)
    (haf : ¬ (n0.enc.afNbits = 0 ∨ n0.afW = 0)) (hall : ∀ n ∈ n0 :: rest, n.afW > 0)
    (hw : n0.afW ≤ 62) (hv : ∀ n ∈ n0 :: rest, n.afBits < 2^n0.afW)
    (r : R) (hIr : RInv r) (tail : List Bool)
    (hb : w.bits ++ r.bits = (putAfCompressed w (n0 :: rest)).bits ++ tail)
    (cb : Node) (col : List Node) (hcaf : cb.enc.afNbits ≠ 0) (hcw : (mkvalNode cb).afW = n0.afW)
    (g : Range) (hfull : g.from_ ≤ 0) (hn : g.nsub = (n0 :: rest).length) (hcol : (cb :: col).length = g.nsub) :
    ∃ r', getAfCompressed r (cb :: col) g =
        some (r', zipWithNodes (fun n v => { mkvalNode n with afBits := v }) (cb :: col) ((n0 :: rest).map (·.afBits))) ∧
      r'.bits = tail ∧ RInv r' := by
  obtain ⟨pb, _⟩ := putAfCompressed_bits w hI n0 rest haf hall
  rw [pb, List.append_assoc] at hb
  have hb' := List.append_cancel_left hb
  generalize hvals : (n0 :: rest).map (·.afBits) = vals at *
  have hne : vals ≠ [] := by rw [← hvals]; simp
  have hvv : ∀ v ∈ vals, v < 2^n0.afW := by
    intro v hvm; rw [← hvals] at hvm
    obtain ⟨n, hn1, hn2⟩ := List.mem_map.mp hvm
    rw [← hn2]; exact hv n hn1
  obtain ⟨hmin1, hmin2⟩ := listMin_spec vals 0 hne
  obtain ⟨hmax1, hmax2⟩ := listMax_spec vals 0 hne
  have hminlt := hvv _ hmin2
  have hmaxlt := hvv _ hmax2
  have hvlen : vals.length = g.nsub := by rw [← hvals, hn]; simp
  have hafw1 : 1 ≤ n0.afW := by
    have := hall n0 (by simp); omega
  have hp62 : (2:Nat)^n0.afW ≤ 2^62 := Nat.pow_le_pow_right (by omega) hw
  unfold encAfCol at hb'
  simp only at hb'
  rw [← hcw] at hb'
  by_cases heq : listMin vals 0 = listMax vals 0
  · rw [if_pos heq] at hb'
    simp only [List.flatMap_nil, List.append_nil] at hb'
    obtain ⟨r', e, hbr, hIr'⟩ := getAfCompressed_const r cb col g (listMin vals 0) tail hIr hcaf
      (by rw [hcw]; omega) hb'
    refine ⟨r', ?_, hbr, hIr'⟩
    rw [e, hcw, Nat.mod_eq_of_lt hminlt]
    congr 1; congr 1
    symm
    apply zipWithNodes_const
    · rw [hcol, hvlen]
    · intro v hvm
      have := hmin1 v hvm
      have := hmax1 v hvm
      omega
  · rw [if_neg heq] at hb'
    have hsp : listMax vals 0 - listMin vals 0 < 2^64 - 1 := by
      have : (2:Nat)^62 < 2^64 - 1 := by decide
      omega
    obtain ⟨k1, k2, k3, k4⟩ := valueNbits_spec _ hsp
    generalize hk : valueNbits (listMax vals 0 - listMin vals 0) = k at *
    have hk64 : k < 64 := by
      by_contra hge
      have := k4 63 (by omega) (by omega)
      have : (2:Nat)^62 < 2^63 - 1 := by decide
      omega
    obtain ⟨r', e, hbr, hIr'⟩ := getAfCompressed_listed r cb col g (listMin vals 0) k
      (vals.map (· - listMin vals 0)) tail hIr hcaf (by rw [hcw]; omega) (by omega) hk64 hfull
      (by simp [hvlen]) hb'
    refine ⟨r', ?_, hbr, hIr'⟩
    rw [e, hcw, Nat.mod_eq_of_lt hminlt, zipWithNodes_map, zipWithNodes_map]
    congr 1; congr 1
    -- pointwise: (v - umin) % 2^k + umin = v
    have hpt : ∀ v ∈ vals, (v - listMin vals 0) % 2^k + listMin vals 0 = v := by
      intro v hvm
      have := hmin1 v hvm
      have := hmax1 v hvm
      rw [Nat.mod_eq_of_lt (by omega)]; omega
    apply zipWithNodes_congr
    intro n v hvm
    simp only [hpt v hvm]

/-! ### character column: writer and round trip -/

theorem reverse_dropWhile_split {α} (p : α → Bool) (l : List α) :
    l = (l.reverse.dropWhile p).reverse ++ (l.reverse.takeWhile p).reverse := by
  have := List.takeWhile_append_dropWhile (p := p) (l := l.reverse)
  have h2 := congrArg List.reverse this
  rw [List.reverse_append, List.reverse_reverse] at h2
  exact h2.symm

theorem takeWhile_eq_replicate (l : List Nat) : l.takeWhile (· = 32) = List.replicate (l.takeWhile (· = 32)).length 32 := by
  apply List.eq_replicate_iff.mpr
  refine ⟨rfl, ?_⟩
  intro b hb
  induction l with
  | nil => simp at hb
  | cons a l ih =>
    rw [List.takeWhile_cons] at hb
    by_cases h : a = 32
    · simp only [h, decide_true] at hb
      rcases List.mem_cons.mp hb with hb | hb
      · exact hb
      · exact ih hb
    · simp [h] at hb

/-- the significant part of a character value: cut to the field, trailing blanks dropped -/
def trimStr (s : List Nat) (enclen : Nat) : List Nat := ((s.take enclen).reverse.dropWhile (· = 32)).reverse

/-- padding the cut value is padding its significant part -/
theorem padded_of_trim (s : List Nat) (enclen : Nat) :
    s.take enclen ++ List.replicate (enclen - s.length) 32 =
      trimStr s enclen ++ List.replicate (enclen - (trimStr s enclen).length) 32 := by
  have hsplit := reverse_dropWhile_split (· = 32) (s.take enclen)
  have hrep := takeWhile_eq_replicate (s.take enclen).reverse
  generalize hj : ((s.take enclen).reverse.takeWhile (· = 32)).length = j at hrep
  have hlen : (s.take enclen).length = (trimStr s enclen).length + j := by
    conv => lhs; rw [hsplit]
    simp [trimStr, hj]
  unfold trimStr at hlen ⊢
  conv => lhs; rw [hsplit, hrep]
  rw [List.reverse_replicate, List.append_assoc, List.replicate_append_replicate]
  congr 2
  rw [List.length_take] at hlen
  omega

theorem strncmpNe_eq : ∀ (a b : List Nat), a.length = b.length → (∀ c ∈ a, c ≠ 0) → strncmpNe a b = false → a = b := by
  intro a
  induction a with
  | nil => intro b h _ _; cases b with
    | nil => rfl
    | cons _ _ => simp at h
  | cons x xs ih =>
    intro b h hz hn
    cases b with
    | nil => simp at h
    | cons y ys =>
      unfold strncmpNe at hn
      by_cases hxy : x ≠ y
      · simp [hxy] at hn
      · have hxy' : x = y := by simpa using hxy
        have hx0 : x ≠ 0 := hz x (by simp)
        simp only [hxy, if_false, hx0] at hn
        rw [hxy', ih ys (by simpa using h) (fun c hc => hz c (by simp [hc])) hn]

/-- values the encoder regards as equal are written as the same octets -/
theorem padded_eq_of_not_differs (a b : List Nat) (enclen : Nat) (hz : ∀ c ∈ trimStr a enclen, c ≠ 0)
    (h : strDiffers a b enclen = false) :
    a.take enclen ++ List.replicate (enclen - a.length) 32 = b.take enclen ++ List.replicate (enclen - b.length) 32 := by
  unfold strDiffers at h
  simp only [Bool.or_eq_false_iff, bne_eq_false_iff_eq, decide_eq_false_iff_not, ne_eq, not_not] at h
  have heq : trimStr a enclen = trimStr b enclen := strncmpNe_eq _ _ (by simpa [trimStr] using h.1) hz (by simpa [trimStr] using h.2)
  rw [padded_of_trim a, padded_of_trim b, heq]

theorem paddedString_length (n : Node) (h : 0 ≤ n.enc.nbits) : (paddedString n).length = (n.enc.nbits / 8).toNat := by
  unfold paddedString
  simp only [List.length_append, List.length_take, List.length_replicate]
  omega

theorem foldl_putPadString_bits : ∀ (col : List Node) (w : W), WInv w →
    (col.foldl (fun w n => w.putPadString (valueString n) (n.enc.nbits / 8).toNat) w).bits =
      w.bits ++ col.flatMap (fun n => (paddedString n).flatMap (bitsMSB 8)) ∧
    WInv (col.foldl (fun w n => w.putPadString (valueString n) (n.enc.nbits / 8).toNat) w) := by
  intro col
  induction col with
  | nil => intro w h; simp [h]
  | cons n ns ih =>
    intro w h
    obtain ⟨p1, p2⟩ := putPadString_bits w (valueString n) (n.enc.nbits / 8).toNat h
    obtain ⟨q1, q2⟩ := ih _ p2
    simp only [List.foldl_cons, List.flatMap_cons]
    exact ⟨by rw [q1, p1, List.append_assoc]; rfl, q2⟩

/-- does the encoder list the strings of this column one by one -/
def ccittDiffers (n0 : Node) (col : List Node) : Bool :=
  col.any fun n => strDiffers (valueString n0) (valueString n) (n.enc.nbits / 8).toNat

/-- **wire format of a compressed character column** -/
theorem putCcittCompressed_bits (w : W) (hI : WInv w) (n0 : Node) (rest : List Node) :
    (putCcittCompressed w (n0 :: rest)).bits =
      w.bits ++ (if ccittDiffers n0 (n0 :: rest) then
        (strPad none (n0.enc.nbits / 8).toNat).flatMap (bitsMSB 8) ++ bitsMSB 6 (n0.enc.nbits / 8).toNat ++
          (n0 :: rest).flatMap (fun n => (paddedString n).flatMap (bitsMSB 8))
        else (paddedString n0).flatMap (bitsMSB 8) ++ bitsMSB 6 0) ∧
    WInv (putCcittCompressed w (n0 :: rest)) := by
  unfold putCcittCompressed ccittDiffers
  simp only
  by_cases hd : ((n0 :: rest).any fun n => strDiffers (valueString n0) (valueString n) (n.enc.nbits / 8).toNat) = true
  · simp only [hd, Bool.not_true, Bool.false_eq_true, if_false, if_true]
    obtain ⟨p1, p2⟩ := foldl_putbits_bits 8 id (strPad none (n0.enc.nbits / 8).toNat) w hI
    simp only [id] at p1 p2
    have hps : w.putstring (strPad none (n0.enc.nbits / 8).toNat) =
        (strPad none (n0.enc.nbits / 8).toNat).foldl (fun w v => w.putbits v 8) w := rfl
    rw [hps]
    obtain ⟨q1, q2⟩ := putbits_bits _ (n0.enc.nbits / 8).toNat 6 p2
    obtain ⟨s1, s2⟩ := foldl_putPadString_bits (n0 :: rest) _ q2
    exact ⟨by rw [s1, q1, p1]; simp, s2⟩
  · simp only [hd, Bool.not_false, if_true, Bool.false_eq_true, if_false]
    obtain ⟨p1, p2⟩ := putPadString_bits w (valueString n0) (n0.enc.nbits / 8).toNat hI
    obtain ⟨q1, q2⟩ := putbits_bits _ 0 6 p2
    exact ⟨by rw [q1, p1]; simp [paddedString], q2⟩

/-- **character column round trip** (whole dataset): whether the encoder lists the strings or
announces one for all, every subset gets back the octets of its own value, blank padded to the
element width -/
theorem ccitt_column_roundtrip (w : W) (hI : WInv w) (n0 : Node) (rest : List Node)
    (h8 : 8 ≤ n0.enc.nbits) (hm8 : n0.enc.nbits % 8 = 0) (h63 : n0.enc.nbits / 8 ≤ 63)
    (hu : ∀ n ∈ n0 :: rest, n.enc.nbits = n0.enc.nbits)
    (hz : ∀ c ∈ trimStr (valueString n0) (n0.enc.nbits / 8).toNat, c ≠ 0)
    (r : R) (hIr : RInv r) (tail : List Bool)
    (hb : w.bits ++ r.bits = (putCcittCompressed w (n0 :: rest)).bits ++ tail)
    (cb : Node) (col : List Node) (hcnb : cb.enc.nbits = n0.enc.nbits)
    (hcu : ∀ n ∈ cb :: col, (mkvalNode n).val = (mkvalNode cb).val ∧ (mkvalNode n).enc.nbits = cb.enc.nbits)
    (g : Range) (hfull : g.from_ ≤ 0) (hn : g.nsub = (n0 :: rest).length) (hcol : (cb :: col).length = g.nsub) :
    ∃ r', getCcittCompressed r (cb :: col) g =
        some (r', zipWithStrs (fun n s => { mkvalNode n with
            val := (mkvalNode cb).val.setString (some s) (cb.enc.nbits / 8).toNat })
          (cb :: col) ((n0 :: rest).map (fun n => (paddedString n).map (· % 256)))) ∧
      r'.bits = tail ∧ RInv r' := by
  obtain ⟨pb, _⟩ := putCcittCompressed_bits w hI n0 rest
  rw [pb, List.append_assoc] at hb
  have hb' := List.append_cancel_left hb
  have hlen0 := paddedString_length n0 (by omega)
  have hlenpos : 0 < (n0.enc.nbits / 8).toNat := by omega
  by_cases hd : ccittDiffers n0 (n0 :: rest) = true
  · rw [if_pos hd] at hb'
    have hr0len : (strPad none (n0.enc.nbits / 8).toNat).length = (cb.enc.nbits / 8).toNat := by
      rw [hcnb]; unfold strPad; simp
    have hsl : ∀ s ∈ (n0 :: rest).map paddedString, s.length = (n0.enc.nbits / 8).toNat := by
      intro s hs
      obtain ⟨n, hn1, rfl⟩ := List.mem_map.mp hs
      rw [paddedString_length n (by rw [hu n hn1]; omega), hu n hn1]
    have hflat : (n0 :: rest).flatMap (fun n => (paddedString n).flatMap (bitsMSB 8)) =
        ((n0 :: rest).map paddedString).flatMap (fun s => s.flatMap (bitsMSB 8)) := by
      rw [List.flatMap_map]
    rw [hflat] at hb'
    obtain ⟨r', e, hbr, hIr'⟩ := getCcittCompressed_listed r cb col g (strPad none (n0.enc.nbits / 8).toNat)
      (n0.enc.nbits / 8).toNat ((n0 :: rest).map paddedString) tail hIr hr0len (by rw [hr0len, hcnb]; exact hlenpos)
      hlenpos (by omega) (by intro h; rw [hcnb]; omega) hfull (by simp [hn]) hsl hb'
    refine ⟨r', ?_, hbr, hIr'⟩
    rw [e, List.map_map]
    congr 1; congr 1
    -- every decoder copy has the same fresh value and width
    have : ∀ (ns : List Node) (ss : List (List Nat)), (∀ n ∈ ns, (mkvalNode n).val = (mkvalNode cb).val ∧ (mkvalNode n).enc.nbits = cb.enc.nbits) →
        zipWithStrs (fun n s => { mkvalNode n with val := (mkvalNode n).val.setString (some s) ((mkvalNode n).enc.nbits / 8).toNat }) ns ss =
        zipWithStrs (fun n s => { mkvalNode n with val := (mkvalNode cb).val.setString (some s) (cb.enc.nbits / 8).toNat }) ns ss := by
      intro ns
      induction ns with
      | nil => intro ss _; cases ss <;> simp [zipWithStrs]
      | cons a as ih =>
        intro ss h
        cases ss with
        | nil => simp [zipWithStrs]
        | cons x xs =>
          simp only [zipWithStrs]
          rw [(h a (by simp)).1, (h a (by simp)).2, ih xs (fun n hn => h n (by simp [hn]))]
    rw [this _ _ hcu]
    rfl
  · have hd' : ccittDiffers n0 (n0 :: rest) = false := by simpa using hd
    rw [if_neg hd] at hb'
    obtain ⟨r', e, hbr, hIr'⟩ := getCcittCompressed_const r cb col g (paddedString n0) tail hIr
      (by rw [hlen0, hcnb]) (by rw [hlen0]; exact hlenpos) hb'
    refine ⟨r', ?_, hbr, hIr'⟩
    rw [e]
    congr 1; congr 1
    -- all strings are written as the octets of the first
    have hall : ∀ n ∈ n0 :: rest, paddedString n = paddedString n0 := by
      intro n hn1
      unfold ccittDiffers at hd'
      rw [List.any_eq_false] at hd'
      have := hd' n hn1
      have hnd : strDiffers (valueString n0) (valueString n) (n0.enc.nbits / 8).toNat = false := by
        rw [hu n hn1] at this; simpa using this
      unfold paddedString
      rw [hu n hn1]
      exact (padded_eq_of_not_differs _ _ _ hz hnd).symm
    have hlist : (n0 :: rest).map (fun n => (paddedString n).map (· % 256)) =
        List.replicate (n0 :: rest).length ((paddedString n0).map (· % 256)) := by
      apply List.eq_replicate_iff.mpr
      refine ⟨by simp, ?_⟩
      intro x hx
      obtain ⟨n, hn1, rfl⟩ := List.mem_map.mp hx
      rw [hall n hn1]
    rw [hlist]
    have hgen : ∀ (ns : List Node) (k : Nat) (s : List Nat), ns.length = k →
        ns.map (fun n => { mkvalNode n with val := (mkvalNode cb).val.setString (some s) (cb.enc.nbits / 8).toNat }) =
        zipWithStrs (fun n s => { mkvalNode n with val := (mkvalNode cb).val.setString (some s) (cb.enc.nbits / 8).toNat })
          ns (List.replicate k s) := by
      intro ns
      induction ns with
      | nil => intro k s _; cases k <;> simp [zipWithStrs, List.replicate]
      | cons a as ih =>
        intro k s hk
        cases k with
        | zero => simp at hk
        | succ k => simp only [List.map_cons, List.replicate_succ, zipWithStrs]; rw [ih k s (by simpa using hk)]
    exact hgen _ _ _ (by rw [hcol, hn])

/-! ### compressed IEEE column, reader side -/

/-- the value a compressed IEEE column gives a node (`setv` of `getIeeeCompressed`) -/
def ieeeSetv (n : Node) (v : Nat) : Node :=
  let m := mkvalNode n
  if m.enc.nbits = 64 then { m with val := m.val.setDouble (SF.ofDoubleBits v) }
  else { m with val := m.val.setFloat (SF.ofFloatBits v) }

/-- **constant IEEE column** (`NBINC = 0`): every subset of the request gets the value written once, and nothing
is skipped whatever the request — the reader stands right behind the 6 bits of NBINC -/
theorem getIeeeCompressed_const (r : R) (cb : Node) (col : List Node) (g : Range) (v0 : Nat)
    (rest : List Bool) (hI : RInv r) (hnb : 1 ≤ cb.enc.nbits ∧ cb.enc.nbits ≤ 64)
    (hb : r.bits = bitsMSB cb.enc.nbits.toNat v0 ++ bitsMSB 6 0 ++ rest) :
    ∃ r', getIeeeCompressed r (cb :: col) g =
        some (r', (cb :: col).map (fun n => ieeeSetv n (v0 % 2^cb.enc.nbits.toNat))) ∧
      r'.bits = rest ∧ RInv r' := by
  rw [List.append_assoc] at hb
  obtain ⟨r1, e1, hb1, hI1⟩ := getbits_view r cb.enc.nbits.toNat v0 _ hI (by omega) (by omega) hb
  obtain ⟨r2, e2, hb2, hI2⟩ := getbits_view r1 6 0 _ hI1 (by omega) (by omega) hb1
  refine ⟨r2, ?_, hb2, hI2⟩
  unfold getIeeeCompressed
  simp only [e1, e2]
  have h0 : (0 % 2^6 : Nat) = 0 := by decide
  rw [h0]
  simp [ieeeSetv]

/-- **listed IEEE column** (`NBINC > 0`): the values follow in full, one per subset; a request `from..to` gets
exactly that slice and the reader ends right behind the column -/
theorem getIeeeCompressed_listed (r : R) (cb : Node) (col : List Node) (g : Range) (v0 k : Nat)
    (vals : List Nat) (rest : List Bool) (hI : RInv r) (hnb : 1 ≤ cb.enc.nbits ∧ cb.enc.nbits ≤ 64)
    (hk0 : 0 < k) (hk63 : k < 64) (hg : g.OK) (hlen : vals.length = g.nsub)
    (hb : r.bits = bitsMSB cb.enc.nbits.toNat v0 ++ bitsMSB 6 k ++ vals.flatMap (bitsMSB cb.enc.nbits.toNat) ++ rest) :
    ∃ r', getIeeeCompressed r (cb :: col) g =
        some (r', zipWithNodes ieeeSetv (cb :: col) ((g.slice vals).map (· % 2^cb.enc.nbits.toNat))) ∧
      r'.bits = rest ∧ RInv r' := by
  generalize hw : cb.enc.nbits.toNat = w at hb ⊢
  have hw1 : 0 < w := by omega
  have hw2 : w ≤ 64 := by omega
  rw [List.append_assoc, List.append_assoc] at hb
  obtain ⟨r1, e1, hb1, hI1⟩ := getbits_view r w v0 _ hI hw1 hw2 hb
  obtain ⟨r2, e2, hb2, hI2⟩ := getbits_view r1 6 k _ hI1 (by omega) (by omega) hb1
  have hk6 : k % 2^6 = k := Nat.mod_eq_of_lt (by omega)
  rw [hk6] at e2
  let a : Nat := if g.from_ > 0 then (g.from_ - 1).toNat else 0
  let pre := vals.take a
  let mid := g.slice vals
  let post := if g.from_ > 0 then (vals.drop a).drop g.count else []
  have hsplit : vals = pre ++ mid ++ post := by
    simp only [pre, mid, post, a, Range.slice]
    by_cases hf : g.from_ > 0
    · simp only [if_pos hf]
      rw [List.append_assoc, List.take_append_drop, List.take_append_drop]
    · simp [if_neg hf]
  have hprelen : pre.length = a := by
    simp only [pre, a]
    rw [List.length_take]
    rcases hg with h | ⟨h1, h2, h3⟩
    · rw [if_neg (by omega)]; omega
    · rw [if_pos (by omega)]; omega
  have hmidlen : mid.length = g.count := by
    simp only [mid, Range.slice, Range.count, a]
    rcases hg with h | ⟨h1, h2, h3⟩
    · rw [if_neg (by omega), if_neg (by omega)]; exact hlen
    · rw [if_pos (by omega), if_pos (by omega), List.length_take, List.length_drop]; omega
  rw [hsplit, List.flatMap_append, List.flatMap_append, List.append_assoc, List.append_assoc] at hb2
  have hs1 := skipN_view r2 (pre.flatMap (bitsMSB w)) _ hI2 hb2 ((w : Int) * (g.from_ - 1))
  have hr3 : ∃ r3, (if g.from_ > 1 then skipN r2 ((w : Int) * (g.from_ - 1)) else r2) = r3 ∧
      r3.bits = mid.flatMap (bitsMSB w) ++ (post.flatMap (bitsMSB w) ++ rest) ∧ RInv r3 := by
    by_cases hf : g.from_ > 1
    · rw [if_pos hf]
      have := hs1 (by
        rw [flatMap_bitsMSB_length, hprelen]; simp only [a]; rw [if_pos (by omega)]
        push_cast; rw [Int.toNat_of_nonneg (by omega)])
      exact ⟨_, rfl, this.1, this.2⟩
    · rw [if_neg hf]
      have hpre0 : pre = [] := by
        apply List.length_eq_zero_iff.mp; rw [hprelen]; simp only [a]; split <;> omega
      rw [hpre0] at hb2
      exact ⟨r2, rfl, by simpa using hb2, hI2⟩
  obtain ⟨r3, e3, hb3, hI3⟩ := hr3
  obtain ⟨r4, e4, hb4, hI4⟩ := readIncs_view w hw1 hw2 mid r3 _ hI3 hb3
  rw [hmidlen] at e4
  have hs2 := skipN_view r4 (post.flatMap (bitsMSB w)) rest hI4 hb4 ((w : Int) * ((g.nsub : Int) - g.to))
  have hr5 : ∃ r5, (if g.from_ > 0 then skipN r4 ((w : Int) * ((g.nsub : Int) - g.to)) else r4) = r5 ∧
      r5.bits = rest ∧ RInv r5 := by
    by_cases hf : g.from_ > 0
    · rw [if_pos hf]
      have hpostlen : post.length = (g.nsub - g.to.toNat) := by
        simp only [post, a]; rw [if_pos hf, if_pos hf, List.length_drop, List.length_drop, hlen]
        rcases hg with h | ⟨h1, h2, h3⟩
        · omega
        · simp only [Range.count]; rw [if_pos hf]; omega
      have := hs2 (by
        rw [flatMap_bitsMSB_length, hpostlen]
        rcases hg with h | ⟨h1, h2, h3⟩
        · omega
        · have : ((g.nsub - g.to.toNat : Nat) : Int) = (g.nsub : Int) - g.to := by omega
          push_cast; rw [this])
      exact ⟨_, rfl, this.1, this.2⟩
    · rw [if_neg hf]
      have : post = [] := by simp only [post]; rw [if_neg hf]
      rw [this] at hb4
      exact ⟨r4, rfl, by simpa using hb4, hI4⟩
  obtain ⟨r5, e5, hb5, hI5⟩ := hr5
  refine ⟨r5, ?_, hb5, hI5⟩
  unfold getIeeeCompressed
  simp only [hw, e1, e2]
  have hk0' : ¬ (k = 0) := by omega
  simp only [hk0', if_false]
  try simp only [e3, e4, e5]
  simp [mid]
  rfl

/-! ### compressed IEEE column, writer to reader -/

/-- the bits `bufr_put_ieeefp_compressed` appends -/
theorem putIeeeCompressed_bits (w : W) (hI : WInv w) (n0 : Node) (rest : List Node) (nb : Nat)
    (hnb : nb = if n0.enc.nbits = 64 then 64 else 32) :
    (putIeeeCompressed w (n0 :: rest)).bits = w.bits ++
      (if ((n0 :: rest).map valueBits).all (· = valueBits n0) then bitsMSB nb (valueBits n0) ++ bitsMSB 6 0
       else bitsMSB nb 0 ++ bitsMSB 6 (nb / 8) ++ ((n0 :: rest).map valueBits).flatMap (bitsMSB nb)) ∧
    WInv (putIeeeCompressed w (n0 :: rest)) := by
  unfold putIeeeCompressed
  simp only
  rw [← hnb]
  by_cases hall : ((n0 :: rest).map valueBits).all (· = valueBits n0) = true
  · rw [if_pos hall, if_pos hall]
    obtain ⟨p1, i1⟩ := putbits_bits w (valueBits n0) nb hI
    obtain ⟨p2, i2⟩ := putbits_bits _ 0 6 i1
    exact ⟨by rw [p2, p1, List.append_assoc], i2⟩
  · rw [if_neg hall, if_neg hall]
    obtain ⟨p1, i1⟩ := putbits_bits w 0 nb hI
    obtain ⟨p2, i2⟩ := putbits_bits _ (nb / 8) 6 i1
    obtain ⟨p3, i3⟩ := foldl_putbits_bits nb id ((n0 :: rest).map valueBits) _ i2
    simp only [id_eq, List.map_id_fun, id] at p3 i3
    refine ⟨?_, i3⟩
    rw [p3, p2, p1]
    simp [List.append_assoc]

/-- **compressed IEEE column round trip**: whatever the encoder writes for a column of IEEE fields — the value once
when all subsets hold the same bits, every value in full otherwise — the decoder gives each subset of the request
its own bits back (for the whole dataset or any slice) and ends right behind the column -/
theorem ieee_column_roundtrip (w : W) (hI : WInv w) (n0 : Node) (rest : List Node)
    (r : R) (hIr : RInv r) (tail : List Bool)
    (hb : w.bits ++ r.bits = (putIeeeCompressed w (n0 :: rest)).bits ++ tail)
    (cb : Node) (col : List Node) (hnb : cb.enc.nbits = if n0.enc.nbits = 64 then 64 else 32)
    (g : Range) (hg : g.OK) (hn : g.nsub = (n0 :: rest).length) (hcol : (cb :: col).length = g.count) :
    ∃ r', getIeeeCompressed r (cb :: col) g =
        some (r', zipWithNodes ieeeSetv (cb :: col)
          ((g.slice ((n0 :: rest).map valueBits)).map (· % 2^cb.enc.nbits.toNat))) ∧
      r'.bits = tail ∧ RInv r' := by
  obtain ⟨pb, _⟩ := putIeeeCompressed_bits w hI n0 rest _ rfl
  rw [pb, List.append_assoc] at hb
  have hb' := List.append_cancel_left hb
  have hnbn : cb.enc.nbits.toNat = (if n0.enc.nbits = 64 then 64 else 32 : Nat) := by
    rw [hnb]; split <;> rfl
  have hrange : 1 ≤ cb.enc.nbits ∧ cb.enc.nbits ≤ 64 := by rw [hnb]; split <;> omega
  by_cases hall : ((n0 :: rest).map valueBits).all (· = valueBits n0) = true
  · rw [if_pos hall, ← hnbn] at hb'
    obtain ⟨r', e, hr, hi⟩ := getIeeeCompressed_const r cb col g (valueBits n0) tail hIr hrange hb'
    refine ⟨r', ?_, hr, hi⟩
    rw [e]
    congr 2
    -- every value of the slice is the common value
    have hconst : ∀ v ∈ g.slice ((n0 :: rest).map valueBits), v = valueBits n0 := by
      intro v hv
      have := Range.slice_mem g _ v hv
      exact of_decide_eq_true (List.all_eq_true.mp hall v this)
    have hlen : (g.slice ((n0 :: rest).map valueBits)).length = (cb :: col).length := by
      rw [Range.slice_length g hg _ (by simp [hn]), hcol]
    exact (zipWithNodes_const ieeeSetv (valueBits n0 % 2^cb.enc.nbits.toNat) (cb :: col) _ (by rw [List.length_map, hlen])
      (by intro v hv; obtain ⟨x, hx, rfl⟩ := List.mem_map.mp hv; rw [hconst x hx])).symm
  · rw [if_neg hall, ← hnbn] at hb'
    have hk : (if n0.enc.nbits = 64 then 64 else 32 : Nat) / 8 > 0 ∧ (if n0.enc.nbits = 64 then 64 else 32 : Nat) / 8 < 64 := by
      split <;> omega
    rw [hnbn] at hb'
    rw [← hnbn] at hb'
    have hb'' : r.bits = bitsMSB cb.enc.nbits.toNat 0 ++ bitsMSB 6 ((if n0.enc.nbits = 64 then 64 else 32 : Nat) / 8) ++
        ((n0 :: rest).map valueBits).flatMap (bitsMSB cb.enc.nbits.toNat) ++ tail := by
      rw [hb']
      simp [hnbn, List.append_assoc]
    exact getIeeeCompressed_listed r cb col g 0 _ _ tail hIr hrange hk.1 hk.2 hg (by simp [hn]) hb''

end Bufr
