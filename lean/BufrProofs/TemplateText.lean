import BufrModel.TemplateText
import BufrProofs.TemplateDigits
import BufrProofs.TemplateReal
import Mathlib.Tactic.Ring
import Mathlib.Tactic.Linarith
/-
  Helper lemmas for C18 (template text form): decimal digits and `atoi`, tokenisers, the line
  splitter, and the line-by-line reading of a saved template.
-/
namespace Bufr
namespace TT

/-! ### `%d` read back by `atoi` / `atol` -/

theorem strtolC_printInt (z : Int) (h : fitsI64 z = true) : strtolC (printInt z) = z := by
  simp only [fitsI64, decide_eq_true_eq] at h
  unfold strtolC printInt
  by_cases hz : z < 0
  · simp only [hz, if_true]
    rw [dropWhile_head isSpace 45 _ (by decide)]
    simp only [takeSign]
    have hv := digitsVal_natDigits z.natAbs [] (by simp)
    simp only [List.append_nil] at hv
    simp only [hv, if_true]
    have : -((z.natAbs : Nat) : Int) = z := by omega
    rw [this]
    split
    · omega
    · split
      · omega
      · rfl
  · simp only [hz, if_false]
    obtain ⟨c, r, hcr, hc⟩ := natDigits_head z.toNat
    rw [hcr, dropWhile_head isSpace c r (isDigit_not_space c hc), ← hcr]
    have h45 : (natDigits z.toNat).head? ≠ some 45 := by
      rw [hcr]; simp; intro h; subst h; simp [isDigit] at hc
    have h43 : (natDigits z.toNat).head? ≠ some 43 := by
      rw [hcr]; simp; intro h; subst h; simp [isDigit] at hc
    rw [takeSign_other _ h45 h43]
    have hv := digitsVal_natDigits z.toNat [] (by simp)
    simp only [List.append_nil] at hv
    simp only [hv]
    have : ((z.toNat : Nat) : Int) = z := by omega
    simp only [this, Bool.false_eq_true, if_false]
    split
    · omega
    · split
      · omega
      · rfl

theorem wrapI32_fits (z : Int) (h : fitsI32 z = true) : SF.wrapI32 z = z := by
  simp only [fitsI32, decide_eq_true_eq] at h
  unfold SF.wrapI32
  simp only
  split <;> omega

theorem fitsI32_fitsI64 (z : Int) (h : fitsI32 z = true) : fitsI64 z = true := by
  simp only [fitsI32, fitsI64, decide_eq_true_eq] at *; omega

theorem atoiC_printInt (z : Int) (h : fitsI32 z = true) : atoiC (printInt z) = z := by
  unfold atoiC
  rw [strtolC_printInt z (fitsI32_fitsI64 z h), wrapI32_fits z h]

theorem atolC_printInt (z : Int) (h : fitsI64 z = true) : atolC (printInt z) = z := strtolC_printInt z h


/-! ### lines -/

theorem splitLines_cur (l cur rest : List Nat) (hl : ∀ c ∈ l, c ≠ 10) :
    splitLines (l ++ 10 :: rest) cur = (cur.reverse ++ l ++ [10]) :: splitLines rest [] := by
  induction l generalizing cur with
  | nil => simp [splitLines]
  | cons c l ih =>
    have hc : c ≠ 10 := hl c (by simp)
    simp only [List.cons_append, splitLines, hc, if_false]
    rw [ih (c :: cur) (fun x hx => hl x (by simp [hx]))]
    simp

/-- a text made of a newline-free line, its newline, and more text -/
theorem splitLines_line (l rest : List Nat) (hl : ∀ c ∈ l, c ≠ 10) :
    splitLines (l ++ 10 :: rest) [] = (l ++ [10]) :: splitLines rest [] := by
  have := splitLines_cur l [] rest hl
  simpa using this

/-! ### tokens -/

theorem dropWhile_all (p : Nat → Bool) (l r : List Nat) (h : ∀ c ∈ l, p c = true) : (l ++ r).dropWhile p = r.dropWhile p := by
  induction l with
  | nil => rfl
  | cons c l ih =>
    simp only [List.cons_append, List.dropWhile_cons, h c (by simp), if_true]
    exact ih (fun x hx => h x (by simp [hx]))

theorem takeWhile_stop (p : Nat → Bool) (l : List Nat) (d : Nat) (r : List Nat) (h : ∀ c ∈ l, p c = true) (hd : p d = false) :
    (l ++ d :: r).takeWhile p = l := by
  induction l with
  | nil => simp [List.takeWhile, hd]
  | cons c l ih =>
    simp only [List.cons_append, List.takeWhile_cons, h c (by simp), if_true]
    rw [ih (fun x hx => h x (by simp [hx]))]

theorem dropWhile_stop (p : Nat → Bool) (l : List Nat) (d : Nat) (r : List Nat) (h : ∀ c ∈ l, p c = true) (hd : p d = false) :
    (l ++ d :: r).dropWhile p = d :: r := by
  rw [dropWhile_all p l _ h]
  simp [List.dropWhile, hd]

theorem takeWhile_all (p : Nat → Bool) (l : List Nat) (h : ∀ c ∈ l, p c = true) : l.takeWhile p = l := by
  induction l with
  | nil => rfl
  | cons c l ih =>
    simp only [List.takeWhile_cons, h c (by simp), if_true]
    rw [ih (fun x hx => h x (by simp [hx]))]

theorem dropWhile_all_nil (p : Nat → Bool) (l : List Nat) (h : ∀ c ∈ l, p c = true) : l.dropWhile p = [] := by
  induction l with
  | nil => rfl
  | cons c l ih =>
    simp only [List.dropWhile_cons, h c (by simp), if_true]
    exact ih (fun x hx => h x (by simp [hx]))

theorem cstr_id (l : List Nat) (h : ∀ c ∈ l, c ≠ 0) : cstr l = l := by
  unfold cstr
  apply takeWhile_all
  intro c hc
  simp [h c hc]

/-- `strtok_r` on `delimiters* token delimiter rest` -/
theorem nextTok_mid (isDelim : Nat → Bool) (pre tok : List Nat) (d : Nat) (rest : List Nat)
    (hpre : ∀ c ∈ pre, isDelim c = true) (htok : ∀ c ∈ tok, isDelim c = false) (hne : tok ≠ [])
    (hd : isDelim d = true) :
    nextTok isDelim (pre ++ tok ++ d :: rest) = some (tok, d :: rest) := by
  unfold nextTok
  rw [List.append_assoc, dropWhile_all isDelim pre _ hpre]
  cases tok with
  | nil => exact absurd rfl hne
  | cons t ts =>
    have ht : isDelim t = false := htok t (by simp)
    have hdw : ((t :: ts) ++ d :: rest).dropWhile isDelim = (t :: ts) ++ d :: rest := by
      simp [List.dropWhile, ht]
    rw [hdw]
    have h1 : ∀ c ∈ t :: ts, (fun c => !isDelim c) c = true := by
      intro c hc; simp [htok c hc]
    have h2 : (fun c => !isDelim c) d = false := by simp [hd]
    simp only []
    rw [takeWhile_stop _ (t :: ts) d rest h1 h2, dropWhile_stop _ (t :: ts) d rest h1 h2]
    simp

/-- nothing but delimiters: no token -/
theorem nextTok_none (isDelim : Nat → Bool) (l : List Nat) (h : ∀ c ∈ l, isDelim c = true) : nextTok isDelim l = none := by
  unfold nextTok
  rw [dropWhile_all_nil isDelim l h]; rfl

/-! ### values -/

theorem closeQuote_savable (bs : List Nat) (tail : List Nat) (hbs : strSavable bs = true) (ht : endOrDelim tail = true) :
    closeQuote (bs ++ 34 :: tail) = some (bs ++ [34], tail) := by
  induction bs with
  | nil => simp [closeQuote, ht]
  | cons c cs ih =>
    unfold strSavable at hbs
    simp only [Bool.and_eq_true, Bool.not_eq_true'] at hbs
    obtain ⟨⟨⟨_, _⟩, hq⟩, hcs⟩ := hbs
    simp only [List.cons_append, closeQuote]
    have hcond : (decide (c = 34) && endOrDelim (cs ++ 34 :: tail)) = false := by
      by_cases hc : c = 34
      · subst hc
        cases cs with
        | nil => simp [endOrDelim, delimVal]
        | cons e es => simpa [endOrDelim, nextDelim] using hq
      · simp [hc]
    rw [hcond]
    simp only [Bool.false_eq_true, if_false]
    rw [ih hcs]
    rfl

theorem span_stop (p : Nat → Bool) (l tail : List Nat) (h : ∀ c ∈ l, p c = true)
    (ht : ∀ d, tail.head? = some d → p d = false) :
    (l ++ tail).takeWhile p = l ∧ (l ++ tail).dropWhile p = tail := by
  cases tail with
  | nil => simp only [List.append_nil]; exact ⟨takeWhile_all p l h, dropWhile_all_nil p l h⟩
  | cons d r => exact ⟨takeWhile_stop p l d r h (ht d rfl), dropWhile_stop p l d r h (ht d rfl)⟩

/-- a value written without quotes: not empty, does not begin with a quote, holds no delimiter -/
def PlainTok (isDelim : Nat → Bool) (tok : List Nat) : Prop :=
  tok ≠ [] ∧ tok.head? ≠ some 34 ∧ ∀ c ∈ tok, isDelim c = false

theorem nextValue_plain (isDelim : Nat → Bool) (pre tok tail : List Nat)
    (hpre : ∀ c ∈ pre, isDelim c = true) (htok : PlainTok isDelim tok)
    (ht : ∀ d, tail.head? = some d → isDelim d = true) :
    nextValue isDelim (pre ++ tok ++ tail) = some (tok, tail.drop 1) := by
  obtain ⟨hne, hq, hnd⟩ := htok
  unfold nextValue
  rw [List.append_assoc, dropWhile_all isDelim pre _ hpre]
  cases tok with
  | nil => exact absurd rfl hne
  | cons t ts =>
    have ht0 : isDelim t = false := hnd t (by simp)
    have hdw : ((t :: ts) ++ tail).dropWhile isDelim = t :: (ts ++ tail) := by
      simp [List.dropWhile, ht0]
    rw [hdw]
    have ht34 : t ≠ 34 := by intro h; subst h; simp at hq
    simp only [ht34, if_false]
    have h1 : ∀ c ∈ t :: ts, (fun c => !isDelim c) c = true := by
      intro c hc; simp [hnd c hc]
    have h2 : ∀ d, tail.head? = some d → (fun c => !isDelim c) d = false := by
      intro d hd; simp [ht d hd]
    obtain ⟨a, b⟩ := span_stop _ (t :: ts) tail h1 h2
    rw [← List.cons_append, a, b]
    simp

theorem nextValue_quoted (isDelim : Nat → Bool) (pre bs tail : List Nat)
    (hpre : ∀ c ∈ pre, isDelim c = true) (hbs : strSavable bs = true) (hq : isDelim 34 = false)
    (ht1 : endOrDelim tail = true) (ht2 : ∀ d, tail.head? = some d → isDelim d = true) :
    nextValue isDelim (pre ++ (34 :: bs ++ [34]) ++ tail) = some (34 :: bs ++ [34], tail.drop 1) := by
  unfold nextValue
  rw [List.append_assoc, dropWhile_all isDelim pre _ hpre]
  have hdw : ((34 :: bs ++ [34]) ++ tail).dropWhile isDelim = 34 :: (bs ++ 34 :: tail) := by
    simp [List.dropWhile, hq]
  rw [hdw]
  simp only [if_true]
  rw [closeQuote_savable bs tail hbs ht1]
  simp only
  have h2 : ∀ d, tail.head? = some d → (fun c => !isDelim c) d = false := by
    intro d hd; simp [ht2 d hd]
  obtain ⟨a, b⟩ := span_stop (fun c => !isDelim c) [] tail (by simp) h2
  simp only [List.nil_append] at a b
  rw [a, b]
  simp

/-! ### one saved value -/

theorem strtod_printReal (q : Rat) (h : isDouble q = true) : strtodC (printReal q) = .fin q := by
  unfold printReal
  simp only
  split
  · assumption
  · exact strtod_printG17 q h

theorem printReal_chars (q : Rat) : printReal q ≠ [] ∧ ∀ c ∈ printReal q, realChar c = true := by
  unfold printReal
  simp only
  split
  · exact printG_chars 15 q
  · exact printG_chars 17 q

/-- the delimiter sets of the value tokeniser hold nothing but tab, newline, comma and `=` -/
def DelimOK (isDelim : Nat → Bool) : Prop := ∀ c, isDelim c = true → (c = 9 ∨ c = 10 ∨ c = 44 ∨ c = 61)

theorem delimVal_ok : DelimOK delimVal := by
  intro c h; simp [delimVal] at h; omega
theorem delimVal1_ok : DelimOK delimVal1 := by
  intro c h; simp [delimVal1] at h; omega

theorem plain_of_chars (isDelim : Nat → Bool) (hd : DelimOK isDelim) (tok : List Nat) (hne : tok ≠ [])
    (h : ∀ c ∈ tok, c ≠ 9 ∧ c ≠ 10 ∧ c ≠ 44 ∧ c ≠ 61 ∧ c ≠ 34) : PlainTok isDelim tok := by
  refine ⟨hne, ?_, ?_⟩
  · cases tok with
    | nil => exact absurd rfl hne
    | cons t ts => simp; exact (h t (by simp)).2.2.2.2
  · intro c hc
    by_contra hcon
    have := hd c (by simpa using hcon)
    have := h c hc
    omega

theorem printInt_chars (z : Int) : printInt z ≠ [] ∧ ∀ c ∈ printInt z, (isDigit c = true ∨ c = 45) := by
  unfold printInt
  split
  · refine ⟨by simp, ?_⟩
    intro c hc
    simp at hc
    rcases hc with h | h
    · exact Or.inr h
    · exact Or.inl (natDigits_isDigit _ c h)
  · exact ⟨natDigits_ne_nil _, fun c hc => Or.inl (natDigits_isDigit _ c hc)⟩

theorem realChar_safe (c : Nat) (h : realChar c = true) : c ≠ 0 ∧ c ≠ 9 ∧ c ≠ 10 ∧ c ≠ 44 ∧ c ≠ 61 ∧ c ≠ 34 ∧ c ≠ 77 := by
  simp [realChar, isDigit] at h; omega

theorem intChar_safe (c : Nat) (h : isDigit c = true ∨ c = 45) : c ≠ 0 ∧ c ≠ 9 ∧ c ≠ 10 ∧ c ≠ 44 ∧ c ≠ 61 ∧ c ≠ 34 ∧ c ≠ 77 := by
  simp [isDigit] at h; omega

/-- what `bufr_save_template` writes for a value: a plain token or a quoted string -/
def SavedTok (isDelim : Nat → Bool) (tok : List Nat) : Prop :=
  PlainTok isDelim tok ∨ ∃ bs, tok = 34 :: bs ++ [34] ∧ strSavable bs = true

theorem kwMSNG_plain (isDelim : Nat → Bool) (hd : DelimOK isDelim) : PlainTok isDelim kwMSNG :=
  plain_of_chars isDelim hd kwMSNG (by decide) (by decide)

theorem saveVal_tok (isDelim : Nat → Bool) (hd : DelimOK isDelim) (vt : VT) (vlen : Nat) (v : Val)
    (h : valSavable vt vlen v = true) : SavedTok isDelim (saveVal v) := by
  cases v with
  | none => simp [valSavable] at h
  | i32 z =>
    simp only [saveVal]
    split
    · exact Or.inl (kwMSNG_plain isDelim hd)
    · obtain ⟨a, b⟩ := printInt_chars z
      exact Or.inl (plain_of_chars isDelim hd _ a (fun c hc => by have := intChar_safe c (b c hc); omega))
  | i64 z =>
    simp only [saveVal]
    split
    · exact Or.inl (kwMSNG_plain isDelim hd)
    · obtain ⟨a, b⟩ := printInt_chars z
      exact Or.inl (plain_of_chars isDelim hd _ a (fun c hc => by have := intChar_safe c (b c hc); omega))
  | f32 x => simp [valSavable] at h
  | f64 x =>
    cases x with
    | fin q =>
      simp only [saveVal]
      split
      · exact Or.inl (kwMSNG_plain isDelim hd)
      · obtain ⟨a, b⟩ := printReal_chars q
        exact Or.inl (plain_of_chars isDelim hd _ a (fun c hc => by have := realChar_safe c (b c hc); omega))
    | nan => simp [valSavable] at h
    | inf n => simp [valSavable] at h
  | str bs =>
    simp only [valSavable, Bool.and_eq_true, decide_eq_true_eq] at h
    right
    refine ⟨bs, ?_, h.2⟩
    have hnz : ∀ c ∈ bs, (fun x => decide (x ≠ 0)) c = true := by
      have : ∀ (l : List Nat), strSavable l = true → ∀ c ∈ l, c ≠ 0 := by
        intro l
        induction l with
        | nil => intro _ c hc; simp at hc
        | cons a l ih =>
          intro hl c hc
          unfold strSavable at hl
          simp only [Bool.and_eq_true, Bool.not_eq_true', decide_eq_true_eq] at hl
          rcases List.mem_cons.mp hc with rfl | hc
          · exact hl.1.1.1
          · exact ih hl.2 c hc
      intro c hc; simp [this bs h.2 c hc]
    simp only [saveVal, takeWhile_all _ bs hnz]
    simp

theorem strSavable_chars (l : List Nat) (h : strSavable l = true) : ∀ c ∈ l, c ≠ 0 ∧ c ≠ 10 := by
  induction l with
  | nil => intro c hc; simp at hc
  | cons a l ih =>
    intro c hc
    unfold strSavable at h
    simp only [Bool.and_eq_true, Bool.not_eq_true', decide_eq_true_eq] at h
    rcases List.mem_cons.mp hc with rfl | hc
    · exact ⟨h.1.1.1, h.1.1.2⟩
    · exact ih h.2 c hc

/-- no NUL and no newline in a saved value -/
theorem saveVal_chars (vt : VT) (vlen : Nat) (v : Val) (h : valSavable vt vlen v = true) :
    ∀ c ∈ saveVal v, c ≠ 0 ∧ c ≠ 10 := by
  rcases saveVal_tok delimVal delimVal_ok vt vlen v h with hp | ⟨bs, hbs, hs⟩
  · intro c hc
    obtain ⟨_, hq34, hnd⟩ := hp
    have h10 := hnd c hc
    constructor
    · -- NUL: by cases on the value
      cases v with
      | none => simp [valSavable] at h
      | i32 z =>
        simp only [saveVal] at hc
        split at hc
        · simp [kwMSNG] at hc; omega
        · have := intChar_safe c ((printInt_chars z).2 c hc); omega
      | i64 z =>
        simp only [saveVal] at hc
        split at hc
        · simp [kwMSNG] at hc; omega
        · have := intChar_safe c ((printInt_chars z).2 c hc); omega
      | f32 x => simp [valSavable] at h
      | f64 x =>
        cases x with
        | fin q =>
          simp only [saveVal] at hc
          split at hc
          · simp [kwMSNG] at hc; omega
          · have := realChar_safe c ((printReal_chars q).2 c hc); omega
        | nan => simp [valSavable] at h
        | inf n => simp [valSavable] at h
      | str bs => exact absurd (by simp [saveVal]) hq34
    · intro h; subst h; simp [delimVal] at h10
  · intro c hc
    rw [hbs] at hc
    simp at hc
    rcases hc with rfl | hc | rfl
    · decide
    · exact strSavable_chars bs hs c hc
    · decide

theorem nextValue_saved (isDelim : Nat → Bool) (hq : isDelim 34 = false) (pre tok tail : List Nat)
    (hpre : ∀ c ∈ pre, isDelim c = true) (htok : SavedTok isDelim tok)
    (ht1 : endOrDelim tail = true) (ht2 : ∀ d, tail.head? = some d → isDelim d = true) :
    nextValue isDelim (pre ++ tok ++ tail) = some (tok, tail.drop 1) := by
  rcases htok with hp | ⟨bs, rfl, hs⟩
  · exact nextValue_plain isDelim pre tok tail hpre hp ht2
  · exact nextValue_quoted isDelim pre bs tail hpre hs hq ht1 ht2

theorem ne_kwMSNG_of_chars (tok : List Nat) (h : ∀ c ∈ tok, c ≠ 77) : tok ≠ kwMSNG := by
  intro he; subst he; exact absurd rfl (h 77 (by decide))

theorem stripQuotes_quoted (bs : List Nat) : stripQuotes (34 :: bs ++ [34]) = bs := by
  unfold stripQuotes
  have h1 : (34 :: bs ++ [34]).head? = some 34 := rfl
  have h2 : (34 :: bs ++ [34]).length > 1 := by simp
  have h3 : (34 :: bs ++ [34]).getLast? = some 34 := by
    have : 34 :: bs ++ [34] = (34 :: bs) ++ [34] := rfl
    rw [this, List.getLast?_concat]
  rw [if_pos ⟨h1, h2, h3⟩]
  simp

theorem strPad_id (bs : List Nat) (h : ∀ c ∈ bs, c ≠ 0) : strPad (some bs) bs.length = bs := by
  unfold strPad
  have hnz : ∀ c ∈ bs, (fun x => decide (x ≠ 0)) c = true := fun c hc => by simp [h c hc]
  simp only [takeWhile_all _ bs hnz, List.take_length, Nat.sub_self, List.replicate_zero, List.append_nil]

theorem parseVal_saveVal (vt : VT) (vlen : Nat) (v : Val) (h : valSavable vt vlen v = true) :
    parseVal vt vlen (saveVal v) = v := by
  cases v with
  | none => simp [valSavable] at h
  | i32 z =>
    simp only [valSavable, Bool.and_eq_true, decide_eq_true_eq] at h
    obtain ⟨hvt, hz⟩ := h
    subst hvt
    simp only [saveVal]
    split
    · next hm => simp [parseVal, hm]
    · have hne : printInt z ≠ kwMSNG :=
        ne_kwMSNG_of_chars _ (fun c hc => by have := intChar_safe c ((printInt_chars z).2 c hc); omega)
      simp only [parseVal, hne, if_false]
      rw [atoiC_printInt z hz, wrapI32_fits z hz]
  | i64 z =>
    simp only [valSavable, Bool.and_eq_true, decide_eq_true_eq] at h
    obtain ⟨hvt, hz⟩ := h
    subst hvt
    simp only [saveVal]
    split
    · next hm => simp [parseVal, hm]
    · have hne : printInt z ≠ kwMSNG :=
        ne_kwMSNG_of_chars _ (fun c hc => by have := intChar_safe c ((printInt_chars z).2 c hc); omega)
      simp only [parseVal, hne, if_false]
      rw [atolC_printInt z hz]
  | f32 x => simp [valSavable] at h
  | f64 x =>
    cases x with
    | fin q =>
      simp only [valSavable, Bool.and_eq_true, decide_eq_true_eq] at h
      obtain ⟨hvt, hq⟩ := h
      subst hvt
      simp only [saveVal]
      split
      · next hm => simp [parseVal, hm]
      · next hm =>
        have hne : printReal q ≠ kwMSNG :=
          ne_kwMSNG_of_chars _ (fun c hc => by have := realChar_safe c ((printReal_chars q).2 c hc); omega)
        simp only [parseVal, hne, if_false]
        rw [strtod_printReal q hq]
        simp [fpMissingD, hm]
    | nan => simp [valSavable] at h
    | inf n => simp [valSavable] at h
  | str bs =>
    simp only [valSavable, Bool.and_eq_true, decide_eq_true_eq] at h
    obtain ⟨⟨hvt, hlen⟩, hs⟩ := h
    subst hvt
    have hnz : ∀ c ∈ bs, c ≠ 0 := fun c hc => (strSavable_chars bs hs c hc).1
    have hnz' : ∀ c ∈ bs, (fun x => decide (x ≠ 0)) c = true := fun c hc => by simp [hnz c hc]
    simp only [saveVal, takeWhile_all _ bs hnz', parseVal]
    rw [show (34 :: (bs ++ [34])) = 34 :: bs ++ [34] from rfl, stripQuotes_quoted, ← hlen, strPad_id bs hnz]

/-! ### the values of a line -/

theorem endOrDelim_nl : endOrDelim [10] = true := by decide
theorem endOrDelim_comma (l : List Nat) : endOrDelim (44 :: l) = true := by simp [endOrDelim, delimVal]

theorem parseVals_nil (vt : VT) (vlen f : Nat) : parseVals vt vlen f [] = [] := by
  cases f <;> simp [parseVals, nextValue]

theorem parseVals_joined (vt : VT) (vlen : Nat) (vals : List Val) (hall : ∀ v ∈ vals, valSavable vt vlen v = true)
    (f : Nat) (hf : (joinComma (vals.map saveVal) ++ [10]).length ≤ f) :
    parseVals vt vlen f (joinComma (vals.map saveVal) ++ [10]) = vals := by
  induction vals generalizing f with
  | nil =>
    simp only [List.map_nil, joinComma, List.nil_append]
    cases f with
    | zero => rfl
    | succ f => simp [parseVals, nextValue, delimVal]
  | cons v rest ih =>
    have hv := hall v (by simp)
    have htok := saveVal_tok delimVal delimVal_ok vt vlen v hv
    cases f with
    | zero => simp at hf
    | succ f =>
      cases rest with
      | nil =>
        simp only [List.map_cons, List.map_nil, joinComma]
        unfold parseVals
        have := nextValue_saved delimVal (by decide) [] (saveVal v) [10] (by simp) htok endOrDelim_nl (by simp [delimVal])
        simp only [List.nil_append] at this
        rw [this]
        simp [parseVal_saveVal vt vlen v hv, parseVals_nil]
      | cons w rest' =>
        simp only [List.map_cons, joinComma]
        unfold parseVals
        have hnv := nextValue_saved delimVal (by decide) [] (saveVal v)
          (44 :: (joinComma (saveVal w :: rest'.map saveVal) ++ [10])) (by simp) htok (endOrDelim_comma _) (by simp [delimVal])
        simp only [List.nil_append] at hnv
        have heq : saveVal v ++ 44 :: joinComma (saveVal w :: List.map saveVal rest') ++ [10] =
            saveVal v ++ 44 :: (joinComma (saveVal w :: List.map saveVal rest') ++ [10]) := by simp
        rw [heq, hnv]
        simp only [List.drop_succ_cons, List.drop_zero, parseVal_saveVal vt vlen v hv]
        congr 1
        have := ih (fun x hx => hall x (by simp [hx])) f (by
          simp only [List.map_cons, joinComma, List.length_append, List.length_cons] at hf ⊢
          omega)
        simpa using this

/-- the value part of a saved line, read by the loader: `=v1,v2,…\n` -/
theorem values_of_line (vt : VT) (vlen : Nat) (vals : List Val) (hne : vals ≠ [])
    (hall : ∀ v ∈ vals, valSavable vt vlen v = true) :
    valuesAfter vt vlen (61 :: (joinComma (vals.map saveVal) ++ [10])) = vals := by
  unfold valuesAfter
  cases vals with
  | nil => exact absurd rfl hne
  | cons v rest =>
    have hv := hall v (by simp)
    have htok := saveVal_tok delimVal1 delimVal1_ok vt vlen v hv
    cases rest with
    | nil =>
      simp only [List.map_cons, List.map_nil, joinComma]
      have := nextValue_saved delimVal1 (by decide) [61] (saveVal v) [10] (by simp [delimVal1]) htok endOrDelim_nl (by simp [delimVal1])
      simp only [List.cons_append, List.nil_append] at this
      rw [this]
      simp [parseVal_saveVal vt vlen v hv, parseVals_nil]
    | cons w rest' =>
      simp only [List.map_cons, joinComma]
      have hnv := nextValue_saved delimVal1 (by decide) [61] (saveVal v)
        (44 :: (joinComma (saveVal w :: rest'.map saveVal) ++ [10])) (by simp [delimVal1]) htok (endOrDelim_comma _) (by simp [delimVal1])
      simp only [List.cons_append, List.nil_append] at hnv
      have heq : 61 :: (saveVal v ++ 44 :: joinComma (saveVal w :: List.map saveVal rest') ++ [10]) =
          61 :: (saveVal v ++ 44 :: (joinComma (saveVal w :: List.map saveVal rest') ++ [10])) := by simp
      rw [heq, hnv]
      simp only [List.drop_succ_cons, List.drop_zero, parseVal_saveVal vt vlen v hv]
      congr 1
      have := parseVals_joined vt vlen (w :: rest') (fun x hx => hall x (by simp [hx]))
        (joinComma (saveVal w :: List.map saveVal rest') ++ [10]).length (by simp)
      simpa using this

/-! ### one saved line -/

theorem joinComma_chars (ls : List (List Nat)) : ∀ x ∈ joinComma ls, x = 44 ∨ ∃ l ∈ ls, x ∈ l := by
  induction ls with
  | nil => intro x hx; simp [joinComma] at hx
  | cons a rest ih =>
    cases rest with
    | nil => intro x hx; simp only [joinComma] at hx; exact Or.inr ⟨a, by simp, hx⟩
    | cons b rest' =>
      intro x hx
      simp only [joinComma, List.mem_append, List.mem_cons] at hx
      rcases hx with h | h | h
      · exact Or.inr ⟨a, by simp, h⟩
      · exact Or.inl h
      · rcases ih x h with h' | ⟨l, hl, hxl⟩
        · exact Or.inl h'
        · exact Or.inr ⟨l, by simp at hl ⊢; right; exact hl, hxl⟩

theorem dvSavable_vals (T : Tables) (c : DescVal) (h : dvSavable T c = true) :
    ∀ v ∈ c.vals, valSavable (loadVT T c.desc).1 (loadVT T c.desc).2 v = true := by
  unfold dvSavable at h
  simpa using h

theorem body_chars (T : Tables) (c : DescVal) (hs : dvSavable T c = true) :
    ∀ x ∈ saveLineBody c, x ≠ 0 ∧ x ≠ 10 := by
  intro x hx
  unfold saveLineBody at hx
  rcases List.mem_append.mp hx with h | h
  · have := natDigits_isDigit _ x h; simp [isDigit] at this; omega
  · split at h
    · simp at h
    · rcases List.mem_append.mp h with h | h
      · simp [kwCommaValueEq] at h; omega
      · rcases joinComma_chars _ x h with h | ⟨l, hl, hxl⟩
        · omega
        · obtain ⟨v, hv, rfl⟩ := List.mem_map.mp hl
          exact saveVal_chars _ _ v (dvSavable_vals T c hs v hv) x hxl

theorem hasPrefix_head_ne (c : Nat) (r : List Nat) (k : Nat) (ks : List Nat) (h : c ≠ k) :
    hasPrefix (c :: r) (k :: ks) = false := by
  simp [hasPrefix, h]

theorem delimLine_digit (c : Nat) (h : isDigit c = true) : delimLine c = false := by
  simp [isDigit, delimLine] at *; omega

theorem natDigits_atoi (n : Nat) (h : n < 2 ^ 31) : atoiC (natDigits n) = (n : Int) := by
  have := atoiC_printInt (n : Int) (by simp [fitsI32]; omega)
  have hp : printInt (n : Int) = natDigits n := by
    unfold printInt
    rw [if_neg (by omega)]
    simp
  rwa [hp] at this

theorem loadLine_desc (T : Tables) (st : LoadSt) (c : DescVal) (hd : c.desc < 2 ^ 31) (hs : dvSavable T c = true) :
    loadLine T st (line (saveLineBody c)) = { st with codets := ((c.desc : Int), c.vals) :: st.codets } := by
  have hch := body_chars T c hs
  have hcs : cstr (line (saveLineBody c)) = line (saveLineBody c) := by
    apply cstr_id
    intro x hx
    simp only [line, List.mem_append, List.mem_singleton] at hx
    rcases hx with h | h
    · exact (hch x h).1
    · omega
  obtain ⟨d0, r0, hdig, hd0⟩ := natDigits_head c.desc
  have hd0' : 48 ≤ d0 ∧ d0 ≤ 57 := by simp [isDigit] at hd0; omega
  unfold loadLine
  simp only [hcs]
  have hline : line (saveLineBody c) = d0 :: (r0 ++ ((if c.vals.isEmpty then [] else kwCommaValueEq ++ joinComma (c.vals.map saveVal)) ++ [10])) := by
    simp [line, saveLineBody, hdig]
  have hhead : (line (saveLineBody c)).head? = some d0 := by rw [hline]; rfl
  have hkey : isTableKey (line (saveLineBody c)) = false := by
    rw [hline]
    simp only [isTableKey, kwLOCAL_TABLEB, kwMASTER_TABLEB, kwLOCAL_TABLED, kwMASTER_TABLED]
    rw [hasPrefix_head_ne, hasPrefix_head_ne, hasPrefix_head_ne, hasPrefix_head_ne] <;> first | rfl | omega
  have hed : hasPrefix (line (saveLineBody c)) kwBUFR_EDITION = false := by
    rw [hline]; simp only [kwBUFR_EDITION]; rw [hasPrefix_head_ne]; omega
  rw [hhead, hkey, hed]
  have h35 : ¬ (some d0 = some 35 ∨ some d0 = some 42) := by
    intro h; rcases h with h | h <;> (injection h with h; omega)
  simp only [h35, if_false, Bool.false_eq_true]
  have hdigs : ∀ x ∈ natDigits c.desc, delimLine x = false := fun x hx => delimLine_digit x (natDigits_isDigit _ x hx)
  unfold descLine
  by_cases hv : c.vals = []
  · have hl2 : line (saveLineBody c) = [] ++ natDigits c.desc ++ 10 :: [] := by
      simp [line, saveLineBody, hv]
    rw [hl2, nextTok_mid delimLine [] (natDigits c.desc) 10 [] (by simp) hdigs (natDigits_ne_nil _) (by decide)]
    simp only [natDigits_atoi c.desc hd]
    have : lineValues T (c.desc : Int) [10] = [] := by
      unfold lineValues
      rw [nextTok_none delimLine [10] (by decide)]
    rw [this, hv]
  · have hne : c.vals.isEmpty = false := by cases hc : c.vals with | nil => exact absurd hc hv | cons _ _ => rfl
    have hl2 : line (saveLineBody c) = [] ++ natDigits c.desc ++ 44 :: (kwVALUE ++ 61 :: (joinComma (c.vals.map saveVal) ++ [10])) := by
      simp [line, saveLineBody, hne, kwCommaValueEq, kwVALUE]
    rw [hl2, nextTok_mid delimLine [] (natDigits c.desc) 44 _ (by simp) hdigs (natDigits_ne_nil _) (by decide)]
    simp only [natDigits_atoi c.desc hd]
    have : lineValues T (c.desc : Int) (44 :: (kwVALUE ++ 61 :: (joinComma (c.vals.map saveVal) ++ [10]))) = c.vals := by
      unfold lineValues
      have h2 := nextTok_mid delimLine [44] kwVALUE 61 (joinComma (c.vals.map saveVal) ++ [10]) (by decide) (by decide) (by decide) (by decide)
      simp only [List.cons_append, List.nil_append] at h2
      rw [h2]
      simp only [if_true]
      exact values_of_line _ _ c.vals hv (dvSavable_vals T c hs)
    rw [this]

/-! ### the whole text -/

theorem loadLine_comment (T : Tables) (st : LoadSt) (r : List Nat) : loadLine T st (35 :: r) = st := by
  unfold loadLine cstr
  simp [List.takeWhile]

theorem loadLine_edition (T : Tables) (st : LoadSt) (ed : Int) (h : fitsI32 ed = true) :
    loadLine T st (line (hdrEd ++ printInt ed)) = { st with edition := ed } := by
  obtain ⟨hne, hchars⟩ := printInt_chars ed
  have hsafe : ∀ c ∈ printInt ed, c ≠ 0 ∧ c ≠ 9 ∧ c ≠ 10 ∧ c ≠ 44 ∧ c ≠ 61 ∧ c ≠ 34 ∧ c ≠ 77 :=
    fun c hc => intChar_safe c (hchars c hc)
  have hcs : cstr (line (hdrEd ++ printInt ed)) = line (hdrEd ++ printInt ed) := by
    apply cstr_id
    intro x hx
    simp only [line, List.mem_append, List.mem_singleton] at hx
    rcases hx with (h | h) | h
    · simp [hdrEd] at h; omega
    · exact (hsafe x h).1
    · omega
  unfold loadLine
  simp only [hcs]
  have hline : line (hdrEd ++ printInt ed) = 66 :: ([85, 70, 82, 95, 69, 68, 73, 84, 73, 79, 78, 61] ++ printInt ed ++ [10]) := by
    simp [line, hdrEd]
  have hhead : (line (hdrEd ++ printInt ed)).head? = some 66 := by rw [hline]; rfl
  have hkey : isTableKey (line (hdrEd ++ printInt ed)) = false := by
    rw [hline]
    simp only [isTableKey, kwLOCAL_TABLEB, kwMASTER_TABLEB, kwLOCAL_TABLED, kwMASTER_TABLED]
    rw [hasPrefix_head_ne, hasPrefix_head_ne, hasPrefix_head_ne, hasPrefix_head_ne] <;> first | rfl | omega
  have hed : hasPrefix (line (hdrEd ++ printInt ed)) kwBUFR_EDITION = true := by
    simp [hasPrefix, line, hdrEd, kwBUFR_EDITION]
  rw [hhead, hkey, hed]
  simp only [show ¬ (some 66 = some 35 ∨ some 66 = some 42) by decide, if_false, Bool.false_eq_true, if_true]
  unfold editionLine
  have hdrop : (line (hdrEd ++ printInt ed)).drop 12 = [61] ++ printInt ed ++ 10 :: [] := by
    simp [line, hdrEd]
  rw [hdrop, nextTok_mid delimKey [61] (printInt ed) 10 [] (by decide)
    (fun c hc => by have := hsafe c hc; simp [delimKey]; have := hchars c hc; simp [isDigit] at this; omega) hne (by decide)]
  simp only [atoiC_printInt ed h]

/-- descriptor lines read one after the other -/
theorem foldl_saveLines (T : Tables) (cs : List DescVal) (st : LoadSt) (more : List (List Nat))
    (hd : ∀ c ∈ cs, c.desc < 2 ^ 31) (hs : ∀ c ∈ cs, dvSavable T c = true) :
    (cs.map (fun c => line (saveLineBody c)) ++ more).foldl (loadLine T) st =
      more.foldl (loadLine T) { st with codets := (cs.map fun c => ((c.desc : Int), c.vals)).reverse ++ st.codets } := by
  induction cs generalizing st with
  | nil => simp
  | cons c cs ih =>
    simp only [List.map_cons, List.cons_append, List.foldl_cons]
    rw [loadLine_desc T st c (hd c (by simp)) (hs c (by simp))]
    rw [ih _ (fun x hx => hd x (by simp [hx])) (fun x hx => hs x (by simp [hx]))]
    simp

theorem splitLines_saveLines (T : Tables) (cs : List DescVal) (rest : List Nat) (hs : ∀ c ∈ cs, dvSavable T c = true) :
    splitLines (saveLines cs ++ rest) [] = cs.map (fun c => line (saveLineBody c)) ++ splitLines rest [] := by
  induction cs with
  | nil => simp [saveLines]
  | cons c cs ih =>
    simp only [saveLines, List.map_cons, List.cons_append]
    have : line (saveLineBody c) ++ saveLines cs ++ rest = saveLineBody c ++ 10 :: (saveLines cs ++ rest) := by
      simp [line]
    rw [this, splitLines_line _ _ (fun x hx => (body_chars T c (hs c (by simp)) x hx).2)]
    rw [ih (fun x hx => hs x (by simp [hx]))]
    rfl

/-- reading a saved template line by line gives back its edition and its descriptor list -/
theorem parseText_save (T : Tables) (t : TmplV) (hed : fitsI32 t.edition = true)
    (hd : ∀ c ∈ t.codets, c.desc < 2 ^ 31) (hs : ∀ c ∈ t.codets, dvSavable T c = true) :
    parseText T (save t) =
      { edition := t.edition, codets := (t.codets.map fun c => ((c.desc : Int), c.vals)).reverse } := by
  unfold parseText save
  have h1 : ∀ x ∈ hdrA ++ natDigits t.codets.length ++ hdrB, x ≠ 10 := by
    intro x hx
    simp only [List.mem_append] at hx
    rcases hx with (h | h) | h
    · simp [hdrA] at h; omega
    · have := natDigits_isDigit _ x h; simp [isDigit] at this; omega
    · simp [hdrB] at h; omega
  have h2 : ∀ x ∈ hdrEd ++ printInt t.edition, x ≠ 10 := by
    intro x hx
    simp only [List.mem_append] at hx
    rcases hx with h | h
    · simp [hdrEd] at h; omega
    · have := intChar_safe x ((printInt_chars t.edition).2 x h); omega
  have e1 : line (hdrA ++ natDigits t.codets.length ++ hdrB) ++ line (hdrEd ++ printInt t.edition) ++ line hdrSep ++
      saveLines t.codets ++ line hdrSep =
      (hdrA ++ natDigits t.codets.length ++ hdrB) ++ 10 :: ((hdrEd ++ printInt t.edition) ++ 10 :: (hdrSep ++ 10 :: (saveLines t.codets ++ (hdrSep ++ 10 :: [])))) := by
    simp [line]
  rw [e1, splitLines_line _ _ h1, splitLines_line _ _ h2, splitLines_line hdrSep _ (by decide),
    splitLines_saveLines T t.codets _ hs, splitLines_line hdrSep [] (by decide)]
  simp only [splitLines, List.foldl_cons]
  have hA : hdrA ++ natDigits t.codets.length ++ hdrB ++ [10] = 35 :: ([32, 84, 104, 105, 115, 32, 102, 105, 108, 101, 32, 99, 111, 110, 116, 97, 105, 110, 115, 32] ++ natDigits t.codets.length ++ hdrB ++ [10]) := by
    simp [hdrA]
  rw [hA, loadLine_comment]
  have hE : hdrEd ++ printInt t.edition ++ [10] = line (hdrEd ++ printInt t.edition) := rfl
  rw [hE, loadLine_edition T _ t.edition hed]
  have hS : hdrSep ++ [10] = 35 :: [10] := rfl
  rw [hS, loadLine_comment]
  rw [foldl_saveLines T t.codets _ _ hd hs]
  simp [loadLine_comment]

end TT
end Bufr
