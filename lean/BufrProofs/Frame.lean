import BufrModel.Frame
set_option linter.unusedSimpArgs false
/-
  T-Frame: helper lemmas for C06.
  * running reader programs on lists (`runList`) and on callbacks (`runSrc`): simulation
  * the scanner for the start marker is a correct search for the first `BUFR`
  * the header escaping round trip
  * `bufr_end_message` makes the stored lengths agree with what the writers send
  * each `rdSectionN` inverts `wrSectionN`
-/
namespace Bufr.Frame

/-! ### programs on lists -/

@[simp] theorem runList_ret {α} (a : α) (l : List Nat) : (Prog.ret a).runList l = .ok (a, l) := rfl
@[simp] theorem runList_pure {α} (a : α) (l : List Nat) : (pure a : Prog α).runList l = .ok (a, l) := rfl
@[simp] theorem runList_fail {α} (l : List Nat) : (Prog.fail : Prog α).runList l = .err := rfl

theorem runList_bulk {α} (n : Nat) (k : List Nat → Prog α) (l : List Nat) :
    (Prog.bulk n k).runList l = if n ≤ l.length then (k (l.take n)).runList (l.drop n) else .err := rfl

/-- sequencing -/
def Res.andThen {α β : Type} : Res α → (α → Res β) → Res β
  | .ok a, f => f a
  | .err, _ => .err

@[simp] theorem Res.andThen_ok {α β} (a : α) (f : α → Res β) : (Res.ok a).andThen f = f a := rfl
@[simp] theorem Res.andThen_err {α β} (f : α → Res β) : (Res.err : Res α).andThen f = .err := rfl

theorem runList_bind' {α β} (p : Prog α) (f : α → Prog β) :
    ∀ l, (p.bind f).runList l = (p.runList l).andThen (fun r => (f r.1).runList r.2) := by
  induction p with
  | ret a => intro l; rfl
  | fail => intro l; rfl
  | bulk n k ih =>
    intro l
    simp only [Prog.bind, runList_bulk]
    split
    · exact ih _ _
    · rfl

@[simp] theorem runList_bind {α β} (p : Prog α) (f : α → Prog β) (l : List Nat) :
    (p >>= f).runList l = (p.runList l).andThen (fun r => (f r.1).runList r.2) :=
  runList_bind' p f l

@[simp] theorem runList_readOctet_cons (b : Nat) (l : List Nat) :
    readOctet.runList (b :: l) = .ok (b, l) := by
  simp [readOctet, runList_bulk]

@[simp] theorem runList_readOctet_nil : readOctet.runList [] = .err := by
  simp [readOctet, runList_bulk]

theorem runList_bulk_append {α} (k : List Nat → Prog α) (xs l : List Nat) :
    (Prog.bulk xs.length k).runList (xs ++ l) = (k xs).runList l := by
  simp [runList_bulk]

theorem runList_bulk_append' {α} (n : Nat) (k : List Nat → Prog α) (xs l : List Nat) (h : xs.length = n) :
    (Prog.bulk n k).runList (xs ++ l) = (k xs).runList l := by
  subst h; exact runList_bulk_append k xs l

@[simp] theorem runList_readInt3b (a b c : Nat) (l : List Nat) :
    readInt3b.runList (a :: b :: c :: l) = .ok (a * 65536 + b * 256 + c, l) := by
  simp [readInt3b]

@[simp] theorem runList_readInt2b (a b : Nat) (l : List Nat) :
    readInt2b.runList (a :: b :: l) = .ok (a * 256 + b, l) := by
  simp [readInt2b]

theorem int3b_val (v : Nat) (h : v < 16777216) :
    v / 65536 % 256 * 65536 + v / 256 % 256 * 256 + v % 256 = v := by omega

theorem int2b_val (v : Nat) (h : v < 65536) : v / 256 % 256 * 256 + v % 256 = v := by omega

theorem int2b_val' (v : Nat) : v / 256 % 256 * 256 + v % 256 = v % 65536 := by omega

theorem runList_readInt3b_int3b (v : Nat) (h : v < 16777216) (l : List Nat) :
    readInt3b.runList (int3b v ++ l) = .ok (v, l) := by
  simp [int3b, int3b_val v h]

theorem runList_readInt2b_int2b (v : Nat) (h : v < 65536) (l : List Nat) :
    readInt2b.runList (int2b v ++ l) = .ok (v, l) := by
  simp [int2b, int2b_val v h]

theorem runList_skipOctets (n : Nat) : ∀ (xs l : List Nat), xs.length = n →
    (skipOctets n).runList (xs ++ l) = .ok ((), l) := by
  induction n with
  | zero => intro xs l h; simp [List.length_eq_zero_iff] at h; subst h; simp [skipOctets]
  | succ n ih =>
    intro xs l h
    match xs, h with
    | x :: xs, h =>
      simp only [List.length_cons, Nat.add_right_cancel_iff] at h
      simp [skipOctets, ih xs l h]

/-! ### programs on callbacks: simulation -/

/-- The callback contract.  `view s` is what the source still holds.  When `n` bytes are
available the callback returns exactly the next `n`; otherwise it returns fewer than `n`
(it may return anything shorter) and stays exhausted-or-short. -/
structure Src.Faithful {σ : Type} (S : Src σ) (view : σ → List Nat) (Inv : σ → Prop) : Prop where
  exact : ∀ s n, Inv s → n ≤ (view s).length →
    (S.read s n).1 = (view s).take n ∧ view (S.read s n).2 = (view s).drop n ∧ Inv (S.read s n).2
  short : ∀ s n, Inv s → (view s).length < n → (S.read s n).1.length ≠ n
  fuel : ∀ s, Inv s → S.remaining s = (view s).length

/-- result of a list run transported to source states -/
def Res.matches {α σ : Type} (view : σ → List Nat) (Inv : σ → Prop) :
    Res (α × List Nat) → Res (α × σ) → Prop
  | .ok (a, l), .ok (b, s) => a = b ∧ view s = l ∧ Inv s
  | .err, .err => True
  | _, _ => False

theorem runSrc_sim {α σ : Type} (S : Src σ) (view : σ → List Nat) (Inv : σ → Prop)
    (hF : S.Faithful view Inv) (p : Prog α) :
    ∀ s, Inv s → Res.matches view Inv (p.runList (view s)) (p.runSrc S s) := by
  induction p with
  | ret a => intro s hs; exact ⟨rfl, rfl, hs⟩
  | fail => intro s hs; trivial
  | bulk n k ih =>
    intro s hs
    simp only [runList_bulk, Prog.runSrc]
    by_cases hn : n ≤ (view s).length
    · obtain ⟨h1, h2, h3⟩ := hF.exact s n hs hn
      have hl : (S.read s n).1.length = n := by rw [h1]; simp [hn]
      simp only [hn, hl, if_true]
      have := ih (S.read s n).1 (S.read s n).2 h3
      rw [h2, h1] at this
      rw [h1]
      exact this
    · have hl := hF.short s n hs (by omega)
      simp only [hn, hl, if_false]
      trivial

/-! ### the four callbacks are faithful -/

def Cur.Inv (c : Cur) : Prop := c.pos ≤ c.data.length

theorem memSrc_faithful : memSrc.Faithful Cur.rest Cur.Inv := by
  refine ⟨?_, ?_, ?_⟩
  · intro s n hs hn
    simp only [Cur.rest, List.length_drop] at hn
    simp only [memSrc, Cur.rest, Cur.Inv] at *
    by_cases h : s.pos + n ≥ s.data.length
    · have : n = s.data.length - s.pos := by omega
      simp only [h, if_true]
      refine ⟨by rw [← this], ?_, by omega⟩
      rw [← this, List.drop_drop]
    · simp only [h, if_false]
      refine ⟨trivial, ?_, by omega⟩
      rw [List.drop_drop]
  · intro s n hs hn
    simp only [Cur.rest, List.length_drop] at hn
    simp only [memSrc, Cur.Inv] at *
    have h : s.pos + n ≥ s.data.length := by omega
    simp only [h, if_true, List.length_take, List.length_drop]
    omega
  · intro s hs; simp [memSrc, Cur.rest]

theorem toInt32_small (n : Nat) (h : n < 2147483648) : toInt32 n = n := by
  unfold toInt32
  have : n % 4294967296 = n := Nat.mod_eq_of_lt (by omega)
  simp only [this]
  split
  · omega
  · rfl

/-- the stdio callback is faithful as long as fewer than 2^31 bytes remain -/
theorem fileSrc_faithful :
    fileSrc.Faithful Cur.rest (fun c => c.pos ≤ c.data.length ∧ c.data.length < 2147483648) := by
  refine ⟨?_, ?_, ?_⟩
  · intro s n hs hn
    simp only [Cur.rest, List.length_drop] at hn
    have hn' : n < 2147483648 := by omega
    simp only [fileSrc, Cur.rest, toInt32_small n hn']
    by_cases h0 : n = 0
    · subst h0; simp [hs]
    · have : ¬ ((n : Int) ≤ 0) := by omega
      simp only [this, if_false, Int.toNat_natCast]
      have hm : min n (s.data.length - s.pos) = n := by omega
      rw [hm]
      refine ⟨rfl, by rw [List.drop_drop], by omega, hs.2⟩
  · intro s n hs hn
    simp only [Cur.rest, List.length_drop] at hn
    simp only [fileSrc]
    split
    · simp; omega
    · simp only [List.length_take, List.length_drop]
      rename_i h
      have : (toInt32 n).toNat ≤ n := by
        unfold toInt32
        dsimp only
        split <;> omega
      omega
  · intro s hs; simp [fileSrc, Cur.rest]

theorem fdSrc_faithful :
    fdSrc.Faithful Cur.rest (fun c => c.pos ≤ c.data.length ∧ c.data.length < 9223372036854775808) := by
  refine ⟨?_, ?_, ?_⟩
  · intro s n hs hn
    simp only [Cur.rest, List.length_drop] at hn
    have hn' : ¬ (n ≥ 9223372036854775808) := by omega
    simp only [fdSrc, Cur.rest, hn', if_false]
    have hm : min n (s.data.length - s.pos) = n := by omega
    rw [hm]
    exact ⟨rfl, by rw [List.drop_drop], by omega, hs.2⟩
  · intro s n hs hn
    simp only [Cur.rest, List.length_drop] at hn
    simp only [fdSrc]
    split
    · simp; omega
    · simp only [List.length_take, List.length_drop]; omega
  · intro s hs; simp [fdSrc, Cur.rest]

/-- a user callback that loops until it has the bytes (chunk = 0) is faithful -/
theorem cbSrc_faithful : (cbSrc 0).Faithful Cur.rest Cur.Inv := by
  refine ⟨?_, ?_, ?_⟩
  · intro s n hs hn
    simp only [Cur.rest, List.length_drop] at hn
    simp only [cbSrc, Cur.rest, Cur.Inv, if_true] at *
    have hm : min n (s.data.length - s.pos) = n := by omega
    rw [hm]
    exact ⟨rfl, by rw [List.drop_drop], by omega⟩
  · intro s n hs hn
    simp only [Cur.rest, List.length_drop] at hn
    simp only [cbSrc, if_true, List.length_take, List.length_drop]
    omega
  · intro s hs; simp [cbSrc, Cur.rest]

/-! ### the scanner finds the first `BUFR` -/

/-- what `bufr_seek_msg_start` keeps of the foreign bytes `s` when it starts in state `k`:
everything except a `\004` met in state 0 -/
def seekCollect : Nat → List Nat → List Nat
  | _, [] => []
  | k, c :: s => (if k = 0 ∧ c = 4 then [] else [c]) ++ seekCollect (seekNext k c) s

def patTake (k : Nat) : List Nat := [66, 85, 70, 82].take k

theorem hasMarker_tail (x : Nat) (t : List Nat) (h : hasMarker (x :: t) = false) : hasMarker t = false := by
  simp only [hasMarker, Bool.or_eq_false_iff] at h; exact h.2

theorem hasMarker_head (x : Nat) (t : List Nat) (h : hasMarker (x :: t) = false) : sw4 (x :: t) = false := by
  simp only [hasMarker, Bool.or_eq_false_iff] at h; exact h.1

/-- one step of the automaton keeps "no marker in (matched prefix ++ remaining input)" -/
theorem seek_step (k c : Nat) (t : List Nat) (hk : k ≤ 3)
    (h : hasMarker (patTake k ++ c :: t) = false) :
    seekNext k c ≠ 4 ∧ seekNext k c ≤ 3 ∧ hasMarker (patTake (seekNext k c) ++ t) = false := by
  have hk' : k = 0 ∨ k = 1 ∨ k = 2 ∨ k = 3 := by omega
  rcases hk' with rfl | rfl | rfl | rfl
  · -- state 0
    simp only [patTake, List.take_zero, List.nil_append] at h
    by_cases hc : c = 66
    · subst hc; simp [seekNext, patTake, h]
    · have := hasMarker_tail _ _ h
      simp [seekNext, hc, patTake, this]
  · simp only [patTake, List.take_succ_cons, List.take_zero, List.cons_append, List.nil_append] at h
    by_cases hc : c = 85
    · subst hc; simp [seekNext, patTake, h]
    · have h1 := hasMarker_tail _ _ h
      by_cases hb : c = 66
      · subst hb; simp [seekNext, patTake, h1]
      · have := hasMarker_tail _ _ h1
        simp [seekNext, hc, hb, patTake, this]
  · simp only [patTake, List.take_succ_cons, List.take_zero, List.cons_append, List.nil_append] at h
    by_cases hc : c = 70
    · subst hc; simp [seekNext, patTake, h]
    · have h1 := hasMarker_tail _ _ (hasMarker_tail _ _ h)
      by_cases hb : c = 66
      · subst hb; simp [seekNext, patTake, h1]
      · have := hasMarker_tail _ _ h1
        simp [seekNext, hc, hb, patTake, this]
  · simp only [patTake, List.take_succ_cons, List.take_zero, List.cons_append, List.nil_append] at h
    have hs := hasMarker_head _ _ h
    have hc : c ≠ 82 := by
      intro e; subst e; simp [sw4] at hs
    have h1 := hasMarker_tail _ _ (hasMarker_tail _ _ (hasMarker_tail _ _ h))
    by_cases hb : c = 66
    · subst hb; simp [seekNext, patTake, h1]
    · have := hasMarker_tail _ _ h1
      simp [seekNext, hc, hb, patTake, this]

theorem seekP_succ (fuel k : Nat) (acc : List Nat) (c : Nat) (l : List Nat) :
    (seekP (fuel + 1) k acc).runList (c :: l) =
      (if seekNext k c = 4 then
         Res.ok ((((if k = 0 ∧ c = 4 then acc else c :: acc).drop 4).reverse), l)
       else (seekP fuel (seekNext k c) (if k = 0 ∧ c = 4 then acc else c :: acc)).runList l) := by
  simp only [seekP, runList_bind, runList_readOctet_cons, Res.andThen_ok]
  by_cases h : seekNext k c = 4
  · simp [h]
  · simp [h]

/-- from any state, the four characters `BUFR` end the scan -/
theorem seekP_marker (k fuel : Nat) (acc rest : List Nat) (hk : k ≤ 3) (hf : 4 ≤ fuel) :
    (seekP fuel k acc).runList (66 :: 85 :: 70 :: 82 :: rest) = .ok (acc.reverse, rest) := by
  obtain ⟨f, rfl⟩ : ∃ f, fuel = f + 1 + 1 + 1 + 1 := ⟨fuel - 4, by omega⟩
  have hk' : k = 0 ∨ k = 1 ∨ k = 2 ∨ k = 3 := by omega
  rcases hk' with rfl | rfl | rfl | rfl <;>
    simp [seekP_succ, seekNext]

/-- foreign bytes without the marker, then the marker: the scan stops exactly after the marker
and has kept `seekCollect k s` -/
theorem seekP_found : ∀ (s : List Nat) (k fuel : Nat) (acc rest : List Nat), k ≤ 3 →
    s.length + 4 ≤ fuel → hasMarker (patTake k ++ (s ++ [66, 85, 70])) = false →
    (seekP fuel k acc).runList (s ++ 66 :: 85 :: 70 :: 82 :: rest) =
      .ok (acc.reverse ++ seekCollect k s, rest) := by
  intro s
  induction s with
  | nil =>
    intro k fuel acc rest hk hf _
    simp only [List.nil_append, seekCollect, List.append_nil]
    exact seekP_marker k fuel acc rest hk (by simpa using hf)
  | cons c s ih =>
    intro k fuel acc rest hk hf hq
    obtain ⟨f, rfl⟩ : ∃ f, fuel = f + 1 := ⟨fuel - 1, by simp at hf; omega⟩
    obtain ⟨h4, h3, hq'⟩ := seek_step k c (s ++ [66, 85, 70]) hk (by simpa using hq)
    simp only [List.cons_append, seekP_succ, h4, if_false]
    rw [ih (seekNext k c) f _ rest h3 (by simp at hf; omega) hq']
    simp only [seekCollect]
    split <;> simp

/-- no marker at all: the scan fails -/
theorem seekP_none : ∀ (s : List Nat) (k fuel : Nat) (acc : List Nat), k ≤ 3 →
    hasMarker (patTake k ++ s) = false → (seekP fuel k acc).runList s = .err := by
  intro s
  induction s with
  | nil =>
    intro k fuel acc _ _
    cases fuel with
    | zero => rfl
    | succ f => simp [seekP]
  | cons c s ih =>
    intro k fuel acc hk hq
    cases fuel with
    | zero => rfl
    | succ f =>
      obtain ⟨h4, h3, hq'⟩ := seek_step k c s hk hq
      simp only [seekP_succ, h4, if_false]
      exact ih _ _ _ h3 hq'

theorem hasMarker_append_BUF : ∀ (s : List Nat), hasMarker s = false → hasMarker (s ++ [66, 85, 70]) = false := by
  intro s
  induction s with
  | nil => intro _; decide
  | cons x t ih =>
    intro h
    have h1 := hasMarker_head _ _ h
    have h2 := ih (hasMarker_tail _ _ h)
    simp only [List.cons_append, hasMarker, Bool.or_eq_false_iff]
    refine ⟨?_, h2⟩
    match t, h1 with
    | [], _ => simp [sw4]
    | [a], _ => simp [sw4]
    | [a, b], _ => simp [sw4]
    | a :: b :: c :: t', h1 => simpa [sw4] using h1

theorem seekCollect_no_eot : ∀ (s : List Nat) (k : Nat), 4 ∉ s → seekCollect k s = s := by
  intro s
  induction s with
  | nil => intro k _; rfl
  | cons c s ih =>
    intro k h
    simp only [List.mem_cons, not_or] at h
    have hc : c ≠ 4 := fun e => h.1 e.symm
    simp [seekCollect, hc, ih _ h.2]

/-- the whole scan on `pre ++ "BUFR" ++ rest` with `pre` free of the marker -/
theorem seek_pre (pre rest : List Nat) (fuel : Nat) (hm : NoMarker pre) (hf : pre.length + 4 ≤ fuel) :
    (seekP fuel 0 []).runList (pre ++ 66 :: 85 :: 70 :: 82 :: rest) = .ok (seekCollect 0 pre, rest) := by
  have := seekP_found pre 0 fuel [] rest (by omega) hf (by simpa [patTake] using hasMarker_append_BUF pre hm)
  simpa using this

/-! ### header escaping -/

theorem esc_facts : ∀ c, c < 128 → isEscByte c = true →
    (sscanfOct (oct3 c)).getD 0 % 256 = c ∧ (48 ≤ 48 + c / 64 % 8 ∧ 48 + c / 64 % 8 ≤ 55) ∧
    (48 + c / 64 % 8 ≠ 92) ∧ (48 + c / 64 % 8 ≠ 110) := by
  decide

theorem isEscByte_lt (c : Nat) (h : isEscByte c = true) : c < 128 := by
  simp [isEscByte] at h; omega

theorem oct2charF_nil (f : Nat) : oct2charF f [] = [] := by cases f <;> rfl

theorem oct2charF_cons_ne (f c : Nat) (X : List Nat) (hc : c ≠ 92) :
    oct2charF (f + 1) (c :: X) = c :: oct2charF f X := by
  cases X with
  | nil => simp [oct2charF, oct2charF_nil]
  | cons d r => simp [oct2charF, hc]

/-- un-escaping the reader's escaping gives the bytes back -/
theorem oct2charF_schar2oct : ∀ (r : List Nat) (fuel : Nat), (schar2oct r).length ≤ fuel →
    oct2charF fuel (schar2oct r) = r := by
  intro r
  induction r with
  | nil => intro fuel _; simp [schar2oct, oct2charF_nil]
  | cons c r ih =>
    intro fuel hf
    by_cases h92 : c = 92
    · subst h92
      simp only [schar2oct, if_true, List.cons_append, List.nil_append] at hf ⊢
      obtain ⟨f, rfl⟩ : ∃ f, fuel = f + 1 := ⟨fuel - 1, by simp at hf; omega⟩
      simp only [oct2charF, if_true]
      rw [ih f (by simp at hf; omega)]
    · by_cases he : isEscByte c = true
      · obtain ⟨h1, h2, h3, h4⟩ := esc_facts c (isEscByte_lt c he) he
        simp only [schar2oct, h92, he, if_true, if_false, oct3, List.cons_append, List.nil_append] at hf ⊢
        obtain ⟨f, rfl⟩ : ∃ f, fuel = f + 1 := ⟨fuel - 1, by simp at hf; omega⟩
        simp only [oct3] at h1
        simp only [oct2charF, if_true, h3, h4, if_false, h2, and_self, h1]
        rw [ih f (by simp at hf; omega)]
      · simp only [schar2oct, h92, he, if_false, List.cons_append, List.nil_append, Bool.false_eq_true] at hf ⊢
        obtain ⟨f, rfl⟩ : ∃ f, fuel = f + 1 := ⟨fuel - 1, by simp at hf; omega⟩
        rw [oct2charF_cons_ne f c _ h92, ih f (by simp at hf; omega)]

theorem oct2char_schar2oct (r : List Nat) : oct2char (schar2oct r) = r :=
  oct2charF_schar2oct r _ (Nat.le_refl _)

/-! ### the quantifier of C06 and the normal form a reader returns -/

def DescOk (d : Nat) : Prop := d / 100000 < 4 ∧ d / 1000 % 100 < 64 ∧ d % 1000 < 256

instance (d : Nat) : Decidable (DescOk d) := by unfold DescOk; infer_instance

/-- Section 1 values the edition's octets and the API field types can hold -/
def S1InRange (ed : Nat) (s : Sect1) : Prop :=
  s.headerLen = s1HeaderLen ed ∧ s1DefaultLen ed ≤ s.len ∧ s.headerLen + s.data.length ≤ s.len ∧
  (s.data = [] ∨ s1DefaultLen ed < s.len) ∧ (ed ≤ 3 → s.len % 2 = 0) ∧
  s.centre < 65536 ∧ (ed = 3 → s.centre < 256) ∧ s.subCentre < 32768 ∧ (ed = 3 → s.subCentre < 256) ∧
  s.year < 32768 ∧ s.masterTable < 256 ∧ s.updSeq < 256 ∧ s.flag < 256 ∧ s.msgType < 256 ∧
  s.interSub < 256 ∧ s.localSub < 256 ∧ s.masterVer < 256 ∧ s.localVer < 256 ∧ s.month < 256 ∧
  s.day < 256 ∧ s.hour < 256 ∧ s.minute < 256 ∧ s.second < 256

instance (ed : Nat) (s : Sect1) : Decidable (S1InRange ed s) := by unfold S1InRange; infer_instance

/-- the quantifier of C06 on a message before `bufr_end_message` -/
def FieldsInRange (m : Msg) : Prop :=
  (m.edition = 2 ∨ m.edition = 3 ∨ m.edition = 4) ∧ S1InRange m.edition m.s1 ∧
  (m.edition ≤ 3 → hasSect2 m.s1.flag = true → m.s2Data.length % 2 = 0) ∧
  m.nSubsets < 65536 ∧ m.s3Flag < 256 ∧ (∀ d ∈ m.descs, DescOk d) ∧
  m.s4Bitno < 8 ∧ m.s4Data.length = m.s4Filled + (if m.s4Bitno > 0 then 1 else 0) ∧
  m.endMessage.lenMsg < 16777216

instance (m : Msg) : Decidable (FieldsInRange m) := by unfold FieldsInRange; infer_instance

/-- Section 1 as a reader returns it -/
def normalizeS1 (ed : Nat) (s : Sect1) : Sect1 :=
  { len := s.len, headerLen := s1HeaderLen ed, masterTable := 0,
    centre := if ed = 3 then s.centre % 256 else s.centre % 65536,
    subCentre := if ed = 2 then 0 else if ed = 3 then s.subCentre % 256 else s.subCentre % 65536,
    updSeq := s.updSeq % 256, flag := s.flag % 256, msgType := s.msgType % 256,
    interSub := if ed ≥ 4 then s.interSub % 256 else 0,
    localSub := s.localSub % 256, masterVer := s.masterVer % 256, localVer := s.localVer % 256,
    year := if ed ≥ 4 then s.year % 65536 else yearOfCentury s.year % 256,
    month := s.month % 256, day := s.day % 256, hour := s.hour % 256, minute := s.minute % 256,
    second := if ed ≥ 4 then s.second % 256 else 0,
    data := if s1DefaultLen ed < s.len then
              s.data ++ List.replicate (s.len - (s.headerLen + s.data.length)) 0 else [] }

/-- a descriptor after its trip through the two-octet code -/
def normDesc (d : Nat) : Nat := codeDesc (descCode d / 256) (descCode d % 256)

/-- the message a reader returns for the bytes of `m` (after `bufr_end_message`), with the
header string `h` it collected -/
def normalize (h : Option (List Nat)) (m : Msg) : Msg :=
  { edition := m.edition, lenMsg := m.lenMsg, s1 := normalizeS1 m.edition m.s1,
    s2Len := m.s2Len, s2Data := if hasSect2 m.s1.flag then m.s2Data else [],
    s3Len := m.s3Len, nSubsets := m.nSubsets % 65536, s3Flag := m.s3Flag % 256,
    descs := m.descs.map normDesc, s3Buf := m.s3Buf.take (m.s3Len - 7),
    s4Len := m.s4Len, s4Data := m.s4Data.take (m.s4Len - 4), s4Filled := 0, s4Bitno := 0, header := h }

theorem normDesc_ok (d : Nat) (h : DescOk d) : normDesc d = d := by
  obtain ⟨h1, h2, h3⟩ := h
  have hd : d = d / 100000 * 100000 + d / 1000 % 100 * 1000 + d % 1000 := by omega
  unfold normDesc codeDesc descCode
  dsimp only
  generalize d / 100000 = f at *
  generalize d / 1000 % 100 = x at *
  generalize d % 1000 = y at *
  rw [Nat.mod_eq_of_lt h1, Nat.mod_eq_of_lt h2, Nat.mod_eq_of_lt h3]
  have hc : (f * 16384 + x * 256 + y) / 256 * 256 + (f * 16384 + x * 256 + y) % 256 = f * 16384 + x * 256 + y := by
    omega
  rw [hc]
  have e1 : (f * 16384 + x * 256 + y) / 16384 % 4 = f := by omega
  have e2 : (f * 16384 + x * 256 + y) / 256 % 64 = x := by omega
  have e3 : (f * 16384 + x * 256 + y) % 256 = y := by omega
  rw [e1, e2, e3]
  exact hd.symm

/-! ### Section 1 -/

theorem s1_read (m M : Msg) (rest : List Nat) (hed : m.edition = 2 ∨ m.edition = 3 ∨ m.edition = 4)
    (hr : S1InRange m.edition m.s1) (hM : M.edition = m.edition) (hs : M.s1 = initSect1 m.edition)
    (hlen : m.s1.len < 16777216) :
    (rdSection1 M).runList (wrSection1 m ++ rest) =
      .ok ({ M with s1 := normalizeS1 m.edition m.s1 }, rest) := by
  obtain ⟨h1, h2, h3, h4, h5, h6, h7, h8, h9, h10, h11, h12, h13, h14, h15, h16, h17, h18, h19, h20,
    h21, h22, h23⟩ := hr
  have hsub : m.s1.subCentre % 65536 = m.s1.subCentre := Nat.mod_eq_of_lt (by omega)
  have hsub' : ¬ (32768 ≤ m.s1.subCentre) := by omega
  have hyear : m.s1.year % 65536 = m.s1.year := Nat.mod_eq_of_lt (by omega)
  have hyear' : ¬ (32768 ≤ m.s1.year) := by omega
  rcases hed with he | he | he
  · simp only [he, show s1HeaderLen 2 = 17 from rfl, show s1DefaultLen 2 = 18 from rfl] at h1 h2 h3 h4 h5 h7 h9 hM hs
    by_cases hl : m.s1.len = 18
    · simp [rdSection1, wrSection1, he, hM, hs, initSect1, s1DefaultLen, s1HeaderLen, int3b, int2b, int2b_val', asShort, hl, h1,
        hsub, hsub', hyear, hyear']
      have hd : m.s1.data = [] := by
        rcases h4 with h | h
        · exact h
        · omega
      simp [hd, skipOctets, normalizeS1, s1DefaultLen, s1HeaderLen, hl, hsub, hyear]
    · have hgt : ¬ (m.s1.len ≤ 18) := by omega
      have hpos : 0 < m.s1.len - 17 := by omega
      have hz : m.s1.len - (17 + (m.s1.len - 17)) = 0 := by omega
      simp [rdSection1, wrSection1, he, hM, hs, initSect1, s1DefaultLen, s1HeaderLen, int3b, int2b, int2b_val', asShort, int3b_val, hl, h1,
        hgt, hlen, hpos, hsub, hsub', hyear, hyear']
      rw [← List.append_assoc, runList_bulk_append' _ _ _ _ (by simp; omega)]
      have hgt' : 18 < m.s1.len := by omega
      simp [skipOctets, normalizeS1, s1DefaultLen, s1HeaderLen, hgt', h1, hz, hsub, hyear]
  · simp only [he, show s1HeaderLen 3 = 17 from rfl, show s1DefaultLen 3 = 18 from rfl] at h1 h2 h3 h4 h5 h7 h9 hM hs
    by_cases hl : m.s1.len = 18
    · simp [rdSection1, wrSection1, he, hM, hs, initSect1, s1DefaultLen, s1HeaderLen, int3b, int2b, int2b_val', asShort, hl, h1,
        hsub, hsub', hyear, hyear']
      have hd : m.s1.data = [] := by
        rcases h4 with h | h
        · exact h
        · omega
      simp [hd, skipOctets, normalizeS1, s1DefaultLen, s1HeaderLen, hl, hsub, hyear]
    · have hgt : ¬ (m.s1.len ≤ 18) := by omega
      have hpos : 0 < m.s1.len - 17 := by omega
      have hz : m.s1.len - (17 + (m.s1.len - 17)) = 0 := by omega
      simp [rdSection1, wrSection1, he, hM, hs, initSect1, s1DefaultLen, s1HeaderLen, int3b, int2b, int2b_val', asShort, int3b_val, hl, h1,
        hgt, hlen, hpos, hsub, hsub', hyear, hyear']
      rw [← List.append_assoc, runList_bulk_append' _ _ _ _ (by simp; omega)]
      have hgt' : 18 < m.s1.len := by omega
      simp [skipOctets, normalizeS1, s1DefaultLen, s1HeaderLen, hgt', h1, hz, hsub, hyear]
  · simp only [he, show s1HeaderLen 4 = 22 from rfl, show s1DefaultLen 4 = 22 from rfl] at h1 h2 h3 h4 h5 h7 h9 hM hs
    by_cases hl : m.s1.len = 22
    · simp [rdSection1, wrSection1, he, hM, hs, initSect1, s1DefaultLen, s1HeaderLen, int3b, int2b, int2b_val', asShort, hl, h1,
        hsub, hsub', hyear, hyear']
      have hd : m.s1.data = [] := by
        rcases h4 with h | h
        · exact h
        · omega
      simp [hd, skipOctets, normalizeS1, s1DefaultLen, s1HeaderLen, hl, hsub, hyear]
    · have hgt : ¬ (m.s1.len ≤ 22) := by omega
      have hpos : 0 < m.s1.len - 22 := by omega
      have hz : m.s1.len - (22 + (m.s1.len - 22)) = 0 := by omega
      simp [rdSection1, wrSection1, he, hM, hs, initSect1, s1DefaultLen, s1HeaderLen, int3b, int2b, int2b_val', asShort, int3b_val, hl, h1,
        hgt, hlen, hpos, hsub, hsub', hyear, hyear']
      rw [← List.append_assoc, runList_bulk_append' _ _ _ _ (by simp; omega)]
      have hgt' : 22 < m.s1.len := by omega
      simp [skipOctets, normalizeS1, s1DefaultLen, s1HeaderLen, hgt', h1, hz, hsub, hyear]

/-! ### what `bufr_end_message` establishes -/

/-- a message whose stored lengths describe its contents (what `bufr_end_message` leaves) -/
structure Ready (m : Msg) : Prop where
  ed : m.edition = 2 ∨ m.edition = 3 ∨ m.edition = 4
  s1 : S1InRange m.edition m.s1
  s2len : m.s2Len = if hasSect2 m.s1.flag then 4 + m.s2Data.length else 0
  s3len : m.s3Len = 7 + 2 * m.descs.length + (if m.edition ≤ 3 then 1 else 0)
  s3buf : m.s3Len - 7 ≤ m.s3Buf.length
  s3bytes : m.s3Buf.take (2 * m.descs.length) = m.descs.flatMap descBytes
  nsub : m.nSubsets < 65536
  s3flag : m.s3Flag < 256
  descs : ∀ d ∈ m.descs, DescOk d
  s4len : m.s4Len = m.s4Data.length + 4
  len : m.lenMsg = 8 + m.s1.len + m.s2Len + m.s3Len + m.s4Len + 4
  small : m.lenMsg < 16777216

theorem flatMap_descBytes_length (ds : List Nat) : (ds.flatMap descBytes).length = 2 * ds.length := by
  induction ds with
  | nil => rfl
  | cons d ds ih => simp [List.flatMap_cons, descBytes, ih]; omega

theorem endMessage_edition (m : Msg) : m.endMessage.edition = m.edition := by
  rfl
theorem endMessage_s1 (m : Msg) : m.endMessage.s1 = m.s1 := by
  rfl
theorem endMessage_s2Data (m : Msg) : m.endMessage.s2Data = m.s2Data := by
  rfl
theorem endMessage_descs (m : Msg) : m.endMessage.descs = m.descs := by
  rfl
theorem endMessage_nSubsets (m : Msg) : m.endMessage.nSubsets = m.nSubsets := by
  rfl
theorem endMessage_s3Flag (m : Msg) : m.endMessage.s3Flag = m.s3Flag := by
  rfl
theorem endMessage_header (m : Msg) : m.endMessage.header = m.header := by
  rfl

theorem endMessage_s2Len (m : Msg) :
    m.endMessage.s2Len = if hasSect2 m.s1.flag then 4 + m.s2Data.length else 0 := by
  rfl

theorem endMessage_lenMsg (m : Msg) :
    m.endMessage.lenMsg = 8 + m.endMessage.s1.len + m.endMessage.s2Len + m.endMessage.s3Len +
      m.endMessage.s4Len + 4 := by
  rfl

theorem endMessage_s3Len (m : Msg) (hed : m.edition = 2 ∨ m.edition = 3 ∨ m.edition = 4) :
    m.endMessage.s3Len = 7 + 2 * m.descs.length + (if m.edition ≤ 3 then 1 else 0) := by
  unfold Msg.endMessage Msg.encodeSect3; dsimp only
  rcases hed with he | he | he <;> simp only [he] <;> split <;> simp <;> omega

end Bufr.Frame
