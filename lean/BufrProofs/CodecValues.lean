import BufrProofs.Codec
import BufrProofs.Scale
/-
  BufrProofs.CodecValues — what the bits of one element decode to, and that re-encoding the decoded
  value writes the same bits again (the element-level core of C07 and of C01's value clauses).
-/
namespace Bufr
open Bufr Bufr.SF Bufr.Scale

theorem wrapI32_id (z : Int) (h1 : -(2:Int)^31 ≤ z) (h2 : z < (2:Int)^31) : wrapI32 z = z := by
  unfold wrapI32
  have e32 : (2:Int)^32 = 4294967296 := by norm_num
  have e31 : (2:Int)^31 = 2147483648 := by norm_num
  rw [e31] at h1 h2
  simp only [e32, e31]
  split <;> omega

theorem wrapI64_id (z : Int) (h1 : -(2:Int)^63 ≤ z) (h2 : z < (2:Int)^63) : wrapI64 z = z :=
  SF.wrapI64_of_range z h1 h2

theorem wrapI64_neg1 : wrapI64 (-1) = -1 := wrapI64_id _ (by norm_num) (by norm_num)

theorem pow_le_2_31 (k : Nat) (h : k ≤ 31) : (2:Nat)^k ≤ 2147483648 := by
  calc (2:Nat)^k ≤ 2^31 := Nat.pow_le_pow_right (by omega) h
    _ = 2147483648 := by norm_num

/-- **code and flag tables are stable**: any raw pattern of the element's width (all ones = missing
included) decodes to a value that encodes to the same pattern again -/
theorem valueBits_valueOfBits_code (n : Node) (raw : Nat)
    (ht : n.enc.type = .codetable ∨ n.enc.type = .flagtable)
    (h1 : 1 ≤ n.enc.nbits) (h2 : n.enc.nbits ≤ 63) (hraw : raw ≤ missingIvalue n.enc.nbits) :
    valueBits { n with val := valueOfBits n (freshVal n.enc) raw } = raw := by
  have hm := missingIvalue_le n.enc.nbits h1 (by omega)
  have hfresh : freshVal n.enc = if n.enc.nbits ≤ 31 then Val.i32 (-1) else Val.i64 (-1) := by
    unfold freshVal valtypeOf
    rcases ht with h | h <;> simp only [h] <;> by_cases h31 : n.enc.nbits ≤ 31 <;> simp [h31]
  have hvo : valueOfBits n (freshVal n.enc) raw =
      (freshVal n.enc).setInt64 (if raw = missingIvalue n.enc.nbits then -1 else (raw : Int)) := by
    unfold valueOfBits
    rcases ht with h | h <;> simp only [h]
  have hvb : ∀ v : Val, valueBits { n with val := v } =
      (if v.getInt64 < 0 then missingIvalue n.enc.nbits else v.getInt64.toNat) := by
    intro v
    unfold valueBits
    rcases ht with h | h <;> simp only [h]
  rw [hvb, hvo, hfresh]
  by_cases hmiss : raw = missingIvalue n.enc.nbits
  · rw [if_pos hmiss]
    split
    · simp [Val.setInt64, Val.getInt64, wrapI64_neg1, wrapI32_id (-1) (by norm_num) (by norm_num), hmiss]
    · simp [Val.setInt64, Val.getInt64, wrapI64_neg1, hmiss]
  · rw [if_neg hmiss]
    have hw64 : wrapI64 (raw : Int) = raw := by
      apply wrapI64_id
      · have : (0:Int) ≤ raw := Int.natCast_nonneg raw
        have : (0:Int) ≤ (2:Int)^63 := by positivity
        omega
      · have hp : (2:Nat)^n.enc.nbits.toNat ≤ 2^63 := Nat.pow_le_pow_right (by omega) (by omega)
        have e63 : (2:Int)^63 = ((2^63 : Nat) : Int) := by norm_num
        rw [e63]; exact_mod_cast (by omega : raw < 2^63)
    split
    · next h31 =>
      have hp := pow_le_2_31 n.enc.nbits.toNat (by omega)
      have hlt : (raw : Int) < (2:Int)^31 := by
        have : (2:Int)^31 = 2147483648 := by norm_num
        rw [this]; omega
      have hge : -(2:Int)^31 ≤ (raw : Int) := by
        have : (2:Int)^31 = 2147483648 := by norm_num
        rw [this]; omega
      have hnn : ¬ ((raw : Int) < 0) := by omega
      simp [Val.setInt64, Val.getInt64, hw64, wrapI32_id _ hge hlt, hnn]
    · have hnn : ¬ ((raw : Int) < 0) := by omega
      simp [Val.setInt64, Val.getInt64, hw64, hnn]

/-- **scaled numerics are stable** (double path, C08's domain): any raw pattern decodes to a physical
value that encodes to the same pattern again -/
theorem valueBits_valueOfBits_f64 (n : Node) (raw : Nat) (x0 : FP) (ht : n.enc.type = .numeric)
    (hnb : n.enc.nbits ≤ 32) (hv : (sEnc n.enc).Valid) (hraw : raw ≤ 2^(sEnc n.enc).nbits - 1) :
    valueBits { n with val := valueOfBits n (.f64 x0) raw } = raw := by
  have hmI : missingIvalue n.enc.nbits = 2^(sEnc n.enc).nbits - 1 := by
    have h1 := hv.n1
    have : n.enc.nbits = ((sEnc n.enc).nbits : Int) := by
      unfold sEnc at h1 ⊢; simp only at h1 ⊢; omega
    rw [this]
    exact missingIvalue_eq (sEnc n.enc).nbits hv.n1 (by have := hv.n32; omega)
  unfold valueOfBits valueBits
  simp only [ht, hnb, if_true]
  by_cases hmiss : raw = missingIvalue n.enc.nbits
  · rw [if_pos hmiss]
    rw [encode_missing n.desc (sEnc n.enc) hv (.fin maxDouble) (by simp [isMissingDouble])]
    rw [hmiss, hmI]
  · rw [if_neg hmiss]
    have hlt : raw < 2^(sEnc n.enc).nbits - 1 := by omega
    have h1 : (1:ℕ) ≤ 2 ^ (sEnc n.enc).nbits := Nat.one_le_two_pow
    have hi' : ((raw:ℕ):ℤ) < 2 ^ (sEnc n.enc).nbits - 1 := by
      have : ((raw:ℕ):ℤ) < ((2 ^ (sEnc n.enc).nbits - 1 : ℕ) : ℤ) := by exact_mod_cast hlt
      rw [Nat.cast_sub h1] at this; push_cast at this; exact this
    have h0 : (0:ℤ) ≤ (raw:ℤ) := Int.natCast_nonneg raw
    have := cvtDvalToI64_onGrid n.desc (sEnc n.enc) hv _ _ (decode_onGrid (sEnc n.enc) hv raw h0 hi') (by omega)
      (decode_ge_fmin (sEnc n.enc) hv raw h0 hi') (decode_le_fmax (sEnc n.enc) hv raw h0 hi')
    rw [this]
    simp

/-- **character data are stable**: octets without NUL read back and written again are the same octets -/
theorem paddedString_stable (n : Node) (cs : List Nat) (hlen : cs.length = (n.enc.nbits / 8).toNat)
    (hc : ∀ c ∈ cs, c ≠ 0) (v0 : List Nat) :
    paddedString { n with val := (Val.str v0).setString (some cs) (n.enc.nbits / 8).toNat } = cs := by
  unfold paddedString valueString Val.setString strPad
  simp only
  have htw : ∀ l : List Nat, (∀ c ∈ l, c ≠ 0) → l.takeWhile (fun x => decide (x ≠ 0)) = l := by
    intro l
    induction l with
    | nil => intro _; rfl
    | cons a l ih =>
      intro h
      have ha : a ≠ 0 := h a (by simp)
      have hd : decide (a ≠ 0) = true := decide_eq_true ha
      rw [List.takeWhile_cons, hd]
      simp only [if_true]
      rw [ih (fun c hc' => h c (by simp [hc']))]
      try simp
  simp only [htw cs hc, ← hlen]
  simp

/-- associated-field bits survive the reduction to the field width -/
theorem bitsMSB_mod_self (w v : Nat) : bitsMSB w (v % 2^w) = bitsMSB w v := bitsMSB_mod w v

/-- the kinds of element for which re-encoding is proved stable here -/
inductive StableKind (m : Node) : Prop
  | code (ht : m.enc.type = .codetable ∨ m.enc.type = .flagtable) (h1 : 1 ≤ m.enc.nbits) (h2 : m.enc.nbits ≤ 63)
  | scaled (ht : m.enc.type = .numeric) (hnb : m.enc.nbits ≤ 32) (hv : (sEnc m.enc).Valid)
      (hf : ∃ x, freshVal m.enc = .f64 x)

theorem mkvalNode_fresh (n : Node) (h : n.val = .none) (hs : (freshVal n.enc).isSome = true) :
    mkvalNode n = { n with val := freshVal n.enc, afW := listSumN n.af, afBits := 0 } := by
  unfold mkvalNode
  rw [h]
  have h0 : Val.none.isSome = false := rfl
  simp only [h0, Bool.false_eq_true, if_false, hs, if_true]

def afPart (a : Node) : List Bool := if a.enc.afNbits > 0 ∧ a.afW > 0 then bitsMSB a.afW a.afBits else []

theorem nodeBits_numlike (a : Node) (hs : a.flags.skipped = false)
    (ht : a.enc.type = .numeric ∨ a.enc.type = .codetable ∨ a.enc.type = .flagtable ∨ a.enc.type = .chngRef) :
    nodeBits a = afPart a ++ bitsMSB a.enc.nbits.toNat (valueBits a) := by
  unfold nodeBits afPart
  rcases ht with h | h | h | h <;> simp [hs, h]

/-- **C07, one element.**  A decoder node without a value yet (`n`), of the same layout as the
encoder node `m`: the node the decoder builds from `m`'s bits writes exactly `m`'s bits again. -/
theorem nodeBits_readBack (n m : Node) (hn : n.val = .none) (hl : SameLayout n m) (hns : m.flags.skipped = false)
    (hk : StableKind m) : nodeBits (readBack n m) = nodeBits m := by
  obtain ⟨henc, hsk, hafw, hval⟩ := hl
  have hfs : (freshVal n.enc).isSome = true := by
    by_cases h : (freshVal n.enc).isSome = true
    · exact h
    · exfalso
      unfold mkvalNode at hval
      have h0 : Val.none.isSome = false := rfl
      rw [hn] at hval
      simp only [h0, Bool.false_eq_true, if_false, h] at hval
      rw [hn] at hval
      exact absurd hval (by simp [h0])
  have hmk := mkvalNode_fresh n hn hfs
  have hmkenc : (mkvalNode n).enc = m.enc := by rw [hmk]; exact henc
  have hmkval : (mkvalNode n).val = freshVal m.enc := by rw [hmk, ← henc]
  have hmksk : (mkvalNode n).flags.skipped = false := by rw [hmk]; simp only; rw [hsk]; exact hns
  -- the node before the value is set
  have hrb : readBack n m = (fun (n2 : Node) => (match n2.enc.type with
      | .ccitt => { n2 with val := n2.val.setString (some ((paddedString m).map (· % 256))) (n2.enc.nbits / 8).toNat }
      | .ieee =>
        if n2.enc.nbits = 64 then { n2 with val := n2.val.setDouble (SF.ofDoubleBits (valueBits m % 2^64)) }
        else { n2 with val := n2.val.setFloat (SF.ofFloatBits (valueBits m % 2^n2.enc.nbits.toNat)) }
      | .numeric | .chngRef | .codetable | .flagtable =>
        { n2 with val := valueOfBits n2 n2.val (valueBits m % 2^n2.enc.nbits.toNat) }
      | _ => n2 : Node))
      (if (mkvalNode n).enc.afNbits > 0 ∧ (mkvalNode n).afW > 0 then
        { mkvalNode n with afBits := m.afBits % 2^(mkvalNode n).afW } else mkvalNode n) := by
    unfold readBack; rfl
  generalize hn2 : (if (mkvalNode n).enc.afNbits > 0 ∧ (mkvalNode n).afW > 0 then
      { mkvalNode n with afBits := m.afBits % 2^(mkvalNode n).afW } else mkvalNode n) = n2 at hrb
  simp only at hrb
  have hn2enc : n2.enc = m.enc := by rw [← hn2]; split <;> simp [hmkenc]
  have hn2val : n2.val = freshVal m.enc := by rw [← hn2]; split <;> simp [hmkval]
  have hn2sk : n2.flags.skipped = false := by rw [← hn2]; split <;> simp [hmksk]
  have hn2afw : n2.afW = m.afW := by rw [← hn2]; split <;> simp [hafw]
  have hn2af : afPart n2 = afPart m := by
    unfold afPart
    rw [hn2enc, hn2afw]
    by_cases ha : m.enc.afNbits > 0 ∧ m.afW > 0
    · rw [if_pos ha, if_pos ha, ← hn2, if_pos (by rw [hmkenc, hafw]; exact ha)]
      simp only [hafw, bitsMSB_mod]
    · rw [if_neg ha, if_neg ha]
  have hnum : ∀ (ht : m.enc.type = .numeric ∨ m.enc.type = .codetable ∨ m.enc.type = .flagtable),
      readBack n m = { n2 with val := valueOfBits n2 (freshVal m.enc) (valueBits m % 2^m.enc.nbits.toNat) } := by
    intro ht
    rw [hrb, hn2enc, hn2val]
    rcases ht with h | h | h <;> simp only [h]
  -- the shape of the conclusion for the numeric-like kinds
  have hgoal : ∀ (ht : m.enc.type = .numeric ∨ m.enc.type = .codetable ∨ m.enc.type = .flagtable),
      valueBits { n2 with val := valueOfBits n2 (freshVal m.enc) (valueBits m % 2^m.enc.nbits.toNat) } =
        valueBits m % 2^m.enc.nbits.toNat →
      nodeBits (readBack n m) = nodeBits m := by
    intro ht hst
    have ht4 : m.enc.type = .numeric ∨ m.enc.type = .codetable ∨ m.enc.type = .flagtable ∨ m.enc.type = .chngRef := by
      rcases ht with h | h | h
      · exact Or.inl h
      · exact Or.inr (Or.inl h)
      · exact Or.inr (Or.inr (Or.inl h))
    rw [hnum ht, nodeBits_numlike m hns ht4]
    rw [nodeBits_numlike _ (by simpa using hn2sk) (by simpa [hn2enc] using ht4)]
    have hst' := hst
    simp only [hn2enc] at hst'
    simp only [hn2enc, hst', bitsMSB_mod]
    congr 1
    rw [← hn2af]
    unfold afPart
    simp [hn2enc]
  rcases hk with ⟨ht, h1, h2⟩ | ⟨ht, hnb, hv, ⟨x0, hf⟩⟩
  · -- code / flag table
    apply hgoal (by rcases ht with h | h; exact Or.inr (Or.inl h); exact Or.inr (Or.inr h))
    have hrawle : valueBits m % 2^m.enc.nbits.toNat ≤ missingIvalue m.enc.nbits := by
      rw [missingIvalue_le m.enc.nbits h1 (by omega)]
      have := Nat.mod_lt (valueBits m) (Nat.two_pow_pos m.enc.nbits.toNat)
      omega
    have hst := valueBits_valueOfBits_code n2 (valueBits m % 2^m.enc.nbits.toNat) (by rw [hn2enc]; exact ht)
      (by rw [hn2enc]; exact h1) (by rw [hn2enc]; exact h2) (by rw [hn2enc]; exact hrawle)
    rw [show freshVal n2.enc = freshVal m.enc from by rw [hn2enc]] at hst
    exact hst
  · -- scaled numeric through the double conversions
    apply hgoal (Or.inl ht)
    have e : (sEnc m.enc).nbits = m.enc.nbits.toNat := by unfold sEnc; rfl
    have hst := valueBits_valueOfBits_f64 n2 (valueBits m % 2^m.enc.nbits.toNat) x0 (by rw [hn2enc]; exact ht)
      (by rw [hn2enc]; exact hnb) (by rw [hn2enc]; exact hv) (by
        rw [hn2enc, e]
        have := Nat.mod_lt (valueBits m) (Nat.two_pow_pos m.enc.nbits.toNat)
        omega)
    rw [← hf] at hst
    exact hst

end Bufr
