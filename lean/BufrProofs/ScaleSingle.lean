import BufrProofs.Scale
/-
  The single-precision pair `cvtI32ToFval` / `cvtFvalToI32` at scale 0, where every operation is
  exact as long as the integers involved stay below 2^24 (the float significand).  This was the
  path the library took for an INT32 value with a reference before repository commit 8cba48a.
-/
namespace Bufr.Scale
open Bufr Bufr.SF

theorem pow10_zero : pow10 0 = 1 := by
  have := pow10_exact 0 (by norm_num) (by norm_num)
  simpa [T10] using this

theorem fl24_int (z : ℤ) (h : |z| < 2 ^ 24) : fl 24 (z:ℚ) = z := fl_int 24 z h
theorem fl53_int (z : ℤ) (h : |z| < 2 ^ 24) : fl 53 (z:ℚ) = z :=
  fl_int 53 z (lt_of_lt_of_le h (by norm_num))

theorem fPow_zero (e : Enc) (hs : e.scale = 0) : fPow e = 1 := by
  unfold fPow
  rw [hs, pow10_zero]
  have := fl24_int 1 (by norm_num)
  simpa using this

theorem maxFloat_big : (2:ℚ) ^ 24 ≤ maxFloat := by
  unfold maxFloat
  norm_num

/-- hypotheses of the scale-0 single-precision encode: everything is an integer below 2^24 -/
structure Exact24 (e : Enc) (v : ℤ) : Prop where
  s0 : e.scale = 0
  n1 : 1 ≤ e.nbits
  n32 : e.nbits ≤ 32
  rb : |e.ref| < 2 ^ 24
  vb : |v| < 2 ^ 24
  j0 : 0 ≤ v - e.ref
  j1 : v - e.ref < 2 ^ e.nbits - 1
  j24 : v - e.ref < 2 ^ 24

theorem fFmin_zero (e : Enc) (hs : e.scale = 0) (hr : |e.ref| < 2 ^ 24) : fFmin e = e.ref := by
  unfold fFmin
  rw [if_neg (by omega), fPow_zero e hs, fl24_int _ hr, div_one, fl24_int _ hr]

theorem fVal1_zero (e : Enc) (v : ℤ) (h : Exact24 e v) : fVal1 e (v:ℚ) = ((v - e.ref : ℤ) : ℚ) := by
  unfold fVal1
  rw [fPow_zero e h.s0, fl24_int _ h.rb, div_one, fl24_int _ h.rb, ← Int.cast_sub]
  exact fl24_int _ (by rw [abs_of_nonneg h.j0]; exact h.j24)

theorem fFmax_ge (e : Enc) (v : ℤ) (h : Exact24 e v) : ¬ ((v:ℚ) > fFmax e) := by
  rw [gt_iff_lt, not_lt]
  unfold fFmax
  simp only
  rw [if_neg (by have := h.s0; omega), fPow_zero e h.s0, div_one]
  have hp : (2:ℤ) ^ e.nbits ≤ 2 ^ 32 := pow_le_pow_right₀ (by norm_num) h.n32
  have hr := abs_lt.mp h.rb
  have hvv := abs_lt.mp h.vb
  set M : ℤ := 2 ^ e.nbits - 1 - 1 + e.ref with hM
  have hvM : v ≤ M := by have := h.j1; omega
  by_cases hsmall : M < 2 ^ 24
  · have hMabs : |M| < 2 ^ 24 := by rw [abs_lt]; constructor <;> omega
    rw [fl24_int M hMabs, fl24_int M hMabs]
    exact_mod_cast hvM
  · -- the sum is at least 2^24, and `fl` never crosses a power of two
    have hW : (2:ℚ) ^ (24:ℤ) ≤ (M:ℚ) := by
      have : (2:ℤ) ^ 24 ≤ M := by omega
      have h2 : (((2:ℤ) ^ 24 : ℤ) : ℚ) ≤ (M:ℚ) := by exact_mod_cast this
      rw [zpow_ofNat]
      push_cast at h2
      exact h2
    have h1 := fl_ge_pow2 24 (by norm_num) 24 _ hW
    have h2 := fl_ge_pow2 24 (by norm_num) 24 _ h1
    have : (v:ℚ) < (2:ℚ) ^ (24:ℤ) := by
      rw [zpow_ofNat]
      have : (v:ℚ) < (((2:ℤ) ^ 24 : ℤ) : ℚ) := by exact_mod_cast hvv.2
      push_cast at this; exact this
    linarith

/-- the scale-0 single-precision encoder is exact on integers below 2^24 -/
theorem cvtFvalToI32_exact24 (code : Desc) (e : Enc) (v : ℤ) (h : Exact24 e v) :
    cvtFvalToI32 code e (.fin (v:ℚ)) = (v - e.ref).toNat := by
  have hp : (2:ℤ) ^ e.nbits ≤ 2 ^ 32 := pow_le_pow_right₀ (by norm_num) h.n32
  have hr := abs_lt.mp h.rb
  have hvv := abs_lt.mp h.vb
  have hP := fPow_zero e h.s0
  set j : ℤ := v - e.ref with hj
  have hj0 : 0 ≤ j := h.j0
  have hj24 : j < 2 ^ 24 := h.j24
  have hjabs : |j| < 2 ^ 24 := by rw [abs_of_nonneg hj0]; exact hj24
  have hm : missingIvalue (e.nbits:ℤ) = 2 ^ e.nbits - 1 :=
    missingIvalue_eq e.nbits h.n1 (by have := h.n32; omega)
  have hvmax : (v:ℚ) ≠ maxFloat := by
    have := maxFloat_big
    have : (v:ℚ) < (2:ℚ) ^ 24 := by
      have : (v:ℚ) < (((2:ℤ) ^ 24 : ℤ) : ℚ) := by exact_mod_cast hvv.2
      push_cast at this; exact this
    intro hEq; linarith
  have hlo : ¬ ((v:ℚ) < fFmin e) := by
    rw [fFmin_zero e h.s0 h.rb, not_lt]
    have : e.ref ≤ v := by omega
    exact_mod_cast this
  have hhi := fFmax_ge e v h
  have hjlt : j.toNat < 2 ^ e.nbits - 1 := by
    have : (1:ℤ) ≤ 2 ^ e.nbits := one_le_pow₀ (by norm_num)
    zify
    rw [Int.toNat_of_nonneg hj0, Nat.cast_sub (by exact_mod_cast this)]
    push_cast; have := h.j1; linarith
  have hjq : ((j.toNat : ℕ) : ℚ) = (j:ℚ) := by exact_mod_cast Int.toNat_of_nonneg hj0
  -- the three arithmetic branches
  have hA : fBranchA e (v:ℚ) = j.toNat := by
    unfold fBranchA
    simp only
    rw [fVal1_zero e v h, hP, ctrunc_int, castU32_of_range j hj0 (by omega), hjq]
    rw [sub_self, fl_zero, zero_mul, fl_zero]
    have hc0 : cround (0:ℚ) = 0 := by have := cround_int 0; simpa using this
    rw [hc0, castU32_of_range 0 (le_refl _) (by norm_num)]
    simp only [Int.toNat_zero, Nat.cast_zero, fl_zero, add_zero, mul_one]
    simp only [fl24_int j hjabs]
    rw [ctrunc_int, castU32_of_range j hj0 (by omega)]
  have hC : fBranchC e (v:ℚ) = j.toNat := by
    unfold fBranchC
    simp only
    rw [hP, mul_one, fl24_int v h.vb, cround_int, castI64_of_range v (by omega) (by omega),
      wrapU32_of_range _ hj0 (by omega)]
  have hB : (v:ℚ) > 0 → fBranchB e (v:ℚ) = j.toNat := by
    intro hv0
    have hvpos : 0 < v := by exact_mod_cast hv0
    have hvq : ((v.toNat : ℕ) : ℚ) = (v:ℚ) := by exact_mod_cast Int.toNat_of_nonneg hvpos.le
    have hvz : ((v.toNat : ℕ) : ℤ) = v := Int.toNat_of_nonneg hvpos.le
    unfold fBranchB
    simp only
    rw [hP, ctrunc_int, castU32_of_range v hvpos.le (by omega), hvq, fl24_int v h.vb, sub_self,
      fl_zero, zero_mul, fl_zero]
    have hc0 : cround (0:ℚ) = 0 := by have := cround_int 0; simpa using this
    have hc1 : ctrunc (1:ℚ) = 1 := by have := ctrunc_int 1; simpa using this
    have hip : fIpow e = 1 := by
      unfold fIpow
      rw [hP, if_pos (by norm_num), hc1]
      exact castI64_of_range 1 (by norm_num) (by norm_num)
    rw [hc0, hip, castU32_of_range 0 (le_refl _) (by norm_num), hvz, mul_one]
    have : ((wrapU32 v : ℕ) : ℤ) = v := by
      rw [wrapU32_of_range v hvpos.le (by omega)]; exact hvz
    rw [this]
    have h2 : ((wrapU32 (v - e.ref) : ℕ) : ℤ) = j := by
      rw [wrapU32_of_range _ hj0 (by omega)]; exact Int.toNat_of_nonneg hj0
    rw [h2]
    simp only [Int.toNat_zero, Nat.cast_zero, add_zero]
    exact wrapU32_of_range j hj0 (by omega)
  unfold cvtFvalToI32
  rw [if_neg (by have := h.n32; omega)]
  simp only [hvmax, if_false, if_neg hhi, if_neg hlo, h.s0, le_refl, if_true]
  have hival : (if fDelta e (v:ℚ) < e.ref then fBranchA e (v:ℚ) else
      if (v:ℚ) > 0 then fBranchB e (v:ℚ) else fBranchC e (v:ℚ)) = j.toNat := by
    split_ifs with h1 h2
    · exact hA
    · exact hB h2
    · exact hC
  rw [hival, if_neg (by omega)]

/-- the scale-0 single-precision decoder on a raw value whose sum with the reference is below 2^24 -/
theorem cvtI32ToFval_exact24 (e : Enc) (i : ℕ) (hs : e.scale = 0) (hn1 : 1 ≤ e.nbits)
    (hn : e.nbits ≤ 32) (hr31 : -(2:ℤ) ^ 31 < e.ref) (hi : (i:ℤ) < 2 ^ e.nbits - 1)
    (hN : |(i:ℤ) + e.ref| < 2 ^ 24) :
    cvtI32ToFval e i = (((i:ℤ) + e.ref : ℤ) : ℚ) := by
  have hp : (2:ℤ) ^ e.nbits ≤ 2 ^ 32 := pow_le_pow_right₀ (by norm_num) hn
  have hNN := abs_lt.mp hN
  have hm : missingIvalue (e.nbits:ℤ) = 2 ^ e.nbits - 1 :=
    missingIvalue_eq e.nbits hn1 (by omega)
  have hP := fPow_zero e hs
  have hmiss : ¬ (i = missingIvalue (e.nbits:ℤ) % 2 ^ 32) := by
    rw [hm]
    have h1 : (1:ℕ) ≤ 2 ^ e.nbits := Nat.one_le_two_pow
    have h2 : 2 ^ e.nbits ≤ 2 ^ 32 := Nat.pow_le_pow_right (by norm_num) hn
    have h3 : (i:ℤ) < ((2 ^ e.nbits - 1 : ℕ) : ℤ) := by
      rw [Nat.cast_sub h1]; push_cast; exact hi
    have h4 : i < 2 ^ e.nbits - 1 := by exact_mod_cast h3
    rw [Nat.mod_eq_of_lt (by omega)]
    omega
  unfold cvtI32ToFval
  simp only [hmiss, if_false]
  rw [if_neg (by omega : ¬ e.scale < 0)]
  have hP' : fl 24 (pow10 e.scale) = 1 := hP
  rw [hP']
  by_cases hb : e.ref < 0 ∧ i < wrapU32 (-e.ref)
  · rw [if_pos hb]
    rw [wrapI32_of_range _ (by omega) (by omega), div_one, fl24_int _ hN, fl24_int _ hN]
  · rw [if_neg hb]
    have hnn : 0 ≤ (i:ℤ) + e.ref := by
      by_contra hneg
      apply hb
      have hr : e.ref < 0 := by omega
      refine ⟨hr, ?_⟩
      have : ((wrapU32 (-e.ref) : ℕ) : ℤ) = -e.ref := by
        rw [wrapU32_of_range _ (by omega) (by omega)]; exact Int.toNat_of_nonneg (by omega)
      have h5 : (i:ℤ) < ((wrapU32 (-e.ref) : ℕ) : ℤ) := by rw [this]; omega
      exact_mod_cast h5
    have hcast : ((wrapU32 ((i:ℤ) + e.ref) : ℕ) : ℚ) = (((i:ℤ) + e.ref : ℤ) : ℚ) := by
      rw [wrapU32_of_range _ hnn (by omega)]
      exact_mod_cast Int.toNat_of_nonneg hnn
    rw [hcast, div_one, fl24_int _ hN, fl24_int _ hN]


/-! ## the single-precision pair at any scale: error analysis with unit round-off 2^−24

Everything below is under the hypothesis that the integers involved are at most 2^20 in magnitude:
two float roundings of a value near `N` cost up to `|N|·2^−23`, and the `delta < reference` branch
adds the rounding of `reference/val_pow`, so 2^20 is what the three branches admit together with
simple constants (the code is observed to round-trip up to about 2^22 and fails from 2^22.1). -/

def u24 : ℚ := 1 / 2 ^ 24
theorem u24_pos : 0 < u24 := by unfold u24; positivity
theorem u24_eq : (2:ℚ) ^ (-((24:ℕ):ℤ)) = u24 := by
  unfold u24; rw [zpow_neg, zpow_natCast]; norm_num

theorem fl24_err (q : ℚ) : |fl 24 q - q| ≤ |q| * u24 := by
  have := fl_err 24 q; rwa [u24_eq] at this

theorem fl53_err24 (q : ℚ) : |fl 53 q - q| ≤ |q| * u24 := by
  have h := fl53_err q
  have : |q| * u53 ≤ |q| * u24 :=
    mul_le_mul_of_nonneg_left (by unfold u53 u24; norm_num) (abs_nonneg _)
  linarith

theorem fPow_pos (e : Enc) : 0 < fPow e := by
  unfold fPow
  have hp := pow10_pos e.scale
  have h := fl24_err (pow10 e.scale)
  rw [abs_of_pos hp] at h
  have := (abs_le.mp h).1
  have : u24 < 1 := by unfold u24; norm_num
  nlinarith

theorem fInv_pos (e : Enc) : 0 < fInv e := by
  unfold fInv
  have hp := pow10_pos (-e.scale)
  have h := fl24_err (pow10 (-e.scale))
  rw [abs_of_pos hp] at h
  have := (abs_le.mp h).1
  have : u24 < 1 := by unfold u24; norm_num
  nlinarith

/-- the divisor the single-precision code effectively uses: `val_pow` for scale ≥ 0, `1/inv_pow`
for scale < 0 (decoder and bounds multiply by `inv_pow`, the encoder divides by it) -/
def fPe (e : Enc) : ℚ := if e.scale < 0 then 1 / fInv e else fPow e

theorem fPe_pos (e : Enc) : 0 < fPe e := by
  unfold fPe; split_ifs
  · exact one_div_pos.mpr (fInv_pos e)
  · exact fPow_pos e

theorem fPe_of_nonneg (e : Enc) (hs : 0 ≤ e.scale) : fPe e = fPow e := by
  unfold fPe; rw [if_neg (not_lt.mpr hs)]

theorem mul_fInv (e : Enc) (hs : e.scale < 0) (a : ℚ) : a * fInv e = a / fPe e := by
  unfold fPe; rw [if_pos hs, div_div_eq_mul_div, div_one]

theorem div_fInv (e : Enc) (hs : e.scale < 0) (x : ℚ) : x / fInv e = x * fPe e := by
  unfold fPe; rw [if_pos hs, mul_one_div]

/-- `(float)pow(10,s)` is the exact power for `0 ≤ s ≤ 10` (`5^10 < 2^24`) -/
theorem fPow_nat (e : Enc) (n : ℕ) (hs : e.scale = n) (hn : n ≤ 10) :
    fPow e = (((10:ℤ) ^ n : ℤ) : ℚ) := by
  unfold fPow
  rw [hs, pow10_nat n (by omega)]
  have h5 : |((5:ℤ) ^ n)| < 2 ^ 24 := by
    rw [abs_of_nonneg (by positivity)]
    calc (5:ℤ) ^ n ≤ 5 ^ 10 := pow_le_pow_right₀ (by norm_num) hn
      _ < 2 ^ 24 := by norm_num
  have := fl_exact 24 ((5:ℤ) ^ n) (n:ℤ) h5
  have e1 : (((5:ℤ) ^ n : ℤ) : ℚ) * (2:ℚ) ^ (n:ℤ) = (((10:ℤ) ^ n : ℤ) : ℚ) := by
    push_cast
    rw [zpow_natCast, ← mul_pow]; norm_num
  rw [e1] at this
  exact this

/-- for `s ≥ 10` the float power is huge -/
theorem fPow_big (e : Enc) (n : ℕ) (hs : e.scale = n) (h10 : 10 ≤ n) (h22 : n ≤ 22) :
    (2:ℚ) ^ 32 ≤ fPow e := by
  unfold fPow
  rw [hs, pow10_nat n h22]
  have hq : ((10:ℚ)) ^ 10 ≤ (((10:ℤ) ^ n : ℤ) : ℚ) := by
    push_cast; exact pow_le_pow_right₀ (by norm_num) h10
  have h := fl24_err (((10:ℤ) ^ n : ℤ) : ℚ)
  have hpos : (0:ℚ) < (((10:ℤ) ^ n : ℤ) : ℚ) := by positivity
  rw [abs_of_pos hpos] at h
  have := (abs_le.mp h).1
  have : u24 ≤ 1 / 2 := by unfold u24; norm_num
  nlinarith

/-- the decoded float, scaled back: `fl24(N/P)·P` is `N` up to one rounding -/
theorem f_div_near (N P : ℚ) (hP : 0 < P) : |fl 24 (N / P) * P - N| ≤ |N| * u24 := by
  have e1 := fl24_err (N / P)
  have : fl 24 (N / P) * P - N = (fl 24 (N / P) - N / P) * P := by field_simp
  rw [this, abs_mul, abs_of_pos hP]
  calc |fl 24 (N / P) - N / P| * P ≤ |N / P| * u24 * P := mul_le_mul_of_nonneg_right e1 hP.le
    _ = |N| * u24 := by rw [abs_div, abs_of_pos hP]; field_simp

theorem f_div_lt (A B P : ℚ) (hP : 0 < P) (h : A + (|A| + |B|) * u24 < B) :
    fl 24 (A / P) < fl 24 (B / P) := by
  have a := (abs_le.mp (f_div_near A P hP)).2
  have b := (abs_le.mp (f_div_near B P hP)).1
  have : fl 24 (A / P) * P < fl 24 (B / P) * P := by nlinarith
  exact lt_of_mul_lt_mul_right this hP.le

/-- the general decoder: `(float)(ival + reference) / val_pow` -/
theorem cvtI32ToFval_eq (e : Enc) (i : ℕ) (hn1 : 1 ≤ e.nbits)
    (hn : e.nbits ≤ 32) (hr31 : -(2:ℤ) ^ 31 < e.ref) (hi : (i:ℤ) < 2 ^ e.nbits - 1)
    (hN : |(i:ℤ) + e.ref| < 2 ^ 24) :
    cvtI32ToFval e i = fl 24 ((((i:ℤ) + e.ref : ℤ) : ℚ) / fPe e) := by
  have hp : (2:ℤ) ^ e.nbits ≤ 2 ^ 32 := pow_le_pow_right₀ (by norm_num) hn
  have hNN := abs_lt.mp hN
  have hm : missingIvalue (e.nbits:ℤ) = 2 ^ e.nbits - 1 :=
    missingIvalue_eq e.nbits hn1 (by omega)
  have hmiss : ¬ (i = missingIvalue (e.nbits:ℤ) % 2 ^ 32) := by
    rw [hm]
    have h1 : (1:ℕ) ≤ 2 ^ e.nbits := Nat.one_le_two_pow
    have h2 : 2 ^ e.nbits ≤ 2 ^ 32 := Nat.pow_le_pow_right (by norm_num) hn
    have h3 : (i:ℤ) < ((2 ^ e.nbits - 1 : ℕ) : ℤ) := by
      rw [Nat.cast_sub h1]; push_cast; exact hi
    have h4 : i < 2 ^ e.nbits - 1 := by exact_mod_cast h3
    rw [Nat.mod_eq_of_lt (by omega)]
    omega
  have hsum : (e.ref < 0 ∧ i < wrapU32 (-e.ref) → wrapI32 ((i:ℤ) + e.ref) = (i:ℤ) + e.ref) ∧
      (¬ (e.ref < 0 ∧ i < wrapU32 (-e.ref)) →
        ((wrapU32 ((i:ℤ) + e.ref) : ℕ) : ℚ) = (((i:ℤ) + e.ref : ℤ) : ℚ)) := by
    constructor
    · intro _; exact wrapI32_of_range _ (by omega) (by omega)
    · intro hb
      have hnn : 0 ≤ (i:ℤ) + e.ref := by
        by_contra hneg
        apply hb
        have hr : e.ref < 0 := by omega
        refine ⟨hr, ?_⟩
        have : ((wrapU32 (-e.ref) : ℕ) : ℤ) = -e.ref := by
          rw [wrapU32_of_range _ (by omega) (by omega)]; exact Int.toNat_of_nonneg (by omega)
        have h5 : (i:ℤ) < ((wrapU32 (-e.ref) : ℕ) : ℤ) := by rw [this]; omega
        exact_mod_cast h5
      rw [wrapU32_of_range _ hnn (by omega)]
      exact_mod_cast Int.toNat_of_nonneg hnn
  unfold cvtI32ToFval
  simp only [hmiss, if_false]
  have hP' : fl 24 (pow10 e.scale) = fPow e := rfl
  have hQ' : fl 24 (pow10 (-e.scale)) = fInv e := rfl
  rw [hP', hQ']
  by_cases hs : e.scale < 0
  · rw [if_pos hs]
    by_cases hb : e.ref < 0 ∧ i < wrapU32 (-e.ref)
    · rw [if_pos hb, hsum.1 hb, fl24_int _ hN, mul_fInv e hs]
    · rw [if_neg hb, hsum.2 hb, fl24_int _ hN, mul_fInv e hs]
  · rw [if_neg hs, fPe_of_nonneg e (not_lt.mp hs)]
    by_cases hb : e.ref < 0 ∧ i < wrapU32 (-e.ref)
    · rw [if_pos hb, hsum.1 hb, fl24_int _ hN]
    · rw [if_neg hb, hsum.2 hb, fl24_int _ hN]

theorem wrapU32_cast (a : ℤ) : ((wrapU32 a : ℕ) : ℤ) = a % 2 ^ 32 := by
  unfold wrapU32
  exact Int.toNat_of_nonneg (Int.emod_nonneg _ (by norm_num))

theorem wrapU32_add_wrap (a b : ℤ) : wrapU32 ((wrapU32 a : ℤ) + b) = wrapU32 (a + b) := by
  unfold wrapU32
  rw [Int.toNat_of_nonneg (Int.emod_nonneg _ (by norm_num)), Int.emod_add_emod]

/-- hypotheses of the general-scale single-precision round trip -/
structure Small20 (e : Enc) (i : ℤ) : Prop where
  hv : e.Valid
  r20 : |e.ref| ≤ 2 ^ 20
  i0 : 0 ≤ i
  i1 : i < 2 ^ e.nbits - 1
  N20 : |i + e.ref| ≤ 2 ^ 20

/-- the decoded float -/
def fx (e : Enc) (i : ℤ) : ℚ := fl 24 (((i + e.ref : ℤ) : ℚ) / fPe e)

theorem Small20.Nq {e : Enc} {i : ℤ} (h : Small20 e i) : |((i + e.ref : ℤ) : ℚ)| ≤ 2 ^ 20 := by
  exact_mod_cast h.N20

theorem Small20.rq {e : Enc} {i : ℤ} (h : Small20 e i) : |(e.ref : ℚ)| ≤ 2 ^ 20 := by
  exact_mod_cast h.r20

theorem Small20.i21 {e : Enc} {i : ℤ} (h : Small20 e i) : i ≤ 2 ^ 21 := by
  have a := abs_le.mp h.r20; have b := abs_le.mp h.N20; omega

/-- `x·P` is `N` up to `|N|·u` -/
theorem fx_mul (e : Enc) (i : ℤ) (h : Small20 e i) :
    |fx e i * fPe e - ((i + e.ref : ℤ) : ℚ)| ≤ 2 ^ 20 * u24 :=
  le_trans (f_div_near _ _ (fPe_pos e)) (mul_le_mul_of_nonneg_right h.Nq u24_pos.le)

/-- one float rounding of `x·P` lands within ½ of `N` -/
theorem round_small (e : Enc) (i : ℤ) (h : Small20 e i) :
    |fl 24 (fx e i * fPe e) - (((i + e.ref : ℤ)) : ℚ)| < 1 / 2 := by
  have hu := u24_pos
  have hN := h.Nq
  have hxP := fx_mul e i h
  set N : ℤ := i + e.ref with hNd
  set P := fPe e with hPd
  set x := fx e i with hx
  have hxPabs : |x * P| ≤ 2 ^ 20 + 2 ^ 20 * u24 := by
    have := abs_sub_abs_le_abs_sub (x * P) (N:ℚ); linarith
  have e2 := fl24_err (x * P)
  have e3 : |fl 24 (x * P) - x * P| ≤ (2 ^ 20 + 2 ^ 20 * u24) * u24 :=
    le_trans e2 (mul_le_mul_of_nonneg_right hxPabs hu.le)
  have tri : |fl 24 (x * P) - (N:ℚ)| ≤ |fl 24 (x * P) - x * P| + |x * P - N| := by
    have := abs_add_le (fl 24 (x * P) - x * P) (x * P - N)
    simpa using this
  have : ((2:ℚ) ^ 20 + 2 ^ 20 * u24) * u24 + 2 ^ 20 * u24 < 1 / 2 := by unfold u24; norm_num
  linarith

theorem fBranchC_small (e : Enc) (i : ℤ) (h : Small20 e i) (hs : 0 ≤ e.scale) :
    fBranchC e (fx e i) = i.toNat := by
  have hnear := round_small e i h
  rw [fPe_of_nonneg e hs] at hnear
  have hNb := abs_le.mp h.N20
  unfold fBranchC
  simp only
  rw [cround_near _ _ hnear, castI64_of_range _ (by omega) (by omega)]
  have : i + e.ref - e.ref = i := by ring
  rw [this, wrapU32_of_range i h.i0 (by have := h.i21; omega)]

theorem fBranchNeg_small (e : Enc) (i : ℤ) (h : Small20 e i) (hs : e.scale < 0) :
    fBranchNeg e (fx e i) = i.toNat := by
  have hnear := round_small e i h
  have hNb := abs_le.mp h.N20
  unfold fBranchNeg
  simp only
  rw [div_fInv e hs, cround_near _ _ hnear, castI64_of_range _ (by omega) (by omega)]
  have : i + e.ref - e.ref = i := by ring
  rw [this, wrapU32_of_range i h.i0 (by have := h.i21; omega)]

/-- for a non-negative scale the float power is at least 1 and, times the integer part of anything
below 2^22, an integer `K` that the `int`/`uint32` product reproduces -/
theorem fPow_ge_one (e : Enc) (hv : e.Valid) (hs : 0 ≤ e.scale) : 1 ≤ fPow e := by
  obtain ⟨n, hn⟩ := Int.eq_ofNat_of_zero_le hs
  by_cases h10 : n ≤ 10
  · rw [fPow_nat e n hn h10]
    have : (1:ℤ) ≤ 10 ^ n := one_le_pow₀ (by norm_num)
    exact_mod_cast this
  · have := fPow_big e n hn (by omega) (by have := hv.s2; omega)
    linarith

theorem int_part_times_pow (e : Enc) (hv : e.Valid) (hs : 0 ≤ e.scale) (y : ℚ) (hy0 : 0 ≤ y)
    (hyP : y * fPow e ≤ 2 ^ 22) :
    ∃ K : ℤ, ((⌊y⌋ : ℤ) : ℚ) * fPow e = (K:ℚ) ∧ 0 ≤ K ∧ (K:ℚ) ≤ y * fPow e ∧
      ((wrapU32 (⌊y⌋ * fIpow e) : ℕ) : ℤ) = K := by
  obtain ⟨n, hn⟩ := Int.eq_ofNat_of_zero_le hs
  have hP1 := fPow_ge_one e hv hs
  have hPpos := fPow_pos e
  have ht0 : 0 ≤ ⌊y⌋ := Int.floor_nonneg.mpr hy0
  have hty : ((⌊y⌋ : ℤ) : ℚ) ≤ y := Int.floor_le y
  have htP : ((⌊y⌋ : ℤ) : ℚ) * fPow e ≤ y * fPow e := mul_le_mul_of_nonneg_right hty hPpos.le
  by_cases h9 : n ≤ 9
  · have hP := fPow_nat e n hn (by omega)
    refine ⟨⌊y⌋ * 10 ^ n, by rw [hP]; push_cast; ring, by positivity, by
      have : (((⌊y⌋ * 10 ^ n : ℤ)) : ℚ) = ((⌊y⌋ : ℤ) : ℚ) * fPow e := by rw [hP]; push_cast; ring
      rw [this]; exact htP, ?_⟩
    have hi : fIpow e = 10 ^ n := by
      have h10 : (10:ℤ) ^ n ≤ 10 ^ 9 := pow_le_pow_right₀ (by norm_num) h9
      have h0 : (0:ℤ) ≤ 10 ^ n := by positivity
      have hlt : fPow e < 9 * 10 ^ 18 := by
        rw [hP]
        have : (((10:ℤ) ^ n : ℤ) : ℚ) ≤ (((10:ℤ) ^ 9 : ℤ) : ℚ) := by exact_mod_cast h10
        push_cast at this ⊢
        linarith [show ((10:ℚ) ^ 9) < 9 * 10 ^ 18 by norm_num]
      unfold fIpow
      rw [if_pos hlt, hP, ctrunc_int]
      exact castI64_of_range _ (by omega) (by omega)
    rw [hi, wrapU32_cast]
    have hK : ⌊y⌋ * 10 ^ n ≤ 2 ^ 22 := by
      have : (((⌊y⌋ * 10 ^ n : ℤ)) : ℚ) ≤ ((2 ^ 22 : ℤ) : ℚ) := by
        have e1 : (((⌊y⌋ * 10 ^ n : ℤ)) : ℚ) = ((⌊y⌋ : ℤ) : ℚ) * fPow e := by rw [hP]; push_cast; ring
        rw [e1]; push_cast; linarith
      exact_mod_cast this
    exact Int.emod_eq_of_lt (by positivity) (by omega)
  · -- the power exceeds 2^32 (or is 10^10): the integer part is 0
    have hbig : (2:ℚ) ^ 32 ≤ fPow e := fPow_big e n hn (by omega) (by have := hv.s2; omega)
    have hz : ⌊y⌋ = 0 := by
      rw [Int.floor_eq_iff]
      refine ⟨by simpa using hy0, ?_⟩
      have : y * 2 ^ 32 ≤ y * fPow e := mul_le_mul_of_nonneg_left hbig hy0
      norm_num; nlinarith
    refine ⟨0, by rw [hz]; simp, le_refl _, by simpa using mul_nonneg hy0 hPpos.le, ?_⟩
    rw [hz]; simp [wrapU32]

theorem fBranchB_small (e : Enc) (i : ℤ) (h : Small20 e i) (hs : 0 ≤ e.scale) (hx0 : 0 < fx e i) :
    fBranchB e (fx e i) = i.toNat := by
  have hu := u24_pos
  have hN := h.Nq
  have hxP := fx_mul e i h
  rw [fPe_of_nonneg e hs] at hxP
  have hP1 := fPow_ge_one e h.hv hs
  have hPpos := fPow_pos e
  set N : ℤ := i + e.ref with hNd
  set P := fPow e with hPd
  set x := fx e i with hx
  have hxP0 : 0 ≤ x * P := (mul_pos hx0 hPpos).le
  have hxPle : x * P ≤ 2 ^ 20 + 2 ^ 20 * u24 := by
    have := (abs_le.mp hxP).2
    have := le_abs_self (N:ℚ); linarith
  have hsmall : (2:ℚ) ^ 20 + 2 ^ 20 * u24 ≤ 2 ^ 22 := by unfold u24; norm_num
  obtain ⟨K, hK1, hK0, hK2, hK3⟩ := int_part_times_pow e h.hv hs x hx0.le (by linarith)
  set tz : ℤ := ⌊x⌋ with htz
  have htz0 : 0 ≤ tz := Int.floor_nonneg.mpr hx0.le
  have htzx : (tz:ℚ) ≤ x := Int.floor_le x
  have hxlex : x ≤ x * P := by nlinarith
  have htzlt : tz < 2 ^ 23 := by
    have : (tz:ℚ) < ((2 ^ 23 : ℤ) : ℚ) := by push_cast; linarith
    exact_mod_cast this
  have htrunc : castU32 (ctrunc x) = tz.toNat := by
    rw [ctrunc_of_nonneg x hx0.le, castU32_of_range tz htz0 (by omega)]
  have htcast : ((tz.toNat : ℕ) : ℤ) = tz := Int.toNat_of_nonneg htz0
  have htq : ((tz.toNat : ℕ) : ℚ) = (tz:ℚ) := by exact_mod_cast htcast
  have hflt : fl 24 ((tz.toNat : ℕ) : ℚ) = (tz:ℚ) := by
    rw [htq]; exact fl24_int tz (by rw [abs_of_nonneg htz0]; omega)
  -- fractional part
  set f : ℚ := x - (tz:ℚ) with hf
  have hf0 : 0 ≤ f := by rw [hf]; linarith
  have hfP0 : 0 ≤ f * P := mul_nonneg hf0 hPpos.le
  have hfP : f * P = x * P - K := by rw [hf, ← hK1]; ring
  have hfPle : f * P ≤ 2 ^ 20 + 2 ^ 20 * u24 := by
    rw [hfP]; have : (0:ℚ) ≤ K := by exact_mod_cast hK0
    linarith
  set w : ℚ := fl 24 f with hw
  have hw0 : 0 ≤ w := fl_nonneg 24 (by norm_num) f hf0
  have ew := fl24_err f
  rw [abs_of_nonneg hf0] at ew
  have hwP : |w * P - f * P| ≤ (2 ^ 20 + 2 ^ 20 * u24) * u24 := by
    have : w * P - f * P = (w - f) * P := by ring
    rw [this, abs_mul, abs_of_pos hPpos]
    calc |w - f| * P ≤ f * u24 * P := mul_le_mul_of_nonneg_right ew hPpos.le
      _ = f * P * u24 := by ring
      _ ≤ (2 ^ 20 + 2 ^ 20 * u24) * u24 := mul_le_mul_of_nonneg_right hfPle hu.le
  have hwPabs : |w * P| ≤ (2 ^ 20 + 2 ^ 20 * u24) + (2 ^ 20 + 2 ^ 20 * u24) * u24 := by
    have := abs_sub_abs_le_abs_sub (w * P) (f * P)
    rw [abs_of_nonneg hfP0] at this; linarith
  set z : ℚ := fl 24 (w * P) with hz
  have ez := fl24_err (w * P)
  have hz0 : 0 ≤ z := fl_nonneg 24 (by norm_num) _ (mul_nonneg hw0 hPpos.le)
  set R : ℤ := N - K with hR
  have hzR : |z - (R:ℚ)| < 1 / 2 := by
    have e1 : f * P - (R:ℚ) = x * P - N := by rw [hfP, hR]; push_cast; ring
    have tri : |z - (R:ℚ)| ≤ |z - w * P| + |w * P - f * P| + |f * P - (R:ℚ)| := by
      have a := abs_add_le (z - w * P) (w * P - f * P)
      have b := abs_add_le (z - w * P + (w * P - f * P)) (f * P - (R:ℚ))
      have : z - w * P + (w * P - f * P) + (f * P - (R:ℚ)) = z - (R:ℚ) := by ring
      rw [this] at b; linarith
    rw [e1] at tri
    have e4 : |z - w * P| ≤ ((2 ^ 20 + 2 ^ 20 * u24) + (2 ^ 20 + 2 ^ 20 * u24) * u24) * u24 :=
      le_trans ez (mul_le_mul_of_nonneg_right hwPabs hu.le)
    have : (((2:ℚ) ^ 20 + 2 ^ 20 * u24) + (2 ^ 20 + 2 ^ 20 * u24) * u24) * u24 +
        (2 ^ 20 + 2 ^ 20 * u24) * u24 + 2 ^ 20 * u24 < 1 / 2 := by unfold u24; norm_num
    linarith
  have hR0 : 0 ≤ R := by
    have := (abs_lt.mp hzR).2
    have : ((-1:ℤ):ℚ) < (R:ℚ) := by push_cast; linarith
    have : (-1:ℤ) < R := by exact_mod_cast this
    omega
  have hNb := abs_le.mp h.N20
  have hRlt : R < 2 ^ 32 := by omega
  unfold fBranchB
  simp only
  rw [htrunc, hflt, htcast]
  rw [show fl 24 (fl 24 (x - (tz:ℚ)) * fPow e) = z from rfl]
  rw [cround_near z R hzR, castU32_of_range R hR0 hRlt, Int.toNat_of_nonneg hR0]
  rw [wrapU32_add_wrap, hK3]
  have : K - e.ref + R = i := by rw [hR, hNd]; ring
  rw [this, wrapU32_of_range i h.i0 (by have := h.i21; omega)]


theorem fFmin_eq (e : Enc) (hr : |e.ref| ≤ 2 ^ 20) : fFmin e = fl 24 ((e.ref:ℚ) / fPe e) := by
  unfold fFmin
  rw [fl24_int _ (lt_of_le_of_lt hr (by norm_num))]
  split_ifs with hs
  · rw [mul_fInv e hs]
  · rw [fPe_of_nonneg e (not_lt.mp hs)]

theorem fFmax_eq (e : Enc) :
    fFmax e = fl 24 (fl 24 (((2:ℤ) ^ e.nbits - 1 - 1 + e.ref : ℤ) : ℚ) / fPe e) := by
  unfold fFmax
  simp only
  split_ifs with hs
  · rw [mul_fInv e hs]
  · rw [fPe_of_nonneg e (not_lt.mp hs)]

theorem fx_ge_fmin (e : Enc) (i : ℤ) (h : Small20 e i) : ¬ fx e i < fFmin e := by
  rw [fFmin_eq e h.r20, not_lt]
  unfold fx
  rcases eq_or_lt_of_le h.i0 with hi | hi
  · rw [← hi]; simp
  · apply le_of_lt
    apply f_div_lt _ _ _ (fPe_pos e)
    have hN := h.Nq
    have hr := h.rq
    have hu := u24_pos
    have : ((e.ref:ℚ)) + 1 ≤ ((i + e.ref : ℤ) : ℚ) := by
      have : e.ref + 1 ≤ i + e.ref := by omega
      exact_mod_cast this
    have : (|(e.ref:ℚ)| + |((i + e.ref : ℤ) : ℚ)|) * u24 ≤ (2 ^ 20 + 2 ^ 20) * u24 :=
      mul_le_mul_of_nonneg_right (by linarith) hu.le
    have : ((2:ℚ) ^ 20 + 2 ^ 20) * u24 < 1 := by unfold u24; norm_num
    linarith

theorem fx_le_fmax (e : Enc) (i : ℤ) (h : Small20 e i) : ¬ fx e i > fFmax e := by
  rw [gt_iff_lt, not_lt, fFmax_eq]
  have hp := two_pow_nbits_le e h.hv
  have hr := abs_le.mp h.r20
  have hNb := abs_le.mp h.N20
  have hN := h.Nq
  have hu := u24_pos
  have hPpos := fPe_pos e
  set M : ℤ := 2 ^ e.nbits - 1 - 1 + e.ref with hM
  have hNM : i + e.ref ≤ M := by have := h.i1; omega
  by_cases hsmall : M < 2 ^ 24
  · have hMabs : |M| < 2 ^ 24 := by rw [abs_lt]; constructor <;> omega
    rw [fl24_int M hMabs]
    unfold fx
    rcases eq_or_lt_of_le hNM with hi | hi
    · rw [hi]
    · apply le_of_lt
      apply f_div_lt _ _ _ hPpos
      have h1 : ((i + e.ref : ℤ) : ℚ) + 1 ≤ (M:ℚ) := by
        have : i + e.ref + 1 ≤ M := by omega
        exact_mod_cast this
      have hM24 : |(M:ℚ)| ≤ 2 ^ 24 := by
        have : |M| ≤ 2 ^ 24 := by omega
        exact_mod_cast this
      have hNle := le_abs_self (((i + e.ref : ℤ) : ℚ))
      have : |((i + e.ref : ℤ) : ℚ)| * u24 ≤ 2 ^ 20 * u24 := mul_le_mul_of_nonneg_right hN hu.le
      have h20 : (2:ℚ) ^ 20 * u24 = 1 / 16 := by unfold u24; norm_num
      by_cases hc : |(M:ℚ)| ≤ 2 ^ 23
      · have : |(M:ℚ)| * u24 ≤ 2 ^ 23 * u24 := mul_le_mul_of_nonneg_right hc hu.le
        have : (2:ℚ) ^ 23 * u24 = 1 / 2 := by unfold u24; norm_num
        linarith
      · have : |(M:ℚ)| * u24 ≤ 2 ^ 24 * u24 := mul_le_mul_of_nonneg_right hM24 hu.le
        have : (2:ℚ) ^ 24 * u24 = 1 := by unfold u24; norm_num
        have hc' := not_le.mp hc
        have hMpos : (M:ℚ) = |(M:ℚ)| := by
          rw [abs_of_nonneg]
          by_contra hneg
          have : (M:ℚ) < 0 := not_le.mp hneg
          have : -(2:ℚ) ^ 20 ≤ (M:ℚ) := by
            have : -(2:ℤ) ^ 20 ≤ M := by omega
            exact_mod_cast this
          rw [abs_of_neg ‹(M:ℚ) < 0›] at hc'
          linarith
        linarith
  · -- the sum is at least 2^24: fmax·P ≥ 2^24 − 1, far above
    have hW : (2:ℚ) ^ (24:ℤ) ≤ (M:ℚ) := by
      have : (2:ℤ) ^ 24 ≤ M := by omega
      have h2 : (((2:ℤ) ^ 24 : ℤ) : ℚ) ≤ (M:ℚ) := by exact_mod_cast this
      rw [zpow_ofNat]
      push_cast at h2
      exact h2
    have h1 := fl_ge_pow2 24 (by norm_num) 24 _ hW
    rw [zpow_ofNat] at h1
    set Wf : ℚ := fl 24 (M:ℚ) with hWf
    have a := (abs_le.mp (f_div_near Wf (fPe e) hPpos)).1
    rw [abs_of_pos (by linarith : 0 < Wf)] at a
    have b := (abs_le.mp (fx_mul e i h)).2
    have hNle := le_abs_self (((i + e.ref : ℤ) : ℚ))
    have h20 : (2:ℚ) ^ 20 * u24 = 1 / 16 := by unfold u24; norm_num
    have hu1 : u24 ≤ 1 / 2 := by unfold u24; norm_num
    have : Wf * u24 ≤ Wf * (1 / 2) := mul_le_mul_of_nonneg_left hu1 (by linarith)
    apply le_of_lt
    apply lt_of_mul_lt_mul_right _ hPpos.le
    nlinarith

theorem fBranchA_small (e : Enc) (i : ℤ) (h : Small20 e i) (hs : 0 ≤ e.scale) :
    fBranchA e (fx e i) = i.toNat := by
  have hu := u24_pos
  have hN := h.Nq
  have hr := h.rq
  have hxP := fx_mul e i h
  rw [fPe_of_nonneg e hs] at hxP
  have hP1 := fPow_ge_one e h.hv hs
  have hPpos := fPow_pos e
  have hi21 := h.i21
  have hlo := not_lt.mp (fx_ge_fmin e i h)
  rw [fFmin_eq e h.r20, fPe_of_nonneg e hs] at hlo
  set N : ℤ := i + e.ref with hNd
  set P := fPow e with hPd
  set x := fx e i with hx
  set g : ℚ := fl 24 ((e.ref:ℚ) / P) with hg
  have hgP : |g * P - e.ref| ≤ 2 ^ 20 * u24 :=
    le_trans (f_div_near _ _ hPpos) (mul_le_mul_of_nonneg_right hr hu.le)
  have hiq : ((i:ℤ):ℚ) = (N:ℚ) - e.ref := by rw [hNd]; push_cast; ring
  have hiq0 : (0:ℚ) ≤ (i:ℚ) := by exact_mod_cast h.i0
  have hiq21 : (i:ℚ) ≤ 2 ^ 21 := by exact_mod_cast hi21
  -- (x − g)·P is i up to 2^21 u
  have hd : |(x - g) * P - i| ≤ 2 ^ 20 * u24 + 2 ^ 20 * u24 := by
    have e1 : (x - g) * P - i = (x * P - N) - (g * P - e.ref) := by rw [hiq]; ring
    rw [e1]
    have := abs_sub (x * P - N) (g * P - e.ref)
    linarith
  have h20 : (2:ℚ) ^ 20 * u24 = 1 / 16 := by unfold u24; norm_num
  have hdabs : |(x - g) * P| ≤ 2 ^ 21 + 1 / 8 := by
    have := abs_sub_abs_le_abs_sub ((x - g) * P) (i:ℚ)
    rw [abs_of_nonneg hiq0] at this; linarith
  -- v = val1 = fl24(x − g)
  have hv1 : fVal1 e x = fl 24 (x - g) := by
    unfold fVal1; rw [fl24_int _ (lt_of_le_of_lt h.r20 (by norm_num))]
  set v : ℚ := fl 24 (x - g) with hvd
  have hv0 : 0 ≤ v := fl_nonneg 24 (by norm_num) _ (by linarith)
  have hvP1 : |v * P - (x - g) * P| ≤ (2 ^ 21 + 1 / 8) * u24 := by
    have : v * P - (x - g) * P = (v - (x - g)) * P := by ring
    rw [this, abs_mul, abs_of_pos hPpos]
    have e1 := fl24_err (x - g)
    have hA : |(x - g) * P| = |x - g| * P := by rw [abs_mul, abs_of_pos hPpos]
    calc |v - (x - g)| * P ≤ |x - g| * u24 * P := mul_le_mul_of_nonneg_right e1 hPpos.le
      _ = |(x - g) * P| * u24 := by rw [hA]; ring
      _ ≤ (2 ^ 21 + 1 / 8) * u24 := mul_le_mul_of_nonneg_right hdabs hu.le
  have hnum1 : ((2:ℚ) ^ 21 + 1 / 8) * u24 ≤ 1 / 8 + 1 / 2 ^ 20 := by unfold u24; norm_num
  have hvPi : |v * P - i| ≤ 1 / 4 + 1 / 2 ^ 20 := by
    have tri : |v * P - i| ≤ |v * P - (x - g) * P| + |(x - g) * P - i| := by
      have := abs_add_le (v * P - (x - g) * P) ((x - g) * P - i)
      simpa using this
    linarith
  have hvP0 : 0 ≤ v * P := mul_nonneg hv0 hPpos.le
  have hvPle : v * P ≤ 2 ^ 22 := by
    have := (abs_le.mp hvPi).2
    have : (2:ℚ) ^ 21 + 1 ≤ 2 ^ 22 := by norm_num
    linarith
  have hvle : v ≤ v * P := by nlinarith
  obtain ⟨K, hK1, hK0, hK2, _⟩ := int_part_times_pow e h.hv hs v hv0 hvPle
  set tz : ℤ := ⌊v⌋ with htz
  have htz0 : 0 ≤ tz := Int.floor_nonneg.mpr hv0
  have htzv : (tz:ℚ) ≤ v := Int.floor_le v
  have htzlt : tz < 2 ^ 23 := by
    have : (tz:ℚ) < ((2 ^ 23 : ℤ) : ℚ) := by push_cast; linarith
    exact_mod_cast this
  have htrunc : castU32 (ctrunc v) = tz.toNat := by
    rw [ctrunc_of_nonneg v hv0, castU32_of_range tz htz0 (by omega)]
  have htcast : ((tz.toNat : ℕ) : ℤ) = tz := Int.toNat_of_nonneg htz0
  have htq : ((tz.toNat : ℕ) : ℚ) = (tz:ℚ) := by exact_mod_cast htcast
  have hflt : fl 24 ((tz.toNat : ℕ) : ℚ) = (tz:ℚ) := by
    rw [htq]; exact fl24_int tz (by rw [abs_of_nonneg htz0]; omega)
  have hKle : K ≤ 2 ^ 22 := by
    have : (K:ℚ) ≤ ((2 ^ 22 : ℤ) : ℚ) := by push_cast; linarith
    exact_mod_cast this
  -- fractional part, in double precision
  set f : ℚ := v - (tz:ℚ) with hf
  have hf0 : 0 ≤ f := by rw [hf]; linarith
  have hfP0 : 0 ≤ f * P := mul_nonneg hf0 hPpos.le
  have hfP : f * P = v * P - K := by rw [hf, ← hK1]; ring
  have hfPle : f * P ≤ 2 ^ 22 := by
    rw [hfP]; have : (0:ℚ) ≤ K := by exact_mod_cast hK0
    linarith
  set w : ℚ := fl 53 f with hw
  have hw0 : 0 ≤ w := fl_nonneg 53 (by norm_num) f hf0
  have ew := fl53_err f
  rw [abs_of_nonneg hf0] at ew
  have hu5 := u53_pos
  have hwP : |w * P - f * P| ≤ 2 ^ 22 * u53 := by
    have : w * P - f * P = (w - f) * P := by ring
    rw [this, abs_mul, abs_of_pos hPpos]
    calc |w - f| * P ≤ f * u53 * P := mul_le_mul_of_nonneg_right ew hPpos.le
      _ = f * P * u53 := by ring
      _ ≤ 2 ^ 22 * u53 := mul_le_mul_of_nonneg_right hfPle hu5.le
  have hwPabs : |w * P| ≤ 2 ^ 22 + 2 ^ 22 * u53 := by
    have := abs_sub_abs_le_abs_sub (w * P) (f * P)
    rw [abs_of_nonneg hfP0] at this; linarith
  set z : ℚ := fl 53 (w * P) with hz
  have ez := fl53_err (w * P)
  have hz0 : 0 ≤ z := fl_nonneg 53 (by norm_num) _ (mul_nonneg hw0 hPpos.le)
  set R : ℤ := i - K with hR
  have hzR : |z - (R:ℚ)| < 1 / 2 := by
    have e1 : f * P - (R:ℚ) = v * P - i := by rw [hfP, hR]; push_cast; ring
    have tri : |z - (R:ℚ)| ≤ |z - w * P| + |w * P - f * P| + |f * P - (R:ℚ)| := by
      have a := abs_add_le (z - w * P) (w * P - f * P)
      have b := abs_add_le (z - w * P + (w * P - f * P)) (f * P - (R:ℚ))
      have : z - w * P + (w * P - f * P) + (f * P - (R:ℚ)) = z - (R:ℚ) := by ring
      rw [this] at b; linarith
    rw [e1] at tri
    have e4 : |z - w * P| ≤ (2 ^ 22 + 2 ^ 22 * u53) * u53 :=
      le_trans ez (mul_le_mul_of_nonneg_right hwPabs hu5.le)
    have : ((2:ℚ) ^ 22 + 2 ^ 22 * u53) * u53 + 2 ^ 22 * u53 + (1 / 4 + 1 / 2 ^ 20) < 1 / 2 := by
      unfold u53; norm_num
    linarith
  have hR0 : 0 ≤ R := by
    have := (abs_lt.mp hzR).2
    have : ((-1:ℤ):ℚ) < (R:ℚ) := by push_cast; linarith
    have : (-1:ℤ) < R := by exact_mod_cast this
    omega
  have hRlt : R < 2 ^ 23 := by omega
  have hRq : ((R.toNat : ℕ) : ℚ) = (R:ℚ) := by exact_mod_cast Int.toNat_of_nonneg hR0
  unfold fBranchA
  simp only
  rw [hv1, htrunc, htq]
  rw [show fl 53 (fl 53 (v - (tz:ℚ)) * fPow e) = z from rfl]
  have hflt' : fl 24 (tz:ℚ) = (tz:ℚ) := fl24_int tz (by rw [abs_of_nonneg htz0]; omega)
  rw [cround_near z R hzR, castU32_of_range R hR0 (by omega), hRq, hflt', hK1]
  have h1 : fl 24 (K:ℚ) = (K:ℚ) := fl24_int K (by rw [abs_of_nonneg hK0]; omega)
  have h2 : fl 24 (R:ℚ) = (R:ℚ) := fl24_int R (by rw [abs_of_nonneg hR0]; omega)
  have h3 : fl 24 ((K:ℚ) + (R:ℚ)) = (i:ℚ) := by
    rw [← Int.cast_add, show K + R = i by rw [hR]; ring]
    exact fl24_int i (by rw [abs_of_nonneg h.i0]; omega)
  rw [h1, h2, h3, ctrunc_int, castU32_of_range i h.i0 (by omega)]


theorem maxFloat_huge : (2:ℚ) ^ 100 ≤ maxFloat := by unfold maxFloat; norm_num

theorem fPow_lower (e : Enc) (hv : e.Valid) : (1:ℚ) / (2 * 10 ^ 16) ≤ fPow e := by
  have hT := T10_ge e hv
  have hp := pow10_err e.scale
  have hTpos := T10_pos e.scale
  have a := (abs_le.mp hp).1
  have hu5 : u53 ≤ 1 / 4 := by unfold u53; norm_num
  have hpl : T10 e.scale * (3 / 4) ≤ pow10 e.scale := by nlinarith
  have h := fl24_err (pow10 e.scale)
  rw [abs_of_pos (pow10_pos _)] at h
  have b := (abs_le.mp h).1
  have hu : u24 ≤ 1 / 4 := by unfold u24; norm_num
  have hP : pow10 e.scale * (3 / 4) ≤ fPow e := by unfold fPow; nlinarith [pow10_pos e.scale]
  have : (1:ℚ) / (2 * 10 ^ 16) ≤ 1 / 10 ^ 16 * (3 / 4) * (3 / 4) := by norm_num
  nlinarith

theorem fInv_upper (e : Enc) (hv : e.Valid) (hs : e.scale < 0) : fInv e ≤ 2 * 10 ^ 16 := by
  have hq : pow10 (-e.scale) = T10 (-e.scale) :=
    pow10_exact _ (by omega) (by have := hv.s1; omega)
  have hT : T10 (-e.scale) ≤ 10 ^ 16 := by
    unfold T10
    have := zpow_le_zpow_right₀ (by norm_num : (1:ℚ) ≤ 10) (show -e.scale ≤ 16 by have := hv.s1; omega)
    calc (10:ℚ) ^ (-e.scale) ≤ (10:ℚ) ^ (16:ℤ) := this
      _ = 10 ^ 16 := by norm_num
  have hpos := T10_pos (-e.scale)
  have h := fl24_err (pow10 (-e.scale))
  rw [hq, abs_of_pos hpos] at h
  have b := (abs_le.mp h).2
  have hu : u24 ≤ 1 := by unfold u24; norm_num
  unfold fInv
  rw [hq]
  nlinarith

theorem fPe_lower (e : Enc) (hv : e.Valid) : (1:ℚ) / (2 * 10 ^ 16) ≤ fPe e := by
  unfold fPe
  split_ifs with hs
  · exact one_div_le_one_div_of_le (fInv_pos e) (fInv_upper e hv hs)
  · exact fPow_lower e hv

theorem fx_ne_maxFloat (e : Enc) (i : ℤ) (h : Small20 e i) : fx e i ≠ maxFloat := by
  intro hEq
  have hP := fPe_lower e h.hv
  have hPpos := fPe_pos e
  have b := (abs_le.mp (fx_mul e i h)).2
  have hN := h.Nq
  have hNle := le_abs_self (((i + e.ref : ℤ) : ℚ))
  have h20 : (2:ℚ) ^ 20 * u24 = 1 / 16 := by unfold u24; norm_num
  have hM := maxFloat_huge
  rw [hEq] at b
  have : maxFloat * (1 / (2 * 10 ^ 16)) ≤ maxFloat * fPe e :=
    mul_le_mul_of_nonneg_left hP (by linarith [show (0:ℚ) < 2 ^ 100 by positivity])
  have : (2:ℚ) ^ 100 * (1 / (2 * 10 ^ 16)) ≤ maxFloat * (1 / (2 * 10 ^ 16)) :=
    mul_le_mul_of_nonneg_right hM (by positivity)
  have : (2:ℚ) ^ 21 < 2 ^ 100 * (1 / (2 * 10 ^ 16)) := by norm_num
  linarith

/-- the value computed by whichever arithmetic branch the C takes -/
def fIval (e : Enc) (x : ℚ) : ℕ :=
  if 0 ≤ e.scale then
    (if fDelta e x < e.ref then fBranchA e x else if x > 0 then fBranchB e x else fBranchC e x)
  else fBranchNeg e x

/-- **T-Scale, single precision**: decode then encode through the float pair returns the raw value
when |ref| ≤ 2^20 and |raw + ref| ≤ 2^20, at every scale of the domain and in every branch -/
theorem cvtFvalToI32_small (code : Desc) (e : Enc) (i : ℤ) (h : Small20 e i) :
    cvtFvalToI32 code e (.fin (fx e i)) = i.toNat := by
  have hlt : i.toNat < 2 ^ e.nbits - 1 := by
    have : (1:ℤ) ≤ 2 ^ e.nbits := one_le_pow₀ (by norm_num)
    zify
    rw [Int.toNat_of_nonneg h.i0, Nat.cast_sub (by exact_mod_cast this)]
    push_cast; have := h.i1; linarith
  have hival : fIval e (fx e i) = i.toNat := by
    unfold fIval
    by_cases hs : 0 ≤ e.scale
    · rw [if_pos hs]
      split_ifs with h1 h2
      · exact fBranchA_small e i h hs
      · exact fBranchB_small e i h hs h2
      · exact fBranchC_small e i h hs
    · rw [if_neg hs]
      exact fBranchNeg_small e i h (not_le.mp hs)
  have hunf : cvtFvalToI32 code e (.fin (fx e i)) =
      if fIval e (fx e i) ≥ 2 ^ e.nbits - 1 then missingIvalue e.nbits % 2 ^ 32
      else fIval e (fx e i) := by
    unfold cvtFvalToI32 fIval
    rw [if_neg (by have := h.hv.n32; omega)]
    simp only [fx_ne_maxFloat e i h, if_false, if_neg (fx_le_fmax e i h), if_neg (fx_ge_fmin e i h)]
  rw [hunf, hival, if_neg (by omega)]

end Bufr.Scale
