import BufrModel.Sprintf
import BufrProofs.Printf
import BufrProofs.SoftFloat
import Mathlib.Tactic.Linarith
import Mathlib.Tactic.Ring
import Mathlib.Tactic.NormNum
import Mathlib.Tactic.Positivity
/-
  `sprintf` never writes more than `maxLen` says: for every format that parses and every argument
  list within the type-level bounds, the rendering exists and is at most `maxLen fmt bs` long
  (`render_length_le`).
-/
namespace Bufr.Sprintf
open Bufr.SF Bufr.Printf

/-! ### padding, precision -/

theorem pad_length (d : Dir) (num : Bool) (pre body : List Nat) :
    (pad d num pre body).length = max d.width (pre.length + body.length) := by
  unfold pad
  split_ifs <;> simp only [List.length_append, List.length_replicate] <;> omega

theorem upperIf_length (b : Bool) (s : List Nat) : (upperIf b s).length = s.length := by
  unfold upperIf; split_ifs <;> simp

theorem pad_length_le (d : Dir) (num : Bool) (pre body : List Nat) (n : Nat)
    (h : pre.length + body.length ≤ n) : (pad d num pre body).length ≤ max d.width n := by
  rw [pad_length]; omega

theorem zpad_length_eq (w : Nat) (ds : List Nat) : (zpad w ds).length = max w ds.length := by
  unfold zpad
  simp only [List.length_append, List.length_replicate]; omega

theorem intDigits_length (p : Option Nat) (ds : List Nat) (z : Bool) (nd : Nat) (h : ds.length ≤ nd) :
    (intDigits p ds z).length ≤ intBody p nd := by
  unfold intDigits intBody
  cases p with
  | none => exact h
  | some k =>
    simp only
    split_ifs
    · simp
    · rw [zpad_length_eq]; omega

theorem signOf_length (d : Dir) (neg : Bool) : (signOf d neg).length ≤ 1 := by
  unfold signOf
  split_ifs <;> simp

theorem signOf_false_length (d : Dir) : (signOf d false).length ≤ (if d.plus ∨ d.space then 1 else 0) := by
  unfold signOf
  by_cases h1 : d.plus = true <;> by_cases h2 : d.space = true <;> simp [h1, h2]

/-! ### digit counts -/

theorem ndigFrom_spec (b f k n : Nat) (h : n < b ^ (k + f)) :
    k ≤ ndigFrom b f k n ∧ n < b ^ ndigFrom b f k n := by
  induction f generalizing k with
  | zero => exact ⟨Nat.le_refl _, h⟩
  | succ f ih =>
    unfold ndigFrom
    split_ifs with h1
    · exact ⟨Nat.le_refl _, h1⟩
    · have := ih (k + 1) (by rw [show k + 1 + f = k + (f + 1) by omega]; exact h)
      exact ⟨by omega, this.2⟩

theorem lt_pow_succ_succ (b n : Nat) (hb : 2 ≤ b) : n < b ^ (1 + (n + 1)) := by
  have : n < 2 ^ n := Nat.lt_two_pow_self
  calc n < 2 ^ n := this
    _ ≤ b ^ n := Nat.pow_le_pow_left hb n
    _ ≤ b ^ (1 + (n + 1)) := Nat.pow_le_pow_right (by omega) (by omega)

theorem ndig_spec (b n : Nat) (hb : 2 ≤ b) : 1 ≤ ndig b n ∧ n < b ^ ndig b n :=
  ndigFrom_spec b (n + 1) 1 n (lt_pow_succ_succ b n hb)

theorem lt_pow_ndig (b n m : Nat) (hb : 2 ≤ b) (h : n ≤ m) : n < b ^ ndig b m :=
  lt_of_le_of_lt h (ndig_spec b m hb).2

theorem radixRev_length (b f n k : Nat) (_hb : 2 ≤ b) (hk : 1 ≤ k) (h : n < b ^ k) :
    (radixRev b f n).length ≤ k := by
  induction f generalizing n k with
  | zero => simp [radixRev]
  | succ f ih =>
    unfold radixRev
    by_cases h0 : n / b = 0
    · simp [h0]; omega
    · simp only [h0, if_false, List.length_cons]
      have hk2 : 2 ≤ k := by
        by_contra hc
        have : k = 1 := by omega
        subst this
        simp at h
        exact h0 (Nat.div_eq_of_lt h)
      have h1 : n / b < b ^ (k - 1) := by
        apply Nat.div_lt_of_lt_mul
        have : b ^ k = b * b ^ (k - 1) := by
          rw [← Nat.pow_succ']; congr 1; omega
        rw [← this]; exact h
      have := ih (n / b) (k - 1) (by omega) h1
      omega

theorem radixNat_length (b n k : Nat) (hb : 2 ≤ b) (hk : 1 ≤ k) (h : n < b ^ k) :
    (radixNat b n).length ≤ k := by
  unfold radixNat
  rw [List.length_reverse]
  exact radixRev_length _ _ _ _ hb hk h

theorem hexRev_eq_radix (f n : Nat) : hexRev f n = radixRev 16 f n := by
  induction f generalizing n with
  | zero => rfl
  | succ f ih =>
    unfold hexRev radixRev
    split_ifs <;> simp [ih]

theorem hexNat_length (n k : Nat) (hk : 1 ≤ k) (h : n < 16 ^ k) : (hexNat n).length ≤ k := by
  unfold hexNat
  rw [List.length_reverse, hexRev_eq_radix]
  exact radixRev_length _ _ _ _ (by norm_num) hk h

theorem decNat_length_ndig (n m : Nat) (h : n ≤ m) : (decNat n).length ≤ ndig 10 m :=
  decNat_length n _ (ndig_spec 10 m (by norm_num)).1 (lt_pow_ndig 10 n m (by norm_num) h)

theorem hexNat_length_ndig (n m : Nat) (h : n ≤ m) : (hexNat n).length ≤ ndig 16 m :=
  hexNat_length n _ (ndig_spec 16 m (by norm_num)).1 (lt_pow_ndig 16 n m (by norm_num) h)

theorem octNat_length_ndig (n m : Nat) (h : n ≤ m) : (radixNat 8 n).length ≤ ndig 8 m :=
  radixNat_length 8 n _ (by norm_num) (ndig_spec 8 m (by norm_num)).1 (lt_pow_ndig 8 n m (by norm_num) h)

/-! ### integer conversions -/

theorem two_pow_pred (n : Nat) (hn : 1 ≤ n) : (2:Int) ^ n = 2 * (2:Int) ^ (n - 1) := by
  have : n = (n - 1) + 1 := by omega
  conv_lhs => rw [this]
  rw [pow_succ]; ring

theorem wrapS_bounds (n : Nat) (hn : 1 ≤ n) (v : Int) :
    -(2:Int) ^ (n - 1) ≤ wrapS n v ∧ wrapS n v < (2:Int) ^ (n - 1) := by
  have hP : (0:Int) < (2:Int) ^ (n - 1) := by positivity
  have h2 := two_pow_pred n hn
  have hm0 : 0 ≤ v % (2:Int) ^ n := Int.emod_nonneg _ (by positivity)
  have hm1 : v % (2:Int) ^ n < (2:Int) ^ n := Int.emod_lt_of_pos _ (by positivity)
  unfold wrapS
  simp only
  generalize v % (2:Int) ^ n = m at *
  generalize (2:Int) ^ n = T at *
  generalize (2:Int) ^ (n - 1) = P at *
  split_ifs with h <;> omega

theorem wrapS_of_range (n : Nat) (hn : 1 ≤ n) (v : Int) (h0 : -(2:Int) ^ (n - 1) ≤ v)
    (h1 : v < (2:Int) ^ (n - 1)) : wrapS n v = v := by
  have hP : (0:Int) < (2:Int) ^ (n - 1) := by positivity
  have h2 := two_pow_pred n hn
  unfold wrapS
  simp only
  by_cases hv : 0 ≤ v
  · have : v % (2:Int) ^ n = v := Int.emod_eq_of_lt hv (by omega)
    rw [this, if_pos h1]
  · have : v % (2:Int) ^ n = v + (2:Int) ^ n := by
      rw [← Int.add_emod_right v ((2:Int) ^ n)]
      exact Int.emod_eq_of_lt (by omega) (by omega)
    rw [this]
    rw [if_neg (by omega)]
    omega

theorem wrapU_lt (n : Nat) (v : Int) : wrapU n v < 2 ^ n := by
  unfold wrapU
  have hm0 : 0 ≤ v % (2:Int) ^ n := Int.emod_nonneg _ (by positivity)
  have hm1 : v % (2:Int) ^ n < (2:Int) ^ n := Int.emod_lt_of_pos _ (by positivity)
  have hc : (((2:Nat) ^ n : Nat) : Int) = (2:Int) ^ n := by push_cast; rfl
  omega

theorem wrapU_of_range (n : Nat) (v : Int) (h0 : 0 ≤ v) (h1 : v < (2:Int) ^ n) : wrapU n v = v.toNat := by
  unfold wrapU; rw [Int.emod_eq_of_lt h0 h1]

theorem sMax_bound (size bits : Nat) (signed : Bool) (v : Int) (hb1 : 1 ≤ bits) (hbs : bits ≤ size)
    (hr : inRange bits signed v = true) :
    (wrapS size v).natAbs ≤ (sMax size bits signed).1 ∧
      ((sMax size bits signed).2 = false → 0 ≤ wrapS size v) := by
  have hs1 : 1 ≤ size := by omega
  have hmono : (2:Int) ^ (bits - 1) ≤ (2:Int) ^ (size - 1) :=
    pow_le_pow_right₀ (by norm_num) (by omega)
  have hc1 : (((2:Nat) ^ (bits - 1) : Nat) : Int) = (2:Int) ^ (bits - 1) := by push_cast; rfl
  have hc2 : (((2:Nat) ^ (size - 1) : Nat) : Int) = (2:Int) ^ (size - 1) := by push_cast; rfl
  have hc3 : (((2:Nat) ^ bits : Nat) : Int) = (2:Int) ^ bits := by push_cast; rfl
  unfold inRange at hr
  unfold sMax
  cases signed with
  | true =>
    simp only [if_true, decide_eq_true_eq] at hr
    rw [wrapS_of_range size hs1 v (by omega) (by omega)]
    simp only [true_and, hbs, if_true]
    constructor
    · omega
    · intro h; simp at h
  | false =>
    simp only [Bool.false_eq_true, if_false, decide_eq_true_eq] at hr
    by_cases hlt : bits < size
    · have hmono2 : (2:Int) ^ bits ≤ (2:Int) ^ (size - 1) :=
        pow_le_pow_right₀ (by norm_num) (by omega)
      rw [wrapS_of_range size hs1 v (by omega) (by omega)]
      simp only [Bool.false_eq_true, false_and, if_false, not_false_eq_true, true_and, hlt, if_true]
      constructor
      · omega
      · intro _; exact hr.1
    · simp only [Bool.false_eq_true, false_and, if_false, not_false_eq_true, true_and, hlt]
      have := wrapS_bounds size hs1 v
      constructor
      · omega
      · intro h; simp at h

theorem uMax_bound (size bits : Nat) (signed : Bool) (v : Int) (hbs : bits ≤ size)
    (hr : inRange bits signed v = true) : wrapU size v ≤ uMax size bits signed := by
  have hlt := wrapU_lt size v
  unfold uMax
  cases signed with
  | true =>
    simp only [not_true_eq_false, false_and, if_false]
    omega
  | false =>
    unfold inRange at hr
    simp only [Bool.false_eq_true, if_false, decide_eq_true_eq] at hr
    simp only [Bool.false_eq_true, not_false_eq_true, true_and, hbs, if_true]
    have hmono : (2:Int) ^ bits ≤ (2:Int) ^ size := pow_le_pow_right₀ (by norm_num) hbs
    rw [wrapU_of_range size v hr.1 (by omega)]
    have hc3 : (((2:Nat) ^ bits : Nat) : Int) = (2:Int) ^ bits := by push_cast; rfl
    omega

/-! ### `%f` -/

theorem rne_le_of_le_int (x : ℚ) (z : ℤ) (h : x ≤ (z:ℚ)) : rne x ≤ z := by
  have h1 := Int.floor_le x
  have hf : ⌊x⌋ ≤ z := by
    have : ((⌊x⌋ : ℤ) : ℚ) ≤ (z:ℚ) := le_trans h1 h
    exact_mod_cast this
  have hdef : rne x = if x - ((⌊x⌋ : ℤ) : ℚ) < 1/2 then ⌊x⌋ else
      if 1/2 < x - ((⌊x⌋ : ℤ) : ℚ) then ⌊x⌋ + 1 else if ⌊x⌋ % 2 = 0 then ⌊x⌋ else ⌊x⌋ + 1 := rfl
  rw [hdef]
  by_cases a : x - ((⌊x⌋ : ℤ) : ℚ) < 1/2
  · rw [if_pos a]; exact hf
  · have hlt : ((⌊x⌋ : ℤ) : ℚ) < (z:ℚ) := by linarith
    have hlt' : ⌊x⌋ < z := by exact_mod_cast hlt
    rw [if_neg a]
    split_ifs <;> omega

theorem rneNat_le (x : ℚ) (n : ℕ) (h : x ≤ (n:ℚ)) : rneNat x ≤ n := by
  unfold rneNat
  have := rne_le_of_le_int x (n:ℤ) (by exact_mod_cast h)
  omega

theorem abs_eq_ite (q : ℚ) : (if q < 0 then -q else q) = |q| := by
  split_ifs with h
  · exact (abs_of_neg h).symm
  · exact (abs_of_nonneg (not_lt.mp h)).symm

theorem fmtF_length (k : ℕ) (q : ℚ) (M D : ℕ) (hD : 1 ≤ D) (hM : M < 10 ^ D) (hq : |q| ≤ (M:ℚ)) :
    (fmtF k q).length ≤ (if q < 0 then 1 else 0) + D + (if k = 0 then 0 else 1 + k) := by
  unfold fmtF
  simp only
  rw [abs_eq_ite]
  set m := rneNat (|q| * ((10 ^ k : ℕ) : ℚ)) with hm
  have hpos : (0:ℚ) ≤ ((10 ^ k : ℕ) : ℚ) := by positivity
  have hmle : m ≤ M * 10 ^ k := by
    apply rneNat_le
    push_cast
    exact mul_le_mul_of_nonneg_right hq (by positivity)
  have hdiv : m / 10 ^ k ≤ M := Nat.div_le_of_le_mul (by rw [Nat.mul_comm]; exact hmle)
  have hint : (decNat (m / 10 ^ k)).length ≤ D := decNat_length _ _ hD (lt_of_le_of_lt hdiv hM)
  simp only [List.length_append]
  have hs : (if q < 0 then [45] else ([] : List ℕ)).length = (if q < 0 then 1 else 0) := by
    split_ifs <;> rfl
  rw [hs]
  by_cases hk : k = 0
  · simp only [hk, if_true, List.length_nil]
    subst hk
    simpa using hint
  · simp only [hk, if_false, List.length_cons]
    have hfr : (zpad k (decNat (m % 10 ^ k))).length = k :=
      zpad_length k _ (decNat_length _ k (by omega) (Nat.mod_lt _ (by positivity)))
    rw [hfr]; omega

theorem fmtF_neg (k : ℕ) (q : ℚ) (h : q < 0) : ∃ r, fmtF k q = 45 :: r := by
  unfold fmtF
  simp only [h, if_true, List.cons_append, List.nil_append]
  exact ⟨_, rfl⟩

set_option exponentiation.threshold 1100 in
theorem maxDouble_eq : maxDouble = (((2 ^ 53 - 1) * 2 ^ 971 : ℕ) : ℚ) := by
  unfold maxDouble; rw [Nat.cast_mul]
theorem maxFloat_eq : maxFloat = (((2 ^ 24 - 1) * 2 ^ 104 : ℕ) : ℚ) := by
  unfold maxFloat; rw [Nat.cast_mul]
theorem maxDouble_lt : (2 ^ 53 - 1) * 2 ^ 971 < 10 ^ 309 := by decide +kernel
theorem maxFloat_lt : (2 ^ 24 - 1) * 2 ^ 104 < 10 ^ 39 := by decide +kernel

/-! ### `%e`: the decimal exponent -/

/-- `c^x ≤ d^y` for integer exponents, by cross-multiplication in `ℕ` -/
def powLe (c d : ℕ) (x y : ℤ) : Bool :=
  decide (c ^ x.toNat * d ^ (-y).toNat ≤ d ^ y.toNat * c ^ (-x).toNat)

theorem zpow_split (c : ℕ) (hc : 0 < c) (x : ℤ) :
    ((c:ℚ)) ^ x = ((c ^ x.toNat : ℕ) : ℚ) / ((c ^ (-x).toNat : ℕ) : ℚ) := by
  have hc0 : (c:ℚ) ≠ 0 := by exact_mod_cast hc.ne'
  by_cases h : 0 ≤ x
  · obtain ⟨n, rfl⟩ := Int.eq_ofNat_of_zero_le h
    have : (-(n:ℤ)).toNat = 0 := by omega
    simp [this]
  · obtain ⟨n, hn⟩ := Int.eq_ofNat_of_zero_le (show 0 ≤ -x by omega)
    have hx : x = -(n:ℤ) := by omega
    subst hx
    have h1 : (-(n:ℤ)).toNat = 0 := by omega
    simp [h1]

theorem powLe_spec (c d : ℕ) (hc : 0 < c) (hd : 0 < d) (x y : ℤ) (h : powLe c d x y = true) :
    ((c:ℚ)) ^ x ≤ ((d:ℚ)) ^ y := by
  unfold powLe at h
  simp only [decide_eq_true_eq] at h
  rw [zpow_split c hc x, zpow_split d hd y]
  have h1 : (0:ℚ) < ((c ^ (-x).toNat : ℕ) : ℚ) := by positivity
  have h2 : (0:ℚ) < ((d ^ (-y).toNat : ℕ) : ℚ) := by positivity
  rw [div_le_div_iff₀ h1 h2]
  exact_mod_cast h

/-- the first guess `e0 = ⌊b·0.30103⌋` of `ilog10` is close: `10^(e0-1) ≤ 2^b` and `2^(b+1) ≤ 10^(e0+2)` -/
def guessOK (i : ℕ) : Bool :=
  let b : ℤ := (i:ℤ) - 1074
  let e0 : ℤ := b * 30103 / 100000
  powLe 10 2 (e0 - 1) b && powLe 2 10 (b + 1) (e0 + 2)

theorem guessOK_all : (List.range 2098).all guessOK = true := by decide +kernel

theorem guess_spec (b : ℤ) (h0 : -1074 ≤ b) (h1 : b ≤ 1023) :
    (10:ℚ) ^ (b * 30103 / 100000 - 1) ≤ (2:ℚ) ^ b ∧ (2:ℚ) ^ (b + 1) ≤ (10:ℚ) ^ (b * 30103 / 100000 + 2) := by
  have hall := guessOK_all
  rw [List.all_eq_true] at hall
  have hi := hall (b + 1074).toNat (List.mem_range.mpr (by omega))
  unfold guessOK at hi
  have hb : (((b + 1074).toNat : ℕ) : ℤ) - 1074 = b := by omega
  simp only [hb, Bool.and_eq_true] at hi
  have g1 := powLe_spec 10 2 (by norm_num) (by norm_num) _ _ hi.1
  have g2 := powLe_spec 2 10 (by norm_num) (by norm_num) _ _ hi.2
  exact ⟨by exact_mod_cast g1, by exact_mod_cast g2⟩

theorem ilog10Down_range (f : ℕ) (a : ℚ) (e c : ℤ) (hc : c ≤ e) (h : (10:ℚ) ^ c ≤ a) (hf : e - c ≤ f) :
    c ≤ ilog10Down f a e ∧ ilog10Down f a e ≤ e := by
  induction f generalizing e with
  | zero =>
    unfold ilog10Down
    constructor <;> omega
  | succ f ih =>
    unfold ilog10Down
    split_ifs with h1
    · rw [pow10r_eq] at h1
      have hne : c ≠ e := by
        rintro rfl
        exact absurd h (not_le.mpr h1)
      have := ih (e - 1) (by omega) (by push_cast at hf; omega)
      constructor <;> omega
    · constructor <;> omega

theorem ilog10Up_spec (f : ℕ) (a : ℚ) (e : ℤ) (h : a < (10:ℚ) ^ (e + f + 1)) :
    e ≤ ilog10Up f a e ∧ ilog10Up f a e ≤ e + f ∧ a < (10:ℚ) ^ (ilog10Up f a e + 1) := by
  induction f generalizing e with
  | zero =>
    unfold ilog10Up
    simp only [Nat.cast_zero, add_zero] at h
    exact ⟨le_refl _, by simp, h⟩
  | succ f ih =>
    unfold ilog10Up
    split_ifs with h1
    · have h' : a < (10:ℚ) ^ (e + 1 + (f:ℤ) + 1) := by
        have : e + 1 + (f:ℤ) + 1 = e + ((f + 1 : ℕ) : ℤ) + 1 := by push_cast; ring
        rw [this]; exact h
      have := ih (e + 1) h'
      refine ⟨by omega, by push_cast; omega, this.2.2⟩
    · rw [pow10r_eq, not_le] at h1
      exact ⟨le_refl _, by push_cast; omega, h1⟩

/-- for a positive finite `double`, `ilog10` is not too small and stays within three digits -/
theorem ilog10_spec (a : ℚ) (hlo : (2:ℚ) ^ (-1074 : ℤ) ≤ a) (hhi : a < (2:ℚ) ^ (1024 : ℤ)) :
    a < (10:ℚ) ^ (ilog10 a + 1) ∧ -330 ≤ ilog10 a ∧ ilog10 a ≤ 320 := by
  have ha0 : 0 < a := lt_of_lt_of_le (zpow_pos (by norm_num) _) hlo
  obtain ⟨hb1, hb2⟩ := ilog2_spec a ha0.ne'
  rw [abs_of_pos ha0] at hb1 hb2
  set b := ilog2 a with hb
  have hbhi : b < 1024 :=
    (zpow_lt_zpow_iff_right₀ (by norm_num : (1:ℚ) < 2)).mp (lt_of_le_of_lt hb1 hhi)
  have hblo : -1074 < b + 1 :=
    (zpow_lt_zpow_iff_right₀ (by norm_num : (1:ℚ) < 2)).mp (lt_of_le_of_lt hlo hb2)
  obtain ⟨hg1, hg2⟩ := guess_spec b (by omega) (by omega)
  have hdef : ilog10 a = ilog10Up 4 a (ilog10Down 4 a (b * 30103 / 100000)) := rfl
  set e0 := b * 30103 / 100000 with he0
  have hd := ilog10Down_range 4 a e0 (e0 - 1) (by omega) (le_trans hg1 hb1) (by norm_num)
  set e1 := ilog10Down 4 a e0 with he1
  have hlt : a < (10:ℚ) ^ (e1 + ((4:ℕ):ℤ) + 1) := by
    calc a < (2:ℚ) ^ (b + 1) := hb2
      _ ≤ (10:ℚ) ^ (e0 + 2) := hg2
      _ ≤ (10:ℚ) ^ (e1 + ((4:ℕ):ℤ) + 1) := zpow_le_zpow_right₀ (by norm_num) (by push_cast; omega)
  have hu := ilog10Up_spec 4 a e1 hlt
  rw [hdef]
  refine ⟨hu.2.2, ?_, ?_⟩
  · have : -324 ≤ e0 := by omega
    omega
  · have : e0 ≤ 308 := by omega
    have := hu.2.1
    push_cast at this
    omega

/-! ### `%e`: mantissa and text -/

/-- mantissa and exponent chosen by `fmtE` for the magnitude `a` -/
def fmtEPair (k : ℕ) (a : ℚ) : ℕ × ℤ :=
  if a = 0 then (0, 0) else
  let e := ilog10 a
  let m := rneNat (a / pow10r (e - k))
  if m ≥ 10 ^ (k + 1) then (m / 10, e + 1) else (m, e)

theorem fmtE_eq (k : ℕ) (q : ℚ) : fmtE k q =
    (if q < 0 then [45] else []) ++
      ((zpad (k + 1) (decNat (fmtEPair k (if q < 0 then -q else q)).1)).take 1 ++
        (if k = 0 then [] else 46 :: (zpad (k + 1) (decNat (fmtEPair k (if q < 0 then -q else q)).1)).drop 1)) ++
      [69] ++ (if (fmtEPair k (if q < 0 then -q else q)).2 < 0 then [45] else [43]) ++
      zpad 2 (decNat (fmtEPair k (if q < 0 then -q else q)).2.natAbs) := rfl

theorem fmtEPair_spec (k : ℕ) (a : ℚ)
    (h : a = 0 ∨ ((2:ℚ) ^ (-1074 : ℤ) ≤ a ∧ a < (2:ℚ) ^ (1024 : ℤ))) :
    (fmtEPair k a).1 < 10 ^ (k + 1) ∧ (fmtEPair k a).2.natAbs < 1000 := by
  unfold fmtEPair
  by_cases ha : a = 0
  · simp only [ha, if_true]
    exact ⟨by positivity, by decide⟩
  · rw [if_neg ha]
    rcases h with h | ⟨hlo, hhi⟩
    · exact absurd h ha
    obtain ⟨hlt, he1, he2⟩ := ilog10_spec a hlo hhi
    simp only
    set e := ilog10 a with he
    have ten : (10:ℚ) ≠ 0 := by norm_num
    have hpos : (0:ℚ) < (10:ℚ) ^ (e - (k:ℤ)) := zpow_pos (by norm_num) _
    have hx : a / pow10r (e - (k:ℤ)) ≤ ((10 ^ (k + 1) : ℕ) : ℚ) := by
      rw [pow10r_eq, div_le_iff₀ hpos]
      have : (((10 ^ (k + 1) : ℕ) : ℚ)) * (10:ℚ) ^ (e - (k:ℤ)) = (10:ℚ) ^ (e + 1) := by
        push_cast
        rw [← zpow_natCast, ← zpow_add₀ ten]
        congr 1; push_cast; ring
      rw [this]; exact hlt.le
    have hm := rneNat_le _ _ hx
    set m := rneNat (a / pow10r (e - (k:ℤ))) with hmdef
    have hP : 10 ^ (k + 1) = 10 * 10 ^ k := by rw [pow_succ]; ring
    have hP0 : 0 < 10 ^ k := by positivity
    split_ifs with hge
    · simp only
      constructor
      · generalize 10 ^ k = P at *
        omega
      · omega
    · simp only
      constructor
      · omega
      · omega

theorem fmtE_length (k : ℕ) (q : ℚ)
    (h : q = 0 ∨ ((2:ℚ) ^ (-1074 : ℤ) ≤ |q| ∧ |q| < (2:ℚ) ^ (1024 : ℤ))) :
    (fmtE k q).length ≤ (if q < 0 then 1 else 0) + (if k = 0 then 1 else k + 2) + 5 := by
  rw [fmtE_eq, abs_eq_ite]
  have h' : |q| = 0 ∨ ((2:ℚ) ^ (-1074 : ℤ) ≤ |q| ∧ |q| < (2:ℚ) ^ (1024 : ℤ)) := by
    rcases h with h | h
    · left; rw [h]; simp
    · right; exact h
  obtain ⟨hm, he⟩ := fmtEPair_spec k |q| h'
  set m := (fmtEPair k |q|).1 with hmdef
  set e := (fmtEPair k |q|).2 with hedef
  have hds : (zpad (k + 1) (decNat m)).length = k + 1 :=
    zpad_length _ _ (decNat_length m (k + 1) (by omega) hm)
  have hex : (zpad 2 (decNat e.natAbs)).length ≤ 3 := by
    rw [zpad_length_eq]
    have := decNat_length e.natAbs 3 (by norm_num) (by norm_num; exact he)
    omega
  have hs : (if q < 0 then [45] else ([] : List ℕ)).length = (if q < 0 then 1 else 0) := by
    split_ifs <;> rfl
  have hsg : (if e < 0 then [45] else ([43] : List ℕ)).length = 1 := by
    split_ifs <;> rfl
  simp only [List.length_append, hs, hsg, List.length_take, hds, List.length_cons, List.length_nil]
  by_cases hk : k = 0
  · simp only [hk, if_true, List.length_nil]; omega
  · simp only [hk, if_false, List.length_cons, List.length_drop, hds]; omega

theorem fmtE_neg (k : ℕ) (q : ℚ) (h : q < 0) : ∃ r, fmtE k q = 45 :: r := by
  rw [fmtE_eq]
  simp only [h, if_true, List.cons_append, List.nil_append]
  exact ⟨_, rfl⟩

/-! ### floating-point arguments -/

theorem maxDouble_lt_two : (2 ^ 53 - 1) * 2 ^ 971 < 2 ^ 1024 := by decide +kernel
theorem maxFloat_lt_two : (2 ^ 24 - 1) * 2 ^ 104 < 2 ^ 1024 := by decide +kernel

theorem two_pow_1024 : (2:ℚ) ^ (1024 : ℤ) = ((2 ^ 1024 : ℕ) : ℚ) := by
  rw [Nat.cast_pow, Nat.cast_ofNat]
  exact zpow_natCast (2:ℚ) 1024

theorem fpWithin_spec (lo : ℤ) (M : ℚ) (q : ℚ) (h : fpWithin lo M (.fin q) = true) :
    |q| ≤ M ∧ (q = 0 ∨ (2:ℚ) ^ lo ≤ |q|) := by
  unfold fpWithin at h
  simp only [decide_eq_true_eq] at h
  obtain ⟨h1, h2, h3⟩ := h
  refine ⟨abs_le.mpr ⟨h1, h2⟩, ?_⟩
  rcases h3 with h3 | h3 | h3
  · left; exact h3
  · right; rw [pow2_eq] at h3; exact le_trans h3 (le_abs_self q)
  · right; rw [pow2_eq] at h3; exact le_trans (by linarith) (neg_le_abs q)

theorem dbl_spec (q : ℚ) (h : fpWithin (-1074) maxDouble (.fin q) = true) :
    |q| ≤ (((2 ^ 53 - 1) * 2 ^ 971 : ℕ) : ℚ) ∧
      (q = 0 ∨ ((2:ℚ) ^ (-1074 : ℤ) ≤ |q| ∧ |q| < (2:ℚ) ^ (1024 : ℤ))) := by
  obtain ⟨h1, h2⟩ := fpWithin_spec _ _ q h
  rw [maxDouble_eq] at h1
  refine ⟨h1, ?_⟩
  rcases h2 with h2 | h2
  · left; exact h2
  · right
    refine ⟨h2, lt_of_le_of_lt h1 ?_⟩
    rw [two_pow_1024]
    exact_mod_cast maxDouble_lt_two

theorem flt_spec (q : ℚ) (h : fpWithin (-149) maxFloat (.fin q) = true) :
    |q| ≤ (((2 ^ 24 - 1) * 2 ^ 104 : ℕ) : ℚ) ∧
      (q = 0 ∨ ((2:ℚ) ^ (-1074 : ℤ) ≤ |q| ∧ |q| < (2:ℚ) ^ (1024 : ℤ))) := by
  obtain ⟨h1, h2⟩ := fpWithin_spec _ _ q h
  rw [maxFloat_eq] at h1
  refine ⟨h1, ?_⟩
  rcases h2 with h2 | h2
  · left; exact h2
  · right
    refine ⟨le_trans (zpow_le_zpow_right₀ (by norm_num) (by norm_num)) h2, lt_of_le_of_lt h1 ?_⟩
    rw [two_pow_1024]
    exact_mod_cast maxFloat_lt_two

theorem fpText_length (d : Dir) (x : FP) (fin : ℚ → List ℕ) (B : ℕ) (sg body : List ℕ) (num : Bool)
    (hB : 3 ≤ B)
    (hfin : ∀ q, x = .fin q →
      (fin q).length ≤ (if q < 0 then 1 else 0) + B ∧ (q < 0 → ∃ r, fin q = 45 :: r))
    (h : fpText d x fin = (sg, body, num)) : sg.length + body.length ≤ 1 + B := by
  cases x with
  | fin q =>
    obtain ⟨hl, hn⟩ := hfin q rfl
    unfold fpText at h
    simp only at h
    split at h
    · next r heq =>
      simp only [Prod.mk.injEq] at h
      obtain ⟨rfl, rfl, _⟩ := h
      rw [heq] at hl
      simp only [List.length_cons, List.length_nil] at hl ⊢
      split_ifs at hl <;> omega
    · next hne =>
      simp only [Prod.mk.injEq] at h
      obtain ⟨rfl, rfl, _⟩ := h
      have hq : ¬ q < 0 := by
        intro hq
        obtain ⟨r, hr⟩ := hn hq
        exact hne r hr
      rw [if_neg hq] at hl
      have := signOf_length d false
      omega
  | nan =>
    unfold fpText at h
    simp only [Prod.mk.injEq] at h
    obtain ⟨rfl, rfl, _⟩ := h
    have := signOf_length d false
    simp only [List.length_cons, List.length_nil]
    omega
  | inf neg =>
    unfold fpText at h
    simp only [Prod.mk.injEq] at h
    obtain ⟨rfl, rfl, _⟩ := h
    have := signOf_length d neg
    simp only [List.length_cons, List.length_nil]
    omega

/-! ### `%g` -/

theorem expPair_eq (k : ℕ) (a : ℚ) : expPair k a = fmtEPair k a := rfl

theorem fmtEPair_lt (k : ℕ) (a : ℚ)
    (h : a = 0 ∨ ((2:ℚ) ^ (-1074 : ℤ) ≤ a ∧ a < (2:ℚ) ^ (1024 : ℤ))) :
    a < (10:ℚ) ^ ((fmtEPair k a).2 + 1) := by
  unfold fmtEPair
  by_cases ha : a = 0
  · simp only [ha, if_true]; norm_num
  · rw [if_neg ha]
    rcases h with h | ⟨hlo, hhi⟩
    · exact absurd h ha
    obtain ⟨hlt, _, _⟩ := ilog10_spec a hlo hhi
    simp only
    split_ifs with hge
    · simp only
      exact lt_of_lt_of_le hlt (zpow_le_zpow_right₀ (by norm_num) (by omega))
    · exact hlt

theorem dropWhile_append_singleton (p : ℕ → Bool) (a : ℕ) (hp : p a = false) (l : List ℕ) :
    ∃ l', (l ++ [a]).dropWhile p = l' ++ [a] := by
  induction l with
  | nil => exact ⟨[], by simp [hp]⟩
  | cons b l ih =>
    by_cases hb : p b = true
    · obtain ⟨l', hl'⟩ := ih
      exact ⟨l', by rw [List.cons_append, List.dropWhile_cons, if_pos hb, hl']⟩
    · exact ⟨b :: l, by rw [List.cons_append, List.dropWhile_cons, if_neg hb]⟩

theorem length_dropWhile_le' (p : ℕ → Bool) (l : List ℕ) : (l.dropWhile p).length ≤ l.length := by
  induction l with
  | nil => simp
  | cons b l ih =>
    rw [List.dropWhile_cons]
    split_ifs
    · simp only [List.length_cons]; omega
    · exact le_refl _

theorem trimZeros_length_le (s : List ℕ) : (trimZeros s).length ≤ s.length := by
  unfold trimZeros
  simp only
  have h1 : ((s.reverse.dropWhile (· = 48)).reverse).length ≤ s.length := by
    rw [List.length_reverse]
    have := length_dropWhile_le' (fun x => decide (x = 48)) s.reverse
    rw [List.length_reverse] at this
    exact this
  split_ifs
  · rw [List.length_dropLast]; omega
  · exact h1

theorem trimZeros_head (r : List ℕ) : ∃ r', trimZeros (45 :: r) = 45 :: r' := by
  unfold trimZeros
  simp only
  obtain ⟨l', hl'⟩ := dropWhile_append_singleton (fun x => decide (x = 48)) 45 (by decide) r.reverse
  have ht : ((45 :: r).reverse.dropWhile (· = 48)).reverse = 45 :: l'.reverse := by
    rw [List.reverse_cons, hl', List.reverse_append]; rfl
  rw [ht]
  split_ifs with hlast
  · cases hr : l'.reverse with
    | nil => rw [hr] at hlast; simp at hlast
    | cons b t => exact ⟨(b :: t).dropLast, by simp [List.dropLast]⟩
  · exact ⟨_, rfl⟩

theorem stripFrac_length_le (s : List ℕ) : (stripFrac s).length ≤ s.length := by
  unfold stripFrac
  split_ifs
  · exact trimZeros_length_le s
  · exact le_refl _

theorem stripFrac_head (r : List ℕ) : ∃ r', stripFrac (45 :: r) = 45 :: r' := by
  unfold stripFrac
  split_ifs
  · exact trimZeros_head r
  · exact ⟨r, rfl⟩

theorem fmtG_length (P : ℕ) (alt : Bool) (q : ℚ)
    (h : q = 0 ∨ ((2:ℚ) ^ (-1074 : ℤ) ≤ |q| ∧ |q| < (2:ℚ) ^ (1024 : ℤ))) :
    (fmtG P alt q).length ≤ (if q < 0 then 1 else 0) + ((if P = 0 then 1 else P) + 6) ∧
      (q < 0 → ∃ r, fmtG P alt q = 45 :: r) := by
  have h' : |q| = 0 ∨ ((2:ℚ) ^ (-1074 : ℤ) ≤ |q| ∧ |q| < (2:ℚ) ^ (1024 : ℤ)) := by
    rcases h with h | h
    · left; rw [h]; simp
    · right; exact h
  unfold fmtG
  simp only
  rw [abs_eq_ite, expPair_eq]
  have hp1 : 1 ≤ (if P = 0 then 1 else P) := by split_ifs <;> omega
  generalize (if P = 0 then 1 else P) = p at hp1 ⊢
  have hlt := fmtEPair_lt (p - 1) |q| h'
  generalize (fmtEPair (p - 1) |q|).2 = x at hlt ⊢
  by_cases hx : -4 ≤ x ∧ x < (p:ℤ)
  · rw [if_pos hx]
    -- style f
    have hlen : (fmtF ((p:ℤ) - 1 - x).toNat q).length ≤ (if q < 0 then 1 else 0) + (p + 6) := by
      by_cases hx0 : 0 ≤ x
      · obtain ⟨n, rfl⟩ := Int.eq_ofNat_of_zero_le hx0
        have hq : |q| ≤ ((10 ^ (n + 1) : ℕ) : ℚ) := by
          have : (10:ℚ) ^ ((n:ℤ) + 1) = ((10 ^ (n + 1) : ℕ) : ℚ) := by
            push_cast
            rw [← zpow_natCast]; congr 1
          rw [← this]; exact hlt.le
        have := fmtF_length ((p:ℤ) - 1 - (n:ℤ)).toNat q (10 ^ (n + 1)) (n + 2) (by omega)
          (Nat.pow_lt_pow_right (by norm_num) (by omega)) hq
        split_ifs at this ⊢ <;> omega
      · have hq : |q| ≤ ((1 : ℕ) : ℚ) := by
          have : (10:ℚ) ^ (x + 1) ≤ (10:ℚ) ^ (0:ℤ) := zpow_le_zpow_right₀ (by norm_num) (by omega)
          rw [zpow_zero] at this
          push_cast
          exact le_trans hlt.le this
        have := fmtF_length ((p:ℤ) - 1 - x).toNat q 1 1 (by omega) (by norm_num) hq
        split_ifs at this ⊢ <;> omega
    constructor
    · cases alt with
      | true => simpa using hlen
      | false =>
        simp only [Bool.false_eq_true, if_false]
        exact le_trans (stripFrac_length_le _) hlen
    · intro hq
      obtain ⟨r, hr⟩ := fmtF_neg ((p:ℤ) - 1 - x).toNat q hq
      cases alt with
      | true => exact ⟨r, by simpa using hr⟩
      | false =>
        simp only [Bool.false_eq_true, if_false]
        rw [hr]; exact stripFrac_head r
  · rw [if_neg hx]
    -- style e
    have hlen := fmtE_length (p - 1) q h
    have hmap : ((fmtE (p - 1) q).map (fun c => if c = 69 then 101 else c)).length ≤
        (if q < 0 then 1 else 0) + (p + 6) := by
      rw [List.length_map]
      split_ifs at hlen ⊢ <;> omega
    have hhead : q < 0 → ∃ r, (fmtE (p - 1) q).map (fun c => if c = 69 then 101 else c) = 45 :: r := by
      intro hq
      obtain ⟨r, hr⟩ := fmtE_neg (p - 1) q hq
      exact ⟨_, by rw [hr, List.map_cons]; rfl⟩
    generalize (fmtE (p - 1) q).map (fun c => if c = 69 then 101 else c) = t at hmap hhead ⊢
    cases alt with
    | true =>
      simp only [if_true]
      exact ⟨hmap, hhead⟩
    | false =>
      simp only [Bool.false_eq_true, if_false]
      constructor
      · have hsplit := congrArg List.length (List.takeWhile_append_dropWhile (p := (· ≠ 101)) (l := t))
        rw [List.length_append] at hsplit ⊢
        have := stripFrac_length_le (t.takeWhile (· ≠ 101))
        omega
      · intro hq
        obtain ⟨r, rfl⟩ := hhead hq
        have htw : (45 :: r).takeWhile (· ≠ 101) = 45 :: r.takeWhile (· ≠ 101) := by
          rw [List.takeWhile_cons]; simp
        rw [htw]
        obtain ⟨r', hr'⟩ := stripFrac_head (r.takeWhile (· ≠ 101))
        rw [hr']
        exact ⟨_, List.cons_append⟩

/-! ### one directive -/

theorem ite_some_none {c : Prop} [Decidable c] {x n : ℕ} (h : (if c then some x else none) = some n) :
    c ∧ x = n := by
  by_cases hc : c
  · rw [if_pos hc] at h; exact ⟨hc, Option.some.inj h⟩
  · rw [if_neg hc] at h; exact absurd h (by simp)

theorem ite_none_some {c : Prop} [Decidable c] {x n : ℕ} (h : (if c then none else some x) = some n) :
    ¬ c ∧ x = n := by
  by_cases hc : c
  · rw [if_pos hc] at h; exact absurd h (by simp)
  · rw [if_neg hc] at h; exact ⟨hc, Option.some.inj h⟩

theorem fp_dir (d : Dir) (x : FP) (fin : ℚ → List ℕ) (B n : ℕ) (hB : 3 ≤ B)
    (hfin : ∀ q, x = .fin q →
      (fin q).length ≤ (if q < 0 then 1 else 0) + B ∧ (q < 0 → ∃ r, fin q = 45 :: r))
    (hn : max d.width (1 + B) ≤ n) :
    ∃ out, some (pad d (fpText d x fin).2.2 (fpText d x fin).1 (fpText d x fin).2.1) = some out ∧
      out.length ≤ n := by
  refine ⟨_, rfl, le_trans (pad_length_le _ _ _ _ _ ?_) hn⟩
  exact fpText_length d x fin B _ _ _ hB hfin rfl

theorem fmtF_hash_length (k : ℕ) (hash : Bool) (q : ℚ) (M D : ℕ) (hD : 1 ≤ D) (hM : M < 10 ^ D)
    (hq : |q| ≤ (M:ℚ)) :
    (fmtF k q ++ if k = 0 ∧ hash = true then [46] else []).length ≤
        (if q < 0 then 1 else 0) + (D + if k = 0 then (if hash = true then 1 else 0) else 1 + k) ∧
      (q < 0 → ∃ r, (fmtF k q ++ if k = 0 ∧ hash = true then [46] else []) = 45 :: r) := by
  constructor
  · have := fmtF_length k q M D hD hM hq
    rw [List.length_append]
    by_cases hk : k = 0 <;> cases hash <;>
      simp only [hk, if_true, if_false, false_and, and_self, and_false, List.length_cons,
        List.length_nil, Bool.false_eq_true] at this ⊢ <;> omega
  · intro h
    obtain ⟨r, hr⟩ := fmtF_neg k q h
    exact ⟨_, by rw [hr, List.cons_append]⟩

theorem fmtE_map_length (k : ℕ) (q : ℚ)
    (h : q = 0 ∨ ((2:ℚ) ^ (-1074 : ℤ) ≤ |q| ∧ |q| < (2:ℚ) ^ (1024 : ℤ))) :
    ((fmtE k q).map (fun c => if c = 69 then 101 else c)).length ≤
        (if q < 0 then 1 else 0) + ((if k = 0 then 1 else k + 2) + 5) ∧
      (q < 0 → ∃ r, (fmtE k q).map (fun c => if c = 69 then 101 else c) = 45 :: r) := by
  constructor
  · rw [List.length_map]
    have := fmtE_length k q h
    omega
  · intro hq
    obtain ⟨r, hr⟩ := fmtE_neg k q hq
    exact ⟨_, by rw [hr, List.map_cons]; rfl⟩

theorem fmtE_length' (k : ℕ) (q : ℚ)
    (h : q = 0 ∨ ((2:ℚ) ^ (-1074 : ℤ) ≤ |q| ∧ |q| < (2:ℚ) ^ (1024 : ℤ))) :
    (fmtE k q).length ≤ (if q < 0 then 1 else 0) + ((if k = 0 then 1 else k + 2) + 5) ∧
      (q < 0 → ∃ r, fmtE k q = 45 :: r) :=
  ⟨by have := fmtE_length k q h; omega, fmtE_neg k q⟩

theorem e_bound (w k : ℕ) :
    max w (1 + ((if k = 0 then 1 else k + 2) + 5)) ≤ max w ((1 + 1 + if k = 0 then 0 else 1 + k) + 5) := by
  split_ifs <;> omega

theorem renderDir_length (d : Dir) (b : ArgB) (a : Arg) (n : Nat)
    (hm : maxLenDir d b = some n) (hok : argOK b a = true) :
    ∃ out, renderDir d a = some out ∧ out.length ≤ n := by
  unfold maxLenDir at hm
  unfold renderDir
  cases hc : d.conv <;> cases b <;> simp only [hc, reduceCtorEq] at hm <;>
    cases a <;> simp only [argOK, Bool.false_eq_true] at hok <;> simp only []
  case d.int.int bits s v =>
    simp only [Bool.and_eq_true, decide_eq_true_eq] at hok
    obtain ⟨hb1, hr⟩ := hok
    obtain ⟨⟨_, hbs, _⟩, rfl⟩ := ite_some_none hm
    refine ⟨_, rfl, ?_⟩
    obtain ⟨hw1, hw2⟩ := sMax_bound d.size bits s v hb1 hbs hr
    apply pad_length_le
    have hdig := intDigits_length d.prec (decNat (wrapS d.size v).natAbs)
      (decide (wrapS d.size v = 0)) _ (decNat_length_ndig _ _ hw1)
    have hsg : (signOf d (decide (wrapS d.size v < 0))).length ≤
        (if (sMax d.size bits s).2 = true then 1 else if d.plus = true ∨ d.space = true then 1 else 0) := by
      by_cases h2 : (sMax d.size bits s).2 = true
      · rw [if_pos h2]; exact signOf_length _ _
      · rw [if_neg h2]
        have hnn := hw2 (by simpa using h2)
        have : decide (wrapS d.size v < 0) = false := by
          simp only [decide_eq_false_iff_not]; omega
        rw [this]; exact signOf_false_length d
    exact Nat.add_le_add hsg hdig
  case u.int.int bits s v =>
    simp only [Bool.and_eq_true, decide_eq_true_eq] at hok
    obtain ⟨hb1, hr⟩ := hok
    obtain ⟨⟨_, hbs, _⟩, rfl⟩ := ite_some_none hm
    refine ⟨_, rfl, ?_⟩
    apply pad_length_le
    have hdig := intDigits_length d.prec (decNat (wrapU d.size v))
      (decide (wrapU d.size v = 0)) _ (decNat_length_ndig _ _ (uMax_bound d.size bits s v hbs hr))
    simpa using hdig
  case x.int.int bits s v =>
    simp only [Bool.and_eq_true, decide_eq_true_eq] at hok
    obtain ⟨hb1, hr⟩ := hok
    obtain ⟨⟨_, hbs, _⟩, rfl⟩ := ite_some_none hm
    refine ⟨_, rfl, ?_⟩
    apply pad_length_le
    have hdig := intDigits_length d.prec (hexNat (wrapU d.size v))
      (decide (wrapU d.size v = 0)) _ (hexNat_length_ndig _ _ (uMax_bound d.size bits s v hbs hr))
    have hpre : (if d.hash = true ∧ wrapU d.size v ≠ 0 then [48, 120] else ([] : List ℕ)).length ≤
        (if d.hash = true then 2 else 0) := by
      by_cases h1 : d.hash = true <;> by_cases h2 : wrapU d.size v = 0 <;> simp [h1, h2]
    exact Nat.add_le_add hpre hdig
  case o.int.int bits s v =>
    simp only [Bool.and_eq_true, decide_eq_true_eq] at hok
    obtain ⟨hb1, hr⟩ := hok
    obtain ⟨⟨_, hbs, _, hh⟩, rfl⟩ := ite_some_none hm
    rw [if_neg hh]
    refine ⟨_, rfl, ?_⟩
    apply pad_length_le
    have hdig := intDigits_length d.prec (radixNat 8 (wrapU d.size v))
      (decide (wrapU d.size v = 0)) _ (octNat_length_ndig _ _ (uMax_bound d.size bits s v hbs hr))
    simpa using hdig
  case c.int.int bits s v =>
    obtain ⟨_, rfl⟩ := ite_some_none hm
    refine ⟨_, rfl, ?_⟩
    apply pad_length_le
    simp
  case s.str.str m s =>
    simp only [decide_eq_true_eq] at hok
    simp only [Option.some.injEq] at hm
    subst hm
    refine ⟨_, rfl, ?_⟩
    apply pad_length_le
    cases d.prec with
    | none => simpa using hok
    | some k => simp only [List.length_nil, List.length_take, zero_add]; omega
  case p.ptr.ptr p =>
    simp only [decide_eq_true_eq] at hok
    obtain ⟨hh, rfl⟩ := ite_none_some hm
    rw [if_neg hh]
    refine ⟨_, rfl, ?_⟩
    apply pad_length_le
    split_ifs
    · simp
    · have := hexNat_length p 16 (by norm_num) (by norm_num at hok ⊢; exact hok)
      simp only [List.length_nil, List.length_cons, zero_add]; omega
  case f.dbl.dbl x =>
    simp only [Option.some.injEq] at hm
    subst hm
    apply fp_dir d x _ (309 + if d.prec.getD 6 = 0 then (if d.hash = true then 1 else 0) else 1 + d.prec.getD 6)
    · omega
    · rintro q rfl
      exact fmtF_hash_length _ _ q _ 309 (by norm_num) maxDouble_lt (dbl_spec q hok).1
    · omega
  case f.flt.dbl x =>
    simp only [Option.some.injEq] at hm
    subst hm
    apply fp_dir d x _ (39 + if d.prec.getD 6 = 0 then (if d.hash = true then 1 else 0) else 1 + d.prec.getD 6)
    · omega
    · rintro q rfl
      exact fmtF_hash_length _ _ q _ 39 (by norm_num) maxFloat_lt (flt_spec q hok).1
    · omega
  case e.dbl.dbl x =>
    obtain ⟨hh, rfl⟩ := ite_none_some hm
    rw [if_neg hh]
    apply fp_dir d x _ ((if d.prec.getD 6 = 0 then 1 else d.prec.getD 6 + 2) + 5)
    · omega
    · rintro q rfl
      exact fmtE_map_length _ q (dbl_spec q hok).2
    · exact e_bound _ _
  case e.flt.dbl x =>
    obtain ⟨hh, rfl⟩ := ite_none_some hm
    rw [if_neg hh]
    apply fp_dir d x _ ((if d.prec.getD 6 = 0 then 1 else d.prec.getD 6 + 2) + 5)
    · omega
    · rintro q rfl
      exact fmtE_map_length _ q (flt_spec q hok).2
    · exact e_bound _ _
  case E.dbl.dbl x =>
    obtain ⟨hh, rfl⟩ := ite_none_some hm
    rw [if_neg hh]
    obtain ⟨out, ho, hl⟩ := fp_dir d x (fmtE (d.prec.getD 6)) ((if d.prec.getD 6 = 0 then 1 else d.prec.getD 6 + 2) + 5) _
      (by omega) (by rintro q rfl; exact fmtE_length' _ q (dbl_spec q hok).2) (e_bound _ _)
    refine ⟨_, rfl, ?_⟩
    have ho' := Option.some.inj ho
    rw [← ho', pad_length] at hl
    rw [pad_length, upperIf_length]
    exact hl
  case E.flt.dbl x =>
    obtain ⟨hh, rfl⟩ := ite_none_some hm
    rw [if_neg hh]
    obtain ⟨out, ho, hl⟩ := fp_dir d x (fmtE (d.prec.getD 6)) ((if d.prec.getD 6 = 0 then 1 else d.prec.getD 6 + 2) + 5) _
      (by omega) (by rintro q rfl; exact fmtE_length' _ q (flt_spec q hok).2) (e_bound _ _)
    refine ⟨_, rfl, ?_⟩
    have ho' := Option.some.inj ho
    rw [← ho', pad_length] at hl
    rw [pad_length, upperIf_length]
    exact hl
  case g.dbl.dbl x =>
    simp only [Option.some.injEq] at hm
    subst hm
    apply fp_dir d x _ ((if d.prec.getD 6 = 0 then 1 else d.prec.getD 6) + 6)
    · omega
    · rintro q rfl
      exact fmtG_length _ _ q (dbl_spec q hok).2
    · omega
  case g.flt.dbl x =>
    simp only [Option.some.injEq] at hm
    subst hm
    apply fp_dir d x _ ((if d.prec.getD 6 = 0 then 1 else d.prec.getD 6) + 6)
    · omega
    · rintro q rfl
      exact fmtG_length _ _ q (flt_spec q hok).2
    · omega

/-! ### whole formats -/

theorem map_cons_length (o : Option ℕ) (m : ℕ) (ro : Option (List ℕ)) (c : ℕ)
    (hm : o.map (· + 1) = some m)
    (ih : ∀ y, o = some y → ∃ out, ro = some out ∧ out.length ≤ y) :
    ∃ out, ro.map (c :: ·) = some out ∧ out.length ≤ m := by
  cases o with
  | none => simp at hm
  | some y =>
    simp only [Option.map_some, Option.some.injEq] at hm
    subst hm
    obtain ⟨out, ho, hl⟩ := ih y rfl
    refine ⟨c :: out, by rw [ho]; rfl, by simp only [List.length_cons]; omega⟩

theorem renderPieces_length (ps : List Piece) (bs : List ArgB) (as : List Arg) (m : ℕ)
    (hm : maxLenPieces ps bs = some m) (hok : argsOK bs as = true) :
    ∃ out, renderPieces ps as = some out ∧ out.length ≤ m := by
  induction ps generalizing bs as m with
  | nil =>
    simp only [maxLenPieces, Option.some.injEq] at hm
    exact ⟨[], by simp only [renderPieces], by simp⟩
  | cons p r ih =>
    cases p with
    | lit c =>
      simp only [maxLenPieces] at hm
      simp only [renderPieces]
      exact map_cons_length _ m _ c hm (fun y hy => ih bs as y hy hok)
    | dir d =>
      simp only [maxLenPieces] at hm
      simp only [renderPieces]
      by_cases hp : d.conv = .pct
      · rw [if_pos hp] at hm ⊢
        exact map_cons_length _ m _ 37 hm (fun y hy => ih bs as y hy hok)
      · rw [if_neg hp] at hm ⊢
        cases bs with
        | nil => simp at hm
        | cons b bs' =>
          cases as with
          | nil => simp [argsOK] at hok
          | cons a as' =>
            simp only [argsOK, Bool.and_eq_true] at hok
            simp only at hm ⊢
            cases h1 : maxLenDir d b with
            | none => simp [h1] at hm
            | some x =>
              cases h2 : maxLenPieces r bs' with
              | none => simp [h1, h2] at hm
              | some y =>
                simp only [h1, h2, Option.some.injEq] at hm
                subst hm
                obtain ⟨o1, ho1, hl1⟩ := renderDir_length d b a x h1 hok.1
                obtain ⟨o2, ho2, hl2⟩ := ih bs' as' y h2 hok.2
                refine ⟨o1 ++ o2, by simp only [ho1, ho2], ?_⟩
                rw [List.length_append]; omega

/-- the rendering of a format with arguments within their bounds is never longer than `maxLen` says -/
theorem render_length_le (fmt : List Nat) (bs : List ArgB) (as : List Arg) (m : Nat)
    (hm : maxLen fmt bs = some m) (hok : argsOK bs as = true) :
    ∃ out, render fmt as = some out ∧ out.length ≤ m := by
  unfold maxLen at hm
  unfold render
  cases hp : parseFmt fmt with
  | none => simp [hp] at hm
  | some ps =>
    simp only [hp] at hm ⊢
    exact renderPieces_length ps bs as m hm hok

/-! ### call sites -/

/-- a site the table calls safe by its computed bound really has room: whatever arguments within the bounds are
passed, the text after `pre` characters plus the terminating NUL fits the capacity -/
theorem siteSafe_fmt_sound (s : Site) (pre c : Nat) (hk : s.kind = .fmt (some pre)) (hc : s.cap = some c)
    (hs : siteSafe s = true) (f : List Nat) (hf : f ∈ s.fmts) (as : List Arg) (hok : argsOK s.args as = true) :
    ∃ out, render f as = some out ∧ pre + out.length + 1 ≤ c := by
  unfold siteSafe at hs
  simp only [hk, hc, Bool.and_eq_true, List.all_eq_true] at hs
  have hfm := hs.2 f hf
  cases hml : maxLen f s.args with
  | none => simp [hml] at hfm
  | some m =>
    simp only [hml, decide_eq_true_eq] at hfm
    obtain ⟨out, ho, hl⟩ := render_length_le f s.args as m hml hok
    exact ⟨out, ho, by omega⟩

end Bufr.Sprintf
