import BufrModel.TemplateText
import BufrProofs.TemplateDigits
import Mathlib.Tactic.Ring
import Mathlib.Tactic.Linarith
import Mathlib.Tactic.NormNum
import Mathlib.Tactic.FieldSimp
import Mathlib.Tactic.Positivity
import Mathlib.Data.Rat.Floor
import Mathlib.Algebra.Order.Field.Power
/-
  Reals in a template text (C18): `%.15g` / `%.17g` written by `bufr_save_template` and read back by
  `strtod`.

    * `printG_chars`     what `%g` prints is made of digits, `.`, `e`, `+`, `-` and is not empty;
    * `strtod_printG17`  a finite double printed with 17 significant digits reads back as itself.

  The second one has three parts: the exponent search (`decExp_spec`), the reader applied to each of
  the five layouts of `%g` (`parse_layout`), and the numeric core (`roundBin_near`: a value within
  5·10⁻¹⁷ relative distance of a double rounds to that double).
-/
namespace Bufr
namespace TT
open SF

/-! ### powers -/

theorem pow2_eq (e : Int) : pow2 e = (2 : ℚ) ^ e := by
  unfold pow2
  split
  · rename_i h
    obtain ⟨n, rfl⟩ := Int.eq_ofNat_of_zero_le h
    simp
  · rename_i h
    have h' : 0 ≤ -e := by omega
    obtain ⟨n, hn⟩ := Int.eq_ofNat_of_zero_le h'
    have : e = -(n : Int) := by omega
    subst this
    simp

theorem pow10r_eq (e : Int) : pow10r e = (10 : ℚ) ^ e := by
  unfold pow10r
  split
  · rename_i h
    obtain ⟨n, rfl⟩ := Int.eq_ofNat_of_zero_le h
    simp
  · rename_i h
    have h' : 0 ≤ -e := by omega
    obtain ⟨n, hn⟩ := Int.eq_ofNat_of_zero_le h'
    have : e = -(n : Int) := by omega
    subst this
    simp

theorem z2_pos (e : Int) : (0 : ℚ) < 2 ^ e := zpow_pos (by norm_num) e
theorem z10_pos (e : Int) : (0 : ℚ) < 10 ^ e := zpow_pos (by norm_num) e
theorem z2_le {a b : Int} (h : a ≤ b) : (2 : ℚ) ^ a ≤ 2 ^ b := zpow_le_zpow_right₀ (by norm_num) h
theorem z2_lt {a b : Int} (h : a < b) : (2 : ℚ) ^ a < 2 ^ b := zpow_lt_zpow_right₀ (by norm_num) h
theorem z2_lt_iff {a b : Int} : (2 : ℚ) ^ a < 2 ^ b ↔ a < b := zpow_lt_zpow_iff_right₀ (by norm_num)
theorem z10_le {a b : Int} (h : a ≤ b) : (10 : ℚ) ^ a ≤ 10 ^ b := zpow_le_zpow_right₀ (by norm_num) h
theorem z10_lt {a b : Int} (h : a < b) : (10 : ℚ) ^ a < 10 ^ b := zpow_lt_zpow_right₀ (by norm_num) h
theorem z10_lt_iff {a b : Int} : (10 : ℚ) ^ a < 10 ^ b ↔ a < b := zpow_lt_zpow_iff_right₀ (by norm_num)
theorem z2_add (a b : Int) : (2 : ℚ) ^ (a + b) = 2 ^ a * 2 ^ b := zpow_add₀ (by norm_num) a b
theorem z10_add (a b : Int) : (10 : ℚ) ^ (a + b) = 10 ^ a * 10 ^ b := zpow_add₀ (by norm_num) a b

/-- `SF.ilog2` is the floor of the binary logarithm -/
theorem ilog2_spec (q : ℚ) (hq : 0 < q) : (2 : ℚ) ^ ilog2 q ≤ q ∧ q < 2 ^ (ilog2 q + 1) := by
  have hn : 0 < q.num := Rat.num_pos.mpr hq
  obtain ⟨n, hnn⟩ := Int.eq_ofNat_of_zero_le hn.le
  have hn0 : n ≠ 0 := by
    intro h; rw [h] at hnn
    have : q.num = 0 := by simpa using hnn
    omega
  have hd0 : q.den ≠ 0 := q.den_nz
  have hqe : q = (n : ℚ) / (q.den : ℚ) := by
    have := Rat.num_div_den q
    rw [hnn, Int.cast_natCast] at this
    exact this.symm
  have hnat : q.num.natAbs = n := by rw [hnn]; simp
  unfold ilog2
  simp only [hnat, pow2_eq]
  generalize q.den = d at *
  have h1 : (2 : ℚ) ^ (n.log2 : Int) ≤ n := by
    have := Nat.log2_self_le hn0
    rw [zpow_natCast]; exact_mod_cast this
  have h2 : (n : ℚ) < 2 ^ ((n.log2 : Int) + 1) := by
    have := @Nat.lt_log2_self n
    have e : ((n.log2 : Int) + 1) = ((n.log2 + 1 : Nat) : Int) := by push_cast; rfl
    rw [e, zpow_natCast]; exact_mod_cast this
  have h3 : (2 : ℚ) ^ (d.log2 : Int) ≤ d := by
    have := Nat.log2_self_le hd0
    rw [zpow_natCast]; exact_mod_cast this
  have h4 : (d : ℚ) < 2 ^ ((d.log2 : Int) + 1) := by
    have := @Nat.lt_log2_self d
    have e : ((d.log2 : Int) + 1) = ((d.log2 + 1 : Nat) : Int) := by push_cast; rfl
    rw [e, zpow_natCast]; exact_mod_cast this
  have hdpos : (0 : ℚ) < d := by exact_mod_cast Nat.pos_of_ne_zero hd0
  have hlow : (2 : ℚ) ^ ((n.log2 : Int) - d.log2 - 1) < q := by
    rw [hqe, lt_div_iff₀ hdpos]
    calc (2 : ℚ) ^ ((n.log2 : Int) - d.log2 - 1) * d
        < 2 ^ ((n.log2 : Int) - d.log2 - 1) * 2 ^ ((d.log2 : Int) + 1) :=
          mul_lt_mul_of_pos_left h4 (z2_pos _)
      _ = 2 ^ (n.log2 : Int) := by rw [← z2_add]; congr 1; ring
      _ ≤ n := h1
  have hhigh : q < (2 : ℚ) ^ ((n.log2 : Int) - d.log2 + 1) := by
    rw [hqe, div_lt_iff₀ hdpos]
    calc (n : ℚ) < 2 ^ ((n.log2 : Int) + 1) := h2
      _ = 2 ^ ((n.log2 : Int) - d.log2 + 1) * 2 ^ (d.log2 : Int) := by
          rw [← z2_add]; congr 1; ring
      _ ≤ 2 ^ ((n.log2 : Int) - d.log2 + 1) * d :=
          mul_le_mul_of_nonneg_left h3 (z2_pos _).le
  split
  · rename_i h
    refine ⟨?_, hhigh⟩
    rw [hqe, le_div_iff₀ hdpos]
    exact h
  · rename_i h
    rw [not_le] at h
    refine ⟨hlow.le, ?_⟩
    have : ((n.log2 : Int) - d.log2 - 1 + 1) = (n.log2 : Int) - d.log2 := by ring
    rw [this, hqe, div_lt_iff₀ hdpos]
    exact h

theorem ilog2_unique (q : ℚ) (e : Int) (h1 : (2 : ℚ) ^ e ≤ q) (h2 : q < 2 ^ (e + 1)) : ilog2 q = e := by
  have hq : 0 < q := lt_of_lt_of_le (z2_pos e) h1
  obtain ⟨a, b⟩ := ilog2_spec q hq
  have c1 : ilog2 q < e + 1 := z2_lt_iff.mp (lt_of_le_of_lt a h2)
  have c2 : e < ilog2 q + 1 := z2_lt_iff.mp (lt_of_le_of_lt h1 b)
  omega

/-! ### rounding to an integer -/

theorem rne_floor (x : ℚ) : x.floor = ⌊x⌋ := rfl

/-- `rne` is within one half -/
theorem rne_err (x : ℚ) : |(rne x : ℚ) - x| ≤ 1 / 2 := by
  unfold rne
  have h1 : ((x.floor : Int) : ℚ) ≤ x := Int.floor_le x
  have h2 : x < ((x.floor : Int) : ℚ) + 1 := Int.lt_floor_add_one x
  generalize x.floor = f at *
  simp only []
  by_cases ha : x - (f : ℚ) < 1 / 2
  · rw [if_pos ha, abs_le]; constructor <;> linarith
  · rw [if_neg ha]
    by_cases hb : 1 / 2 < x - (f : ℚ)
    · rw [if_pos hb]; push_cast; rw [abs_le]; constructor <;> linarith
    · rw [if_neg hb]
      have : x - (f : ℚ) = 1 / 2 := le_antisymm (not_lt.mp hb) (not_lt.mp ha)
      by_cases hc : f % 2 = 0
      · rw [if_pos hc, abs_le]; constructor <;> linarith
      · rw [if_neg hc]; push_cast; rw [abs_le]; constructor <;> linarith

/-- anything closer than one half to an integer rounds to it -/
theorem rne_near (x : ℚ) (n : Int) (h : |x - n| < 1 / 2) : rne x = n := by
  have herr := rne_err x
  rw [abs_lt] at h
  rw [abs_le] at herr
  have : |((rne x : ℤ) : ℚ) - (n : ℚ)| < 1 := by
    rw [abs_lt]; constructor <;> linarith [h.1, h.2, herr.1, herr.2]
  have h3 : |rne x - n| < 1 := by
    have : ((|rne x - n| : ℤ) : ℚ) < 1 := by push_cast; exact this
    exact_mod_cast this
  have := Int.abs_lt_one_iff.mp h3
  omega

/-! ### the numeric core -/

/-- the positive case of `roundBin`, unfolded -/
theorem roundBin_pos (p : Nat) (umin emax : Int) (v : ℚ) (hv : 0 < v) :
    roundBin p umin emax v =
      (let u := max (ilog2 v - ((p : Int) - 1)) umin
       let r := (rne (v / pow2 u) : ℚ) * pow2 u
       if pow2 emax ≤ r then FP.inf false else FP.fin r) := by
  unfold roundBin
  have h0 : ¬ v = 0 := ne_of_gt hv
  have h1 : ¬ v < 0 := not_lt.mpr hv.le
  simp [h0, h1]

theorem roundBin_neg (p : Nat) (umin emax : Int) (v : ℚ) (hv : 0 < v) :
    roundBin p umin emax (-v) =
      (let u := max (ilog2 v - ((p : Int) - 1)) umin
       let r := (rne (v / pow2 u) : ℚ) * pow2 u
       if pow2 emax ≤ r then FP.inf true else FP.fin (-r)) := by
  unfold roundBin
  have h0 : ¬ -v = 0 := by intro h; linarith
  have h1 : -v < 0 := by linarith
  simp [h0, h1]

/-- a value within relative distance 5·10⁻¹⁷ of a positive double `a = m·2^u` rounds to `a` -/
theorem round_core (a v : ℚ) (m : Nat) (u : Int)
    (ha : a = (m : ℚ) * 2 ^ u) (hm1 : 1 ≤ m) (hm2 : m < 2 ^ 53) (hu : -1074 ≤ u)
    (hnorm : u = -1074 ∨ 2 ^ 52 ≤ m) (hv : |v - a| ≤ a / 20000000000000000) :
    0 < v ∧ (rne (v / pow2 (max (ilog2 v - 52) (-1074))) : ℚ) * pow2 (max (ilog2 v - 52) (-1074)) = a := by
  have hupos := z2_pos u
  have hmq1 : (1 : ℚ) ≤ m := by exact_mod_cast hm1
  have hmq2 : (m : ℚ) ≤ 9007199254740991 := by
    have : m ≤ 9007199254740991 := by norm_num at hm2; omega
    exact_mod_cast this
  have hapos : 0 < a := by rw [ha]; positivity
  rw [abs_le] at hv
  obtain ⟨hv1, hv2⟩ := hv
  -- in units of 2^u
  set w := v / 2 ^ u with hw
  have hvw : v = w * 2 ^ u := by rw [hw]; field_simp
  have hw1 : (m : ℚ) - (m : ℚ) / 20000000000000000 ≤ w := by
    rw [hw, le_div_iff₀ hupos]
    have : ((m : ℚ) - (m : ℚ) / 20000000000000000) * 2 ^ u = a - a / 20000000000000000 := by rw [ha]; ring
    rw [this]; linarith
  have hw2 : w ≤ (m : ℚ) + (m : ℚ) / 20000000000000000 := by
    rw [hw, div_le_iff₀ hupos]
    have : ((m : ℚ) + (m : ℚ) / 20000000000000000) * 2 ^ u = a + a / 20000000000000000 := by rw [ha]; ring
    rw [this]; linarith
  have hwpos : 0 < w := by linarith
  have hvpos : 0 < v := by rw [hvw]; positivity
  refine ⟨hvpos, ?_⟩
  obtain ⟨hl1, hl2⟩ := ilog2_spec v hvpos
  -- v < 2^(u+53)
  have hup : v < 2 ^ (u + 53) := by
    rw [hvw, z2_add, mul_comm ((2 : ℚ) ^ u)]
    apply mul_lt_mul_of_pos_right _ hupos
    norm_num
    linarith
  have hk1 : ilog2 v < u + 53 := z2_lt_iff.mp (lt_of_le_of_lt hl1 hup)
  -- the easy case: the rounding unit is 2^u
  have hsame : max (ilog2 v - 52) (-1074) = u →
      (rne (v / pow2 (max (ilog2 v - 52) (-1074))) : ℚ) * pow2 (max (ilog2 v - 52) (-1074)) = a := by
    intro he
    rw [he, pow2_eq, ← hw]
    have : rne w = (m : Int) := by
      apply rne_near
      rw [abs_lt]
      push_cast
      constructor <;> linarith
    rw [this, ha]; push_cast; rfl
  rcases hnorm with hsub | hnor
  · -- smallest unit
    apply hsame
    rw [hsub] at hk1 ⊢
    apply max_eq_right; omega
  · have hmq3 : (4503599627370496 : ℚ) ≤ m := by
      have : 4503599627370496 ≤ m := by norm_num at hnor; omega
      exact_mod_cast this
    have hlow : (2 : ℚ) ^ (u + 51) < v := by
      rw [hvw, z2_add, mul_comm ((2 : ℚ) ^ u)]
      apply mul_lt_mul_of_pos_right _ hupos
      norm_num
      linarith
    have hk2 : u + 51 < ilog2 v + 1 := z2_lt_iff.mp (lt_trans hlow hl2)
    by_cases hcase : ilog2 v - 52 = u
    · apply hsame
      rw [hcase]; apply max_eq_left; omega
    · have hk3 : ilog2 v - 52 = u - 1 := by omega
      by_cases hu0 : u = -1074
      · apply hsame
        rw [hk3, hu0]; rfl
      · -- v < 2^(u+52): then m = 2^52 and the unit is 2^(u-1)
        have hv52 : v < 2 ^ (u + 52) := by
          have : ilog2 v + 1 = u + 52 := by omega
          rw [← this]; exact hl2
        have hw52 : w < 4503599627370496 := by
          rw [hw, div_lt_iff₀ hupos]
          have : (4503599627370496 : ℚ) * 2 ^ u = 2 ^ (u + 52) := by rw [z2_add]; norm_num; ring
          rw [this]; exact hv52
        have hm52 : m = 4503599627370496 := by
          have h1 : (m : ℚ) < 4503599627370497 := by linarith
          have h2 : m < 4503599627370497 := by exact_mod_cast h1
          have h3 : 4503599627370496 ≤ m := by exact_mod_cast hmq3
          omega
        have hmax : max (ilog2 v - 52) (-1074) = u - 1 := by
          rw [hk3]; apply max_eq_left; omega
        rw [hmax, pow2_eq]
        have hdiv : v / 2 ^ (u - 1) = 2 * w := by
          rw [hvw]
          have : (2 : ℚ) ^ u = 2 ^ (u - 1) * 2 := by
            have := z2_add (u - 1) 1
            rw [show u - 1 + 1 = u by ring] at this
            rw [this]; norm_num
          rw [this]; field_simp
        rw [hdiv]
        have : rne (2 * w) = (9007199254740992 : Int) := by
          apply rne_near
          rw [abs_lt]
          rw [hm52] at hw1 hw2
          push_cast at hw1 hw2 ⊢
          constructor <;> linarith
        rw [this, ha, hm52]
        have : (2 : ℚ) ^ u = 2 ^ (u - 1) * 2 := by
          have := z2_add (u - 1) 1
          rw [show u - 1 + 1 = u by ring] at this
          rw [this]; norm_num
        rw [this]; push_cast; ring

/-! ### what `%g` prints -/

/-- the characters `%g` produces -/
def realChar (c : Nat) : Bool := isDigit c || c = 46 || c = 101 || c = 43 || c = 45

theorem realChar_digit (c : Nat) (h : isDigit c = true) : realChar c = true := by simp [realChar, h]

theorem expPart_chars (x : Int) : ∀ c ∈ expPart x, realChar c = true := by
  intro c hc
  unfold expPart at hc
  simp only [List.mem_cons] at hc
  rcases hc with rfl | hc | hc
  · decide
  · subst hc; split <;> decide
  · split at hc
    · simp only [List.mem_cons] at hc
      rcases hc with rfl | hc
      · decide
      · exact realChar_digit c (natDigits_isDigit _ c hc)
    · exact realChar_digit c (natDigits_isDigit _ c hc)

theorem layoutG_chars (P : Nat) (ds : List Nat) (q : Int) (hds : ∀ c ∈ ds, isDigit c = true) :
    ∀ c ∈ layoutG P ds q, realChar c = true := by
  intro c hc
  unfold layoutG at hc
  simp only at hc
  split at hc
  · split at hc
    · rcases List.mem_append.mp hc with h | h
      · exact realChar_digit c (hds c h)
      · exact realChar_digit c (zeros_isDigit _ c h)
    · split at hc
      · simp only [List.mem_append, List.mem_cons] at hc
        rcases hc with h | rfl | h
        · exact realChar_digit c (hds c (List.mem_of_mem_take h))
        · decide
        · exact realChar_digit c (hds c (List.mem_of_mem_drop h))
      · simp only [List.mem_cons, List.mem_append] at hc
        rcases hc with rfl | rfl | h | h
        · decide
        · decide
        · exact realChar_digit c (zeros_isDigit _ c h)
        · exact realChar_digit c (hds c h)
  · split at hc
    · simp at hc
    · simp only [List.mem_cons] at hc
      rcases hc with rfl | h
      · exact realChar_digit _ (hds _ (by simp))
      · exact expPart_chars _ c h
    · simp only [List.mem_cons, List.mem_append] at hc
      rcases hc with rfl | rfl | h | h
      · exact realChar_digit _ (hds _ (by simp))
      · decide
      · exact realChar_digit c (hds c (by simp [h]))
      · exact expPart_chars _ c h

theorem layoutG_ne_nil (P : Nat) (ds : List Nat) (q : Int) (hne : ds ≠ []) : layoutG P ds q ≠ [] := by
  unfold layoutG
  simp only
  split
  · split
    · simp [hne]
    · split
      · simp
      · simp
  · cases ds with
    | nil => exact absurd rfl hne
    | cons d rest => cases rest <;> simp

theorem printG_chars (P : Nat) (x : Rat) : printG P x ≠ [] ∧ ∀ c ∈ printG P x, realChar c = true := by
  unfold printG
  by_cases hx : x = 0
  · simp only [hx, if_true]
    exact ⟨by simp, by intro c hc; simp at hc; subst hc; decide⟩
  · simp only [hx, if_false]
    generalize hD : stripZeros 400 (rne ((if x < 0 then -x else x) / pow10r (decExp (if x < 0 then -x else x) - (P : Int) + 1))).toNat 0 = Dz
    obtain ⟨D, z⟩ := Dz
    simp only
    have hds := natDigits_isDigit D
    have hne := natDigits_ne_nil D
    split
    · refine ⟨by simp, ?_⟩
      intro c hc
      simp only [List.mem_cons] at hc
      rcases hc with rfl | hc
      · decide
      · exact layoutG_chars P _ _ hds c hc
    · exact ⟨layoutG_ne_nil P _ _ hne, layoutG_chars P _ _ hds⟩

/-! ### `strtod` on what `%g` prints -/

theorem takeWhile_digits_stop (l tail : List Nat) (hl : ∀ c ∈ l, isDigit c = true)
    (ht : ∀ d, tail.head? = some d → isDigit d = false) :
    (l ++ tail).takeWhile isDigit = l ∧ (l ++ tail).dropWhile isDigit = tail := by
  induction l with
  | nil =>
    cases tail with
    | nil => simp
    | cons d r => simp [List.takeWhile, List.dropWhile, ht d rfl]
  | cons c l ih =>
    have hc := hl c (by simp)
    obtain ⟨a, b⟩ := ih (fun x hx => hl x (by simp [hx]))
    simp only [List.cons_append, List.takeWhile_cons, List.dropWhile_cons, hc, if_true]
    exact ⟨by rw [a], b⟩

/-- nothing, or the exponent part of `%e` -/
def IsExp (ep : List Nat) (x : Int) : Prop := (ep = [] ∧ x = 0) ∨ ep = expPart x

theorem isExp_head (ep : List Nat) (x : Int) (h : IsExp ep x) : ∀ d, ep.head? = some d → isDigit d = false ∧ d ≠ 46 := by
  intro d hd
  rcases h with ⟨rfl, _⟩ | rfl
  · simp at hd
  · simp [expPart] at hd; subst hd; decide

theorem parseExpPart_isExp (ep : List Nat) (x : Int) (h : IsExp ep x) : parseExpPart 101 69 ep = x := by
  rcases h with ⟨rfl, rfl⟩ | rfl
  · rfl
  · unfold expPart parseExpPart
    simp only [true_or, if_true]
    -- the digits of the exponent, with a leading zero when there is only one
    set ds := natDigits x.natAbs with hds
    have hdig : ∀ c ∈ (if ds.length < 2 then 48 :: ds else ds), isDigit c = true := by
      intro c hc
      split at hc
      · simp only [List.mem_cons] at hc
        rcases hc with rfl | hc
        · decide
        · exact natDigits_isDigit _ c hc
      · exact natDigits_isDigit _ c hc
    have hval : digitsVal (if ds.length < 2 then 48 :: ds else ds) 0 = x.natAbs := by
      rw [digitsVal_all _ hdig]
      split
      · have : (48 :: ds) = [48] ++ ds := rfl
        rw [this, dv_append, dv_natDigits]; simp [dv]
      · exact dv_natDigits _
    obtain ⟨c0, r0, hc0, hd0⟩ : ∃ c r, (if ds.length < 2 then 48 :: ds else ds) = c :: r ∧ isDigit c = true := by
      split
      · exact ⟨48, ds, rfl, by decide⟩
      · exact natDigits_head _
    by_cases hx : x < 0
    · simp only [hx, if_true, takeSign]
      rw [hc0] at hval ⊢
      simp only [hd0, if_true, hval]
      omega
    · simp only [hx, if_false, takeSign]
      rw [hc0] at hval ⊢
      simp only [hd0, if_true, hval, Bool.false_eq_true, if_false]
      omega

theorem parseDecimal_nodot (ip ep : List Nat) (x : Int) (hip : ∀ c ∈ ip, isDigit c = true) (hne : ip ≠ [])
    (hep : IsExp ep x) : parseDecimal (ip ++ ep) = some (dv ip, x) := by
  have hh := isExp_head ep x hep
  obtain ⟨a, b⟩ := takeWhile_digits_stop ip ep hip (fun d hd => (hh d hd).1)
  unfold parseDecimal
  simp only [a, b]
  have hfp : fracDigits isDigit ep = [] := by
    cases ep with
    | nil => rfl
    | cons d r =>
      have := (hh d rfl).2
      unfold fracDigits
      split
      · rename_i heq; injection heq with h1 _; exact absurd h1 this
      · rfl
  have hr2 : fracRest isDigit ep = ep := by
    cases ep with
    | nil => rfl
    | cons d r =>
      have := (hh d rfl).2
      unfold fracRest
      split
      · rename_i heq; injection heq with h1 _; exact absurd h1 this
      · rfl
  rw [hfp, hr2]
  have : ¬ (ip.isEmpty = true ∧ ([] : List Nat).isEmpty = true) := by
    intro h; cases ip with
    | nil => exact hne rfl
    | cons _ _ => simp at h
  rw [if_neg this]
  simp [digitsVal_all ip hip, parseExpPart_isExp ep x hep]

theorem parseDecimal_dot (ip fp ep : List Nat) (x : Int) (hip : ∀ c ∈ ip, isDigit c = true) (hne : ip ≠ [])
    (hfp : ∀ c ∈ fp, isDigit c = true) (hep : IsExp ep x) :
    parseDecimal (ip ++ 46 :: (fp ++ ep)) = some (dv (ip ++ fp), x - fp.length) := by
  have hh := isExp_head ep x hep
  obtain ⟨a, b⟩ := takeWhile_digits_stop ip (46 :: (fp ++ ep)) hip (fun d hd => by simp at hd; subst hd; decide)
  obtain ⟨a2, b2⟩ := takeWhile_digits_stop fp ep hfp (fun d hd => (hh d hd).1)
  unfold parseDecimal
  simp only [a, b, fracDigits, fracRest, a2, b2]
  have : ¬ (ip.isEmpty = true ∧ fp.isEmpty = true) := by
    intro h; cases ip with
    | nil => exact hne rfl
    | cons _ _ => simp at h
  rw [if_neg this]
  have hall : ∀ c ∈ ip ++ fp, isDigit c = true := by
    intro c hc; rcases List.mem_append.mp hc with h | h
    · exact hip c h
    · exact hfp c h
  simp [digitsVal_all _ hall, parseExpPart_isExp ep x hep]

theorem dv_lead_zeros (z ds : List Nat) (hz : dv z = 0) : dv (z ++ ds) = dv ds := by
  rw [dv_append, hz]; simp

/-- the decimal reader on each of the layouts of `%g`: mantissa and exponent -/
theorem parse_layout (P : Nat) (ds : List Nat) (q : Int) (hds : ∀ c ∈ ds, isDigit c = true) (hne : ds ≠ []) :
    parseDecimal (layoutG P ds q) =
      some (if (-4 ≤ q + ds.length - 1 ∧ q + ds.length - 1 < P) ∧ 0 ≤ q then (dv ds * 10 ^ q.toNat, 0) else (dv ds, q)) := by
  unfold layoutG
  simp only
  by_cases hX : -4 ≤ q + ds.length - 1 ∧ q + ds.length - 1 < P
  · rw [if_pos hX]
    by_cases hq : 0 ≤ q
    · rw [if_pos hq, if_pos ⟨hX, hq⟩]
      have hall : ∀ c ∈ ds ++ zeros q.toNat, isDigit c = true := by
        intro c hc; rcases List.mem_append.mp hc with h | h
        · exact hds c h
        · exact zeros_isDigit _ c h
      have := parseDecimal_nodot (ds ++ zeros q.toNat) [] 0 hall (by simp [hne]) (Or.inl ⟨rfl, rfl⟩)
      simp only [List.append_nil] at this
      rw [this, dv_append, dv_zeros]
      simp [zeros]
    · rw [if_neg hq, if_neg (show ¬ ((-4 ≤ q + ds.length - 1 ∧ q + ds.length - 1 < P) ∧ 0 ≤ q) from fun h => hq h.2)]
      by_cases hX0 : 0 ≤ q + ds.length - 1
      · rw [if_pos hX0]
        have hlen : (q + ds.length - 1).toNat + 1 ≤ ds.length := by omega
        have htk : ds.take ((q + ds.length - 1).toNat + 1) ≠ [] := by
          cases ds with
          | nil => exact absurd rfl hne
          | cons d r => simp
        have := parseDecimal_dot (ds.take ((q + ds.length - 1).toNat + 1)) (ds.drop ((q + ds.length - 1).toNat + 1)) [] 0
          (fun c hc => hds c (List.mem_of_mem_take hc)) htk (fun c hc => hds c (List.mem_of_mem_drop hc)) (Or.inl ⟨rfl, rfl⟩)
        simp only [List.append_nil] at this
        rw [this, List.take_append_drop, List.length_drop]
        congr 2
        omega
      · rw [if_neg hX0]
        have hz : ∀ c ∈ zeros (-(q + ds.length - 1) - 1).toNat ++ ds, isDigit c = true := by
          intro c hc; rcases List.mem_append.mp hc with h | h
          · exact zeros_isDigit _ c h
          · exact hds c h
        have := parseDecimal_dot [48] (zeros (-(q + ds.length - 1) - 1).toNat ++ ds) [] 0
          (by decide) (by simp) hz (Or.inl ⟨rfl, rfl⟩)
        simp only [List.append_nil, List.cons_append, List.nil_append] at this
        rw [this]
        have h1 : dv (48 :: (zeros (-(q + ds.length - 1) - 1).toNat ++ ds)) = dv ds := by
          have : 48 :: (zeros (-(q + ds.length - 1) - 1).toNat ++ ds) = zeros ((-(q + ds.length - 1) - 1).toNat + 1) ++ ds := by
            simp [zeros, List.replicate_succ]
          rw [this, dv_lead_zeros _ _ (dv_zeros _)]
        rw [h1]
        congr 2
        simp only [List.length_append, zeros, List.length_replicate]
        omega
  · rw [if_neg hX, if_neg (show ¬ ((-4 ≤ q + ds.length - 1 ∧ q + ds.length - 1 < P) ∧ 0 ≤ q) from fun h => hX h.1)]
    cases ds with
    | nil => exact absurd rfl hne
    | cons d rest =>
      have hd : isDigit d = true := hds d (by simp)
      cases rest with
      | nil =>
        simp only
        have := parseDecimal_nodot [d] (expPart (q + ([d] : List Nat).length - 1)) _ (by simpa using hd) (by simp) (Or.inr rfl)
        simp only [List.cons_append, List.nil_append] at this
        rw [this]
        congr 2
        simp
      | cons d2 r2 =>
        simp only
        have := parseDecimal_dot [d] (d2 :: r2) (expPart (q + (d :: d2 :: r2 : List Nat).length - 1)) _
          (by simpa using hd) (by simp) (fun c hc => hds c (by simp at hc ⊢; right; exact hc)) (Or.inr rfl)
        simp only [List.cons_append, List.nil_append] at this
        simp only [List.cons_append]
        rw [this]
        congr 2
        simp only [List.length_cons]
        push_cast
        ring

theorem hexPrefix_none (body : List Nat) (hch : ∀ c ∈ body, realChar c = true) : hexPrefix body = none := by
  unfold hexPrefix
  split
  · rename_i x r
    have hx := hch x (by simp)
    have : ¬ (x = 120 ∨ x = 88) := by
      intro h; rcases h with rfl | rfl <;> simp [realChar, isDigit] at hx
    rw [if_neg this]
  · rfl

theorem startsWithCI_digit (c0 : Nat) (r0 kw : List Nat) (k : Nat) (ks : List Nat) (hk : kw = k :: ks) (hc0 : isDigit c0 = true)
    (hkl : 97 ≤ k) : startsWithCI (c0 :: r0) kw = false := by
  subst hk
  simp only [startsWithCI, List.length_cons, List.take_succ_cons, List.map_cons]
  have : lower c0 ≠ k := by
    simp [isDigit] at hc0
    unfold lower
    split <;> omega
  simp [this]

/-- `strtod`/`strtof` on an optional minus sign and a body that begins with a digit and is made of
the characters of `%g`: the decimal reader decides -/
theorem strtoGen_body (p : Nat) (umin emax : Int) (body : List Nat) (c0 : Nat) (r0 : List Nat) (hb : body = c0 :: r0)
    (hc0 : isDigit c0 = true) (hch : ∀ c ∈ body, realChar c = true) :
    strtoGen p umin emax body = decimalValue p umin emax body ∧
    strtoGen p umin emax (45 :: body) = negFP (decimalValue p umin emax body) := by
  have hinf : startsWithCI body kwInf = false := by
    rw [hb]; exact startsWithCI_digit c0 r0 kwInf 105 [110, 102] rfl hc0 (by norm_num)
  have hnan : startsWithCI body kwNan = false := by
    rw [hb]; exact startsWithCI_digit c0 r0 kwNan 110 [97, 110] rfl hc0 (by norm_num)
  have hhex := hexPrefix_none body hch
  have h45 : body.head? ≠ some 45 := by rw [hb]; simp; intro h; subst h; simp [isDigit] at hc0
  have h43 : body.head? ≠ some 43 := by rw [hb]; simp; intro h; subst h; simp [isDigit] at hc0
  constructor
  · unfold strtoGen
    rw [hb, dropWhile_head isSpace c0 r0 (isDigit_not_space c0 hc0), ← hb, takeSign_other body h45 h43]
    simp only [hinf, hnan, hhex, Bool.false_eq_true, if_false]
  · unfold strtoGen
    rw [dropWhile_head isSpace 45 body (by decide)]
    simp only [takeSign, hinf, hnan, hhex, Bool.false_eq_true, if_false, if_true]

/-! ### the decimal exponent, trailing zeros, doubles -/

theorem decExpDown_spec (a : ℚ) (f : Nat) (e : Int) (h1 : a < (10 : ℚ) ^ (e + 1)) (h2 : (10 : ℚ) ^ (e - f) ≤ a) :
    (10 : ℚ) ^ (decExpDown (f + 1) a e) ≤ a ∧ a < (10 : ℚ) ^ (decExpDown (f + 1) a e + 1) := by
  induction f generalizing e with
  | zero =>
    unfold decExpDown
    have : pow10r e ≤ a := by rw [pow10r_eq]; simpa using h2
    rw [if_pos this]
    exact ⟨by simpa using h2, h1⟩
  | succ f ih =>
    unfold decExpDown
    by_cases hc : pow10r e ≤ a
    · rw [if_pos hc]
      rw [pow10r_eq] at hc
      exact ⟨hc, h1⟩
    · rw [if_neg hc]
      rw [pow10r_eq, not_le] at hc
      apply ih (e - 1)
      · rw [show e - 1 + 1 = e by ring]; exact hc
      · have : e - 1 - (f : Int) = e - ((f + 1 : Nat) : Int) := by push_cast; ring
        rw [this]; exact h2

set_option exponentiation.threshold 2000 in
theorem num_2_1024_lt : (2 : ℚ) ^ (1024 : Int) < 10 ^ (309 : Int) := by
  rw [zpow_ofNat, zpow_ofNat]
  exact_mod_cast (by norm_num : (2 : ℕ) ^ 1024 < 10 ^ 309)
set_option exponentiation.threshold 2000 in
theorem num_10_390_le : (10 : ℚ) ^ (-390 : Int) ≤ 2 ^ (-1074 : Int) := by
  rw [zpow_neg, zpow_neg, zpow_ofNat, zpow_ofNat]
  apply inv_anti₀ (by positivity)
  exact_mod_cast (by norm_num : (2 : ℕ) ^ 1074 ≤ 10 ^ 390)
set_option exponentiation.threshold 2000 in
theorem num_10_324_le : (10 : ℚ) ^ (-324 : Int) ≤ 2 ^ (-1074 : Int) := by
  rw [zpow_neg, zpow_neg, zpow_ofNat, zpow_ofNat]
  apply inv_anti₀ (by positivity)
  exact_mod_cast (by norm_num : (2 : ℕ) ^ 1074 ≤ 10 ^ 324)

/-- `decExp` of a binary64 magnitude is the floor of its decimal logarithm -/
theorem decExp_spec (a : ℚ) (ha1 : (2 : ℚ) ^ (-1074 : Int) ≤ a) (ha2 : a < 2 ^ (1024 : Int)) :
    (10 : ℚ) ^ decExp a ≤ a ∧ a < (10 : ℚ) ^ (decExp a + 1) ∧ -324 ≤ decExp a ∧ decExp a ≤ 308 := by
  have key : ∀ start : Int, start ≤ 309 → a < (10 : ℚ) ^ (start + 1) →
      (10 : ℚ) ^ decExpDown 700 a start ≤ a ∧ a < (10 : ℚ) ^ (decExpDown 700 a start + 1) := by
    intro start hs hlt
    apply decExpDown_spec a 699 start hlt
    calc (10 : ℚ) ^ (start - (699 : Nat)) ≤ 10 ^ (-390 : Int) := z10_le (by push_cast; omega)
      _ ≤ 2 ^ (-1074 : Int) := num_10_390_le
      _ ≤ a := ha1
  have hspec : (10 : ℚ) ^ decExp a ≤ a ∧ a < (10 : ℚ) ^ (decExp a + 1) := by
    unfold decExp
    simp only
    split
    · rename_i h
      exact key _ h.1 (by rw [← pow10r_eq]; exact h.2)
    · apply key 309 (le_refl _)
      calc a < 2 ^ (1024 : Int) := ha2
        _ < 10 ^ (309 : Int) := num_2_1024_lt
        _ ≤ 10 ^ ((309 : Int) + 1) := z10_le (by norm_num)
  refine ⟨hspec.1, hspec.2, ?_, ?_⟩
  · have : (10 : ℚ) ^ (-324 : Int) < 10 ^ (decExp a + 1) :=
      lt_of_le_of_lt (le_trans num_10_324_le ha1) hspec.2
    have := z10_lt_iff.mp this
    omega
  · have : (10 : ℚ) ^ decExp a < 10 ^ (309 : Int) := lt_of_le_of_lt hspec.1 (lt_trans ha2 num_2_1024_lt)
    have := z10_lt_iff.mp this
    omega

theorem stripZeros_spec (f d z : Nat) :
    (stripZeros f d z).1 * 10 ^ (stripZeros f d z).2 = d * 10 ^ z ∧ z ≤ (stripZeros f d z).2 ∧
      (0 < d → 0 < (stripZeros f d z).1) := by
  induction f generalizing d z with
  | zero => simp [stripZeros]
  | succ f ih =>
    unfold stripZeros
    split
    · rename_i h
      obtain ⟨a, b, c⟩ := ih (d / 10) (z + 1)
      refine ⟨?_, by omega, ?_⟩
      · rw [a]
        have h10 := Nat.div_add_mod d 10
        rw [h.2] at h10
        calc d / 10 * 10 ^ (z + 1) = (10 * (d / 10) + 0) * 10 ^ z := by ring
          _ = d * 10 ^ z := by rw [h10]
      · intro hd; apply c; omega
    · exact ⟨rfl, le_refl _, fun h => h⟩

/-- a non-zero binary64 magnitude is `m·2^u` with `m < 2^53`, `u ≥ −1074`, and `m ≥ 2^52` unless `u = −1074` -/
theorem double_repr (a : ℚ) (hapos : 0 < a)
    (hden : (a / pow2 (max (ilog2 a - 52) (-1074))).den = 1) (hmax : a < pow2 1024) :
    ∃ (m : Nat) (u : Int), a = (m : ℚ) * 2 ^ u ∧ 1 ≤ m ∧ m < 2 ^ 53 ∧ -1074 ≤ u ∧ (u = -1074 ∨ 2 ^ 52 ≤ m) ∧
      a < 2 ^ (1024 : Int) ∧ (2 : ℚ) ^ (-1074 : Int) ≤ a := by
  set u := max (ilog2 a - 52) (-1074) with hu
  rw [pow2_eq] at hden hmax
  have hupos := z2_pos u
  have hx := Rat.coe_int_num_of_den_eq_one hden
  have hxpos : 0 < a / 2 ^ u := div_pos hapos hupos
  have hnpos : 0 < (a / 2 ^ u).num := Rat.num_pos.mpr hxpos
  obtain ⟨m, hm⟩ := Int.eq_ofNat_of_zero_le hnpos.le
  have ham : a = (m : ℚ) * 2 ^ u := by
    have : a / 2 ^ u = (m : ℚ) := by rw [← hx, hm]; simp
    rw [← this]; field_simp
  obtain ⟨hl1, hl2⟩ := ilog2_spec a hapos
  have hu1 : -1074 ≤ u := le_max_right _ _
  have hu2 : ilog2 a - 52 ≤ u := le_max_left _ _
  have hm1 : 1 ≤ m := by
    have : 0 < m := by
      rcases Nat.eq_zero_or_pos m with h0 | h0
      · subst h0; rw [hm] at hnpos; simp at hnpos
      · exact h0
    omega
  refine ⟨m, u, ham, hm1, ?_, hu1, ?_, hmax, ?_⟩
  · -- m < 2^53
    have : (m : ℚ) * 2 ^ u < 2 ^ (53 : Int) * 2 ^ u := by
      rw [← ham, ← z2_add]
      exact lt_of_lt_of_le hl2 (z2_le (by omega))
    have h2 : (m : ℚ) < 2 ^ (53 : Int) := lt_of_mul_lt_mul_right this hupos.le
    rw [zpow_ofNat] at h2
    exact_mod_cast h2
  · by_cases hc : u = -1074
    · exact Or.inl hc
    · right
      have hu3 : u = ilog2 a - 52 := by
        rcases max_choice (ilog2 a - 52) (-1074) with h | h
        · rw [hu]; exact h
        · exact absurd (by rw [hu]; exact h) hc
      have : (2 : ℚ) ^ (52 : Int) * 2 ^ u ≤ (m : ℚ) * 2 ^ u := by
        rw [← ham, ← z2_add]
        have : (52 : Int) + u = ilog2 a := by omega
        rw [this]; exact hl1
      have h2 : (2 : ℚ) ^ (52 : Int) ≤ (m : ℚ) := le_of_mul_le_mul_right this hupos
      rw [zpow_ofNat] at h2
      exact_mod_cast h2
  · calc (2 : ℚ) ^ (-1074 : Int) ≤ 2 ^ u := z2_le hu1
      _ = 1 * 2 ^ u := by ring
      _ ≤ (m : ℚ) * 2 ^ u := by
          apply mul_le_mul_of_nonneg_right _ hupos.le
          exact_mod_cast hm1
      _ = a := ham.symm

/-! ### assembling -/

theorem layoutG_head (P : Nat) (ds : List Nat) (q : Int) (hds : ∀ c ∈ ds, isDigit c = true) (hne : ds ≠ []) :
    ∃ c0 r0, layoutG P ds q = c0 :: r0 ∧ isDigit c0 = true := by
  cases ds with
  | nil => exact absurd rfl hne
  | cons d rest =>
    have hd := hds d (by simp)
    unfold layoutG
    simp only
    split
    · split
      · exact ⟨d, _, rfl, hd⟩
      · split
        · exact ⟨d, _, by rw [List.take_succ_cons]; rfl, hd⟩
        · exact ⟨48, _, rfl, by decide⟩
    · cases rest with
      | nil => exact ⟨d, _, rfl, hd⟩
      | cons d2 r2 => exact ⟨d, _, rfl, hd⟩

theorem decimalToFP_round (p : Nat) (umin emax : Int) (M : Nat) (E : Int) (hM : 0 < M)
    (h1 : E + ((natDigits M).length : Int) ≤ 400) (h2 : -400 ≤ E + ((natDigits M).length : Int)) :
    decimalToFP p umin emax M E = roundBin p umin emax ((M : ℚ) * pow10r E) := by
  unfold decimalToFP
  rw [if_neg (by omega)]
  simp only
  rw [if_neg (by omega), if_neg (by omega)]

/-- the value printed with 17 significant digits, and how far it is from `a` -/
theorem round17 (a : ℚ) (e : Int) (h1 : (10 : ℚ) ^ e ≤ a) (h2 : a < (10 : ℚ) ^ (e + 1)) :
    let D0 := (rne (a / pow10r (e - 17 + 1))).toNat
    (10 ^ 16 ≤ D0 ∧ D0 ≤ 10 ^ 17) ∧ |(D0 : ℚ) * (10 : ℚ) ^ (e - 16) - a| ≤ a / 20000000000000000 := by
  have hapos : 0 < a := lt_of_lt_of_le (z10_pos e) h1
  have hsc : pow10r (e - 17 + 1) = (10 : ℚ) ^ (e - 16) := by rw [pow10r_eq]; congr 1; ring
  have hscpos := z10_pos (e - 16)
  simp only [hsc]
  set x := a / (10 : ℚ) ^ (e - 16) with hx
  have he16 : (10 : ℚ) ^ e = 10 ^ (e - 16) * 10 ^ (16 : Int) := by rw [← z10_add]; congr 1; ring
  have he17 : (10 : ℚ) ^ (e + 1) = 10 ^ (e - 16) * 10 ^ (17 : Int) := by rw [← z10_add]; congr 1; ring
  have hx1 : (10 : ℚ) ^ (16 : Int) ≤ x := by
    rw [hx, le_div_iff₀ hscpos, mul_comm, ← he16]; exact h1
  have hx2 : x < (10 : ℚ) ^ (17 : Int) := by
    rw [hx, div_lt_iff₀ hscpos, mul_comm, ← he17]; exact h2
  have herr := rne_err x
  rw [abs_le] at herr
  have hr1 : (10 : Int) ^ 16 ≤ rne x := by
    have : ((10 : Int) ^ 16 : ℚ) - 1 < (rne x : ℚ) := by
      rw [zpow_ofNat] at hx1; push_cast; linarith [herr.1]
    have : (10 : Int) ^ 16 - 1 < rne x := by exact_mod_cast this
    omega
  have hr2 : rne x ≤ (10 : Int) ^ 17 := by
    have : (rne x : ℚ) < ((10 : Int) ^ 17 : ℚ) + 1 := by
      rw [zpow_ofNat] at hx2; push_cast; linarith [herr.2]
    have : rne x < (10 : Int) ^ 17 + 1 := by exact_mod_cast this
    omega
  have hnn : 0 ≤ rne x := by have : (0 : Int) ≤ 10 ^ 16 := by norm_num
                             omega
  have hcast : (((rne x).toNat : Nat) : ℚ) = (rne x : ℚ) := by
    have : (((rne x).toNat : Nat) : Int) = rne x := Int.toNat_of_nonneg hnn
    exact_mod_cast congrArg (fun z : Int => (z : ℚ)) this
  refine ⟨⟨?_, ?_⟩, ?_⟩
  · have : ((10 : Nat) ^ 16 : Int) ≤ ((rne x).toNat : Int) := by rw [Int.toNat_of_nonneg hnn]; exact_mod_cast hr1
    exact_mod_cast this
  · have : ((rne x).toNat : Int) ≤ ((10 : Nat) ^ 17 : Int) := by rw [Int.toNat_of_nonneg hnn]; exact_mod_cast hr2
    exact_mod_cast this
  · rw [hcast]
    have hax : a = x * 10 ^ (e - 16) := by rw [hx]; field_simp
    have hsc16 : (10 : ℚ) ^ (e - 16) ≤ a / 10000000000000000 := by
      rw [le_div_iff₀ (by norm_num)]
      calc (10 : ℚ) ^ (e - 16) * 10000000000000000 = 10 ^ (e - 16) * 10 ^ (16 : Int) := by norm_num
        _ = 10 ^ e := he16.symm
        _ ≤ a := h1
    have : (rne x : ℚ) * 10 ^ (e - 16) - a = ((rne x : ℚ) - x) * 10 ^ (e - 16) := by rw [hax]; ring
    rw [this, abs_mul, abs_of_pos hscpos]
    have habs : |(rne x : ℚ) - x| ≤ 1 / 2 := abs_le.mpr herr
    calc |(rne x : ℚ) - x| * 10 ^ (e - 16) ≤ 1 / 2 * 10 ^ (e - 16) := mul_le_mul_of_nonneg_right habs hscpos.le
      _ ≤ 1 / 2 * (a / 10000000000000000) := by linarith
      _ = a / 20000000000000000 := by ring

/-- the part of `%.Pg` after the sign, for a magnitude `a > 0` -/
def gBody (P : Nat) (a : ℚ) : List Nat :=
  layoutG P (natDigits (stripZeros 400 (rne (a / pow10r (decExp a - (P : Int) + 1))).toNat 0).1)
    (decExp a - (P : Int) + 1 + (stripZeros 400 (rne (a / pow10r (decExp a - (P : Int) + 1))).toNat 0).2)

theorem printG_eq (P : Nat) (x : ℚ) (hx : x ≠ 0) :
    printG P x = if x < 0 then 45 :: gBody P (-x) else gBody P x := by
  unfold printG gBody
  rw [if_neg hx]
  by_cases hn : x < 0
  · simp only [hn, if_true]
  · simp only [hn, if_false]

/-- the decimal reader gives back a double printed with 17 significant digits -/
theorem body17_value (a : ℚ) (hapos : 0 < a)
    (hden : (a / pow2 (max (ilog2 a - 52) (-1074))).den = 1) (hmax : a < pow2 1024) :
    decimalValue 53 (-1074) 1024 (gBody 17 a) = FP.fin a := by
  obtain ⟨m, u, ham, hm1, hm2, hu, hnorm, hlt, hge⟩ := double_repr a hapos hden hmax
  obtain ⟨he1, he2, he3, he4⟩ := decExp_spec a hge hlt
  obtain ⟨⟨hD1, hD2⟩, herr⟩ := round17 a (decExp a) he1 he2
  unfold gBody
  set e := decExp a with hedef
  have hcast17 : e - ((17 : Nat) : Int) + 1 = e - 17 + 1 := by norm_num
  rw [hcast17]
  set D0 := (rne (a / pow10r (e - 17 + 1))).toNat with hD0
  obtain ⟨hs1, hs2, hs3⟩ := stripZeros_spec 400 D0 0
  set D := (stripZeros 400 D0 0).1 with hDdef
  set z := (stripZeros 400 D0 0).2 with hzdef
  simp only [pow_zero, mul_one] at hs1
  have hD0pos : 0 < D0 := by have : 0 < 10 ^ 16 := by norm_num
                             omega
  have hDpos : 0 < D := hs3 hD0pos
  have hDle : D ≤ 10 ^ 17 := by
    have : D * 1 ≤ D * 10 ^ z := Nat.mul_le_mul_left D (Nat.one_le_pow _ _ (by norm_num))
    omega
  have hz17 : z ≤ 17 := by
    have h1 : 10 ^ z ≤ D * 10 ^ z := Nat.le_mul_of_pos_left _ hDpos
    have h2 : 10 ^ z ≤ 10 ^ 17 := by omega
    exact (Nat.pow_le_pow_iff_right (by norm_num)).mp h2
  -- the digit string
  set ds := natDigits D with hds
  have hdig := natDigits_isDigit D
  have hne := natDigits_ne_nil D
  have hdv : dv ds = D := dv_natDigits D
  have hn1 : 1 ≤ ds.length := by
    cases hc : ds with
    | nil => exact absurd hc hne
    | cons _ _ => simp
  have hn18 : ds.length ≤ 18 := natDigits_length_le D 18 (by norm_num) (by omega)
  -- the reader
  unfold decimalValue
  rw [parse_layout 17 ds (e - 17 + 1 + z) hdig hne]
  -- value of the printed decimal
  have hval : (D : ℚ) * (10 : ℚ) ^ (e - 17 + 1 + (z : Int)) = (D0 : ℚ) * (10 : ℚ) ^ (e - 16) := by
    have : ((D0 : Nat) : ℚ) = (D : ℚ) * (10 : ℚ) ^ (z : Int) := by
      rw [← hs1]; push_cast; rw [zpow_natCast]
    rw [this, mul_assoc, ← z10_add]
    congr 2; ring
  -- rounding
  have hround : roundBin 53 (-1074) 1024 ((D0 : ℚ) * (10 : ℚ) ^ (e - 16)) = FP.fin a := by
    obtain ⟨hvpos, hcore⟩ := round_core a ((D0 : ℚ) * (10 : ℚ) ^ (e - 16)) m u ham hm1 hm2 hu hnorm herr
    rw [roundBin_pos 53 (-1074) 1024 _ hvpos]
    simp only
    have h52 : ((53 : Nat) : Int) - 1 = 52 := by norm_num
    rw [h52, hcore]
    rw [if_neg (not_le.mpr hmax)]
  by_cases hcond : (-4 ≤ e - 17 + 1 + (z : Int) + ds.length - 1 ∧ e - 17 + 1 + (z : Int) + ds.length - 1 < ((17 : Nat) : Int)) ∧ 0 ≤ e - 17 + 1 + (z : Int)
  · -- written without exponent and without a fraction: the zeros are part of the mantissa
    rw [if_pos hcond]
    simp only
    have hq0 : 0 ≤ e - 17 + 1 + (z : Int) := hcond.2
    have hq16 : e - 17 + 1 + (z : Int) ≤ 16 := by have := hcond.1.2; push_cast at this; omega
    rw [hdv]
    have hMpos : 0 < D * 10 ^ (e - 17 + 1 + (z : Int)).toNat := Nat.mul_pos hDpos (Nat.pow_pos (by norm_num))
    have hMlt : D * 10 ^ (e - 17 + 1 + (z : Int)).toNat < 10 ^ 40 := by
      have h1 : 10 ^ (e - 17 + 1 + (z : Int)).toNat ≤ 10 ^ 16 := Nat.pow_le_pow_right (by norm_num) (by omega)
      calc D * 10 ^ (e - 17 + 1 + (z : Int)).toNat ≤ 10 ^ 17 * 10 ^ 16 := Nat.mul_le_mul hDle h1
        _ < 10 ^ 40 := by norm_num
    have hlen := natDigits_length_le _ 40 (by norm_num) hMlt
    rw [decimalToFP_round 53 (-1074) 1024 _ 0 hMpos (by omega) (by omega)]
    rw [pow10r_eq]
    have : ((D * 10 ^ (e - 17 + 1 + (z : Int)).toNat : Nat) : ℚ) * (10 : ℚ) ^ (0 : Int) = (D : ℚ) * (10 : ℚ) ^ (e - 17 + 1 + (z : Int)) := by
      push_cast
      rw [mul_one, ← zpow_natCast, Int.toNat_of_nonneg hq0]
    rw [this, hval, hround]
  · rw [if_neg hcond]
    simp only
    rw [hdv]
    have hlen : (natDigits D).length ≤ 18 := hn18
    rw [decimalToFP_round 53 (-1074) 1024 D _ hDpos (by omega) (by omega)]
    rw [pow10r_eq, hval, hround]

theorem gBody_shape (P : Nat) (a : ℚ) :
    (∃ c0 r0, gBody P a = c0 :: r0 ∧ isDigit c0 = true) ∧ ∀ c ∈ gBody P a, realChar c = true := by
  unfold gBody
  exact ⟨layoutG_head P _ _ (natDigits_isDigit _) (natDigits_ne_nil _), layoutG_chars P _ _ (natDigits_isDigit _)⟩

/-- **17 significant digits identify a double.**  `strtod(sprintf("%.17g", x)) == x` for every
finite binary64 `x` (in the model of the two functions: exactly rounded conversions). -/
theorem strtod_printG17 (q : ℚ) (h : isDouble q = true) : strtodC (printG 17 q) = FP.fin q := by
  by_cases hq : q = 0
  · subst hq
    decide +kernel
  · unfold isDouble at h
    simp only [hq, decide_false, Bool.false_or, Bool.and_eq_true, decide_eq_true_eq] at h
    obtain ⟨hden, hmax⟩ := h
    rw [printG_eq 17 q hq]
    unfold strtodC
    by_cases hn : q < 0
    · simp only [hn, if_true] at hden hmax ⊢
      obtain ⟨⟨c0, r0, hb, hc0⟩, hch⟩ := gBody_shape 17 (-q)
      rw [(strtoGen_body 53 (-1074) 1024 _ c0 r0 hb hc0 hch).2, body17_value (-q) (by linarith) hden hmax]
      simp [negFP]
    · simp only [hn, if_false] at hden hmax ⊢
      have hpos : 0 < q := lt_of_le_of_ne (not_lt.mp hn) (Ne.symm hq)
      obtain ⟨⟨c0, r0, hb, hc0⟩, hch⟩ := gBody_shape 17 q
      rw [(strtoGen_body 53 (-1074) 1024 _ c0 r0 hb hc0 hch).1, body17_value q hpos hden hmax]

end TT
end Bufr
