import BufrProofs.Frame
import BufrProofs.Bits
set_option linter.unusedSimpArgs false
namespace Bufr.Frame

theorem usub32_of_le (a b : Nat) (h : b ≤ a) : usub32 a b = a - b := by
  unfold usub32; simp [h]

theorem endMessage_s3Buf_take (m : Msg) :
    m.endMessage.s3Buf.take (2 * m.descs.length) = m.descs.flatMap descBytes := by
  show (Msg.encodeSect3 m).s3Buf.take _ = _
  unfold Msg.encodeSect3; dsimp only
  by_cases he3 : m.edition ≤ 3 <;> simp only [he3, if_true, if_false] <;> split <;>
    rw [List.take_left' (flatMap_descBytes_length _)]

theorem endMessage_s3Buf_len (m : Msg) (hed : m.edition = 2 ∨ m.edition = 3 ∨ m.edition = 4) :
    m.endMessage.s3Len - 7 ≤ m.endMessage.s3Buf.length := by
  rw [endMessage_s3Len m hed]
  show _ ≤ (Msg.encodeSect3 m).s3Buf.length
  unfold Msg.encodeSect3; dsimp only
  by_cases he3 : m.edition ≤ 3 <;> simp only [he3, if_true, if_false] <;> split <;>
    simp only [List.length_append, flatMap_descBytes_length, List.length_drop, List.length_cons,
      List.length_nil] <;> omega

theorem endMessage_s4Len (m : Msg)
    (h : m.s4Data.length = m.s4Filled + (if m.s4Bitno > 0 then 1 else 0)) :
    m.endMessage.s4Len = m.endMessage.s4Data.length + 4 := by
  unfold Msg.endMessage; dsimp only
  by_cases hp : m.edition ≤ 3 ∧ (m.s4Filled + 4 + if m.s4Bitno > 0 then 1 else 0) % 2 = 1
  · simp only [hp, and_self, decide_true, if_true, List.length_append, List.length_cons, List.length_nil]
    by_cases hb : m.s4Bitno = 0
    · simp [hb] at h ⊢; omega
    · have : m.s4Bitno > 0 := by omega
      simp [hb, this] at h ⊢; omega
  · simp only [hp, decide_false, if_false, Bool.false_eq_true]
    omega

theorem ready_endMessage (m : Msg) (h : FieldsInRange m) : Ready m.endMessage := by
  obtain ⟨hed, hs1, _, hns, hfl, hds, _, hs4, hsmall⟩ := h
  refine ⟨?_, ?_, ?_, ?_, ?_, ?_, ?_, ?_, ?_, ?_, ?_, hsmall⟩
  · rw [endMessage_edition]; exact hed
  · rw [endMessage_edition, endMessage_s1]; exact hs1
  · rw [endMessage_s2Len, endMessage_s1, endMessage_s2Data]
  · rw [endMessage_s3Len m hed, endMessage_descs, endMessage_edition]
  · exact endMessage_s3Buf_len m hed
  · rw [endMessage_descs]; exact endMessage_s3Buf_take m
  · rw [endMessage_nSubsets]; exact hns
  · rw [endMessage_s3Flag]; exact hfl
  · rw [endMessage_descs]; exact hds
  · exact endMessage_s4Len m hs4
  · exact endMessage_lenMsg m

/-! ### Sections 0, 2, 3, 4, 5 -/

theorem s0_read (M : Msg) (L ed : Nat) (rest : List Nat) (hL : L < 16777216) (hed : ed < 256) :
    (rdSection0 M).runList (int3b L ++ [ed % 256] ++ rest) =
      .ok (let M' := { M with lenMsg := L }; if M.edition ≠ ed then M'.initHeader ed else M', rest) := by
  simp [rdSection0, int3b, int3b_val L hL, Nat.mod_eq_of_lt hed]

theorem s2_read (m M : Msg) (rest : List Nat) (hR : Ready m)
    (hf : hasSect2 M.s1.flag = hasSect2 m.s1.flag) (h0 : M.s2Len = 0) (h1 : M.s2Data = []) :
    (rdSection2 M).runList (wrSection2 m ++ rest) =
      .ok ({ M with s2Len := m.s2Len, s2Data := if hasSect2 m.s1.flag then m.s2Data else [] }, rest) := by
  have hl := hR.s2len
  have hsm := hR.small
  have hlen := hR.len
  by_cases hs : hasSect2 m.s1.flag = true
  · simp only [hs, if_true] at hl
    have hpos : m.s2Len > 0 := by omega
    have h24 : m.s2Len < 16777216 := by omega
    have hu : usub32 m.s2Len 4 = m.s2Data.length := by rw [usub32_of_le _ _ (by omega)]; omega
    simp only [rdSection2, wrSection2, hf, hs, hpos, and_self, if_true, List.append_assoc, runList_bind,
      runList_readInt3b_int3b _ h24, Res.andThen_ok, List.cons_append, List.nil_append,
      runList_readOctet_cons, hu]
    rw [runList_bulk_append' _ _ _ _ rfl]
    rfl
  · have hs' : hasSect2 m.s1.flag = false := by simpa using hs
    simp only [hs', if_false, Bool.false_eq_true] at hl
    simp only [rdSection2, wrSection2, hf, hs', Bool.false_eq_true, false_and, if_false, List.nil_append,
      runList_pure, hl]
    congr 2
    cases M; simp_all

theorem decodeDescs_bytes : ∀ (ds tail : List Nat),
    decodeDescs ds.length (ds.flatMap descBytes ++ tail) = ds.map normDesc := by
  intro ds
  induction ds with
  | nil => intro tail; rfl
  | cons d ds ih =>
    intro tail
    simp only [List.length_cons, List.flatMap_cons, descBytes, List.cons_append, List.nil_append,
      decodeDescs, List.map_cons, List.append_assoc]
    rw [ih]; rfl

theorem s3_read (m M : Msg) (rest : List Nat) (hR : Ready m) (hM : M.edition = m.edition) :
    (rdSection3 M).runList (wrSection3 m ++ rest) =
      .ok ({ M with s3Len := m.s3Len, nSubsets := m.nSubsets % 65536, s3Flag := m.s3Flag % 256,
                    s3Buf := m.s3Buf.take (m.s3Len - 7) }, rest) := by
  have hl := hR.s3len
  have hsm := hR.small
  have hlen := hR.len
  have h24 : m.s3Len < 16777216 := by omega
  have hu : usub32 m.s3Len 7 = m.s3Len - 7 := usub32_of_le _ _ (by omega)
  have htl : (m.s3Buf.take (m.s3Len - 7)).length = m.s3Len - 7 := by
    rw [List.length_take]; have := hR.s3buf; omega
  have hev : ¬ (M.edition = 3 ∧ m.s3Len % 2 = 1) := by
    rintro ⟨h3, ho⟩
    rw [hM] at h3
    rw [hl, h3] at ho
    simp at ho; omega
  simp only [rdSection3, wrSection3, List.append_assoc, runList_bind, runList_readInt3b_int3b _ h24,
    Res.andThen_ok, List.cons_append, List.nil_append, runList_readOctet_cons,
    runList_readInt2b_int2b _ hR.nsub, hu, hev, if_false, ne_eq, not_true_eq_false]
  rw [runList_bulk_append' _ _ _ _ htl]
  simp [Nat.mod_eq_of_lt hR.nsub]

theorem s3_decode (m : Msg) (hR : Ready m) :
    decodeDescs ((m.s3Len - 7) / 2) (m.s3Buf.take (m.s3Len - 7)) = m.descs.map normDesc := by
  have hl := hR.s3len
  have hcount : (m.s3Len - 7) / 2 = m.descs.length := by
    rw [hl]; split <;> omega
  have hbuf : m.s3Buf.take (m.s3Len - 7) =
      m.descs.flatMap descBytes ++ (m.s3Buf.drop (2 * m.descs.length)).take (m.s3Len - 7 - 2 * m.descs.length) := by
    have : m.s3Len - 7 = 2 * m.descs.length + (m.s3Len - 7 - 2 * m.descs.length) := by
      rw [hl]; split <;> omega
    rw [this, List.take_add, hR.s3bytes]
    congr 2
    omega
  rw [hcount, hbuf, decodeDescs_bytes]

theorem s4_read (m M : Msg) (rest : List Nat) (hR : Ready m) (h1 : M.s1.len = m.s1.len)
    (h2 : M.s2Len = m.s2Len) (h3 : M.s3Len = m.s3Len) (hL : M.lenMsg = m.lenMsg) :
    (rdSection4 M).runList (wrSection4 m ++ rest) =
      .ok ({ M with s4Len := m.s4Len, s4Data := m.s4Data.take (m.s4Len - 4) }, rest) := by
  have hl := hR.s4len
  have hsm := hR.small
  have hlen := hR.len
  have h24 : m.s4Len < 16777216 := by omega
  have htl : (m.s4Data.take (m.s4Len - 4)).length = m.s4Len - 4 := by
    rw [List.length_take]; omega
  have htot : 8 + M.s1.len + M.s2Len + M.s3Len + 4 + m.s4Len = M.lenMsg := by
    rw [h1, h2, h3, hL, hlen]; omega
  simp only [rdSection4, wrSection4, List.append_assoc, runList_bind, runList_readInt3b_int3b _ h24,
    Res.andThen_ok, List.cons_append, List.nil_append, runList_readOctet_cons, htot, ne_eq,
    not_true_eq_false, if_false]
  have hbad : ¬ (((m.s4Len : Int) - 4 < 0) ∨ ((m.s4Len : Int) - 4 > 16777216)) := by omega
  have hnat : ((m.s4Len : Int) - 4).toNat = m.s4Len - 4 := by omega
  simp only [hbad, if_false, hnat]
  rw [runList_bulk_append' _ _ _ _ htl]
  have : 4 + (m.s4Len - 4) = m.s4Len := by omega
  simp [this]

theorem s5_read (rest : List Nat) : rdSection5.runList (wrSection5 ++ rest) = .ok ((), rest) := by
  simp [rdSection5, wrSection5, runList_bulk]

/-! ### a whole message -/

/-- Sections 0–5 without the start marker -/
def bodyAfterMarker (m : Msg) : List Nat :=
  int3b m.lenMsg ++ [m.edition % 256] ++ (wrSection1 m ++ (wrSection2 m ++ (wrSection3 m ++
    (wrSection4 m ++ wrSection5))))

theorem writeBody_eq (m : Msg) : writeBody m = 66 :: 85 :: 70 :: 82 :: bodyAfterMarker m := by
  simp [writeBody, wrSection0, bodyAfterMarker, List.append_assoc]

theorem read_sections (m : Msg) (hR : Ready m) (h : Option (List Nat)) (rest : List Nat) :
    (readSections h).runList (bodyAfterMarker m ++ rest) = .ok (normalize h m, rest) := by
  have hsm := hR.small
  have hlen := hR.len
  have hed := hR.ed
  have hs1 := hR.s1
  have hed256 : m.edition < 256 := by rcases hed with e | e | e <;> omega
  have hs1len : m.s1.len < 16777216 := by omega
  have hflag : m.s1.flag % 256 = m.s1.flag := by
    obtain ⟨_, _, _, _, _, _, _, _, _, _, _, _, h13, _⟩ := hs1
    exact Nat.mod_eq_of_lt h13
  have e : bodyAfterMarker m ++ rest = int3b m.lenMsg ++ [m.edition % 256] ++ (wrSection1 m ++
      (wrSection2 m ++ (wrSection3 m ++ (wrSection4 m ++ (wrSection5 ++ rest))))) := by
    simp [bodyAfterMarker, List.append_assoc]
  rw [e]
  unfold readSections
  simp only [runList_bind]
  rw [s0_read _ _ _ _ hsm hed256]
  simp only [Res.andThen_ok]
  -- the message after Section 0
  obtain ⟨M1, hM1, hM1e, hM1s, hM1l, hM1s2, hM1d2, hM1ds, hM1h, hM1f, hM1b⟩ :
      ∃ M1 : Msg, M1 = (if (createMessage 4).edition ≠ m.edition then
          ({ createMessage 4 with header := h, lenMsg := m.lenMsg } : Msg).initHeader m.edition
        else { createMessage 4 with header := h, lenMsg := m.lenMsg }) ∧
        M1.edition = m.edition ∧ M1.s1 = initSect1 m.edition ∧ M1.lenMsg = m.lenMsg ∧ M1.s2Len = 0 ∧
        M1.s2Data = [] ∧ M1.descs = [] ∧ M1.header = h ∧ M1.s4Filled = 0 ∧ M1.s4Bitno = 0 := by
    refine ⟨_, rfl, ?_⟩
    rcases hed with e | e | e <;> simp [e, createMessage, Msg.initHeader, normEdition]
  have hM1' : (let M' : Msg := { createMessage 4 with header := h, lenMsg := m.lenMsg };
      if ({ createMessage 4 with header := h } : Msg).edition ≠ m.edition then M'.initHeader m.edition else M') = M1 := by
    rw [hM1]
  rw [hM1']
  rw [s1_read m M1 _ hed hs1 hM1e hM1s hs1len]
  simp only [Res.andThen_ok]
  rw [s2_read m { M1 with s1 := normalizeS1 m.edition m.s1 } _ hR (by simp [normalizeS1, hflag]) hM1s2 hM1d2]
  simp only [Res.andThen_ok]
  rw [s3_read m { M1 with s1 := normalizeS1 m.edition m.s1, s2Len := m.s2Len,
                          s2Data := if hasSect2 m.s1.flag then m.s2Data else [] } _ hR hM1e]
  simp only [Res.andThen_ok]
  simp only [Msg.decodeSect3, hM1ds, List.nil_append, s3_decode m hR]
  rw [s4_read m _ _ hR]
  · simp only [Res.andThen_ok, s5_read, runList_pure]
    simp only [normalize, Res.ok.injEq, Prod.mk.injEq, and_true]
    cases M1
    simp_all
  · rfl
  · rfl
  · rfl
  · exact hM1l

/-! ### lengths of what the writers send -/

theorem wrSection0_length (m : Msg) : (wrSection0 m).length = 8 := by simp [wrSection0, int3b]

theorem wrSection1_length (m : Msg) (hed : m.edition = 2 ∨ m.edition = 3 ∨ m.edition = 4)
    (hr : S1InRange m.edition m.s1) : (wrSection1 m).length = m.s1.len := by
  obtain ⟨h1, h2, h3, _⟩ := hr
  rcases hed with he | he | he <;>
    simp [wrSection1, he, int3b, int2b, s1HeaderLen] at h1 h3 ⊢ <;> omega

theorem wrSection2_length (m : Msg) (hR : Ready m) : (wrSection2 m).length = m.s2Len := by
  have hl := hR.s2len
  by_cases hs : hasSect2 m.s1.flag = true
  · simp only [hs, if_true] at hl
    have : m.s2Len > 0 := by omega
    simp [wrSection2, hs, this, int3b]; omega
  · have hs' : hasSect2 m.s1.flag = false := by simpa using hs
    simp only [hs', Bool.false_eq_true, if_false] at hl
    simp [wrSection2, hs', hl]

theorem wrSection3_length (m : Msg) (hR : Ready m) : (wrSection3 m).length = m.s3Len := by
  have hl := hR.s3len
  have hb := hR.s3buf
  simp [wrSection3, int3b, int2b]; omega

theorem wrSection4_length (m : Msg) (hR : Ready m) : (wrSection4 m).length = m.s4Len := by
  have hl := hR.s4len
  simp [wrSection4, int3b]; omega

theorem writeBody_length (m : Msg) (hR : Ready m) : (writeBody m).length = m.lenMsg := by
  simp only [writeBody, List.length_append, wrSection0_length, wrSection1_length m hR.ed hR.s1,
    wrSection2_length m hR, wrSection3_length m hR, wrSection4_length m hR, hR.len, wrSection5,
    List.length_cons, List.length_nil]

/-! ### one message in front of other bytes -/

theorem runList_readMessageP (fuel : Nat) (l : List Nat) :
    (readMessageP fuel).runList l =
      ((seekP fuel 0 []).runList l).andThen (fun r => (readSections (headerOf r.1)).runList r.2) := by
  simp [readMessageP]

/-- foreign bytes without the marker, a message, anything: the message is returned with the
foreign bytes (minus `\004` met outside a partial marker) as its header string, and exactly
the foreign bytes and the message are consumed -/
theorem readMessage_prefix (pre rest : List Nat) (m : Msg) (hR : Ready m) (hp : NoMarker pre) :
    readMessage (pre ++ writeBody m ++ rest) =
      .ok (normalize (headerOf (seekCollect 0 pre)) m, pre.length + (writeBody m).length) := by
  unfold readMessage
  rw [runList_readMessageP, writeBody_eq, List.append_assoc, List.cons_append, List.cons_append,
    List.cons_append, List.cons_append,
    seek_pre pre _ _ hp (by simp only [List.length_append, List.length_cons]; omega)]
  simp only [Res.andThen_ok, read_sections m hR]
  congr 2
  simp only [List.length_append, List.length_cons]
  omega

/-- bytes without the marker: no message -/
theorem readMessage_none (tail : List Nat) (ht : NoMarker tail) : readMessage tail = .err := by
  unfold readMessage
  rw [runList_readMessageP, seekP_none tail 0 _ [] (by omega) (by simpa [patTake, NoMarker] using ht)]
  rfl

/-- a stream: for every message the foreign bytes in front of its `BUFR` (a separator followed
by the message's own header string), then trailing bytes -/
def streamOf : List (List Nat × Msg) → List Nat → List Nat
  | [], tail => tail
  | (pre, m) :: r, tail => pre ++ writeBody m ++ streamOf r tail

theorem readAll_stream : ∀ (items : List (List Nat × Msg)) (tail : List Nat) (fuel : Nat),
    (∀ it ∈ items, Ready it.2 ∧ NoMarker it.1) → NoMarker tail → items.length < fuel →
    readAll fuel (streamOf items tail) =
      items.map (fun it => (normalize (headerOf (seekCollect 0 it.1)) it.2,
                            it.1.length + (writeBody it.2).length)) := by
  intro items
  induction items with
  | nil =>
    intro tail fuel _ ht hf
    obtain ⟨f, rfl⟩ : ∃ f, fuel = f + 1 := ⟨fuel - 1, by simp at hf; omega⟩
    simp [readAll, streamOf, readMessage_none tail ht]
  | cons it items ih =>
    intro tail fuel hI ht hf
    obtain ⟨f, rfl⟩ : ∃ f, fuel = f + 1 := ⟨fuel - 1, by simp at hf; omega⟩
    obtain ⟨pre, m⟩ := it
    have h0 := hI (pre, m) (List.mem_cons_self)
    simp only [streamOf, readAll, readMessage_prefix pre _ m h0.1 h0.2, List.map_cons]
    congr 1
    have : (pre ++ writeBody m ++ streamOf items tail).drop (pre.length + (writeBody m).length) =
        streamOf items tail := by
      rw [← List.length_append]; exact List.drop_left' rfl
    rw [this]
    exact ih tail f (fun it h => hI it (List.mem_cons_of_mem _ h)) ht (by simp at hf; omega)

/-! ### the Section 4 padding of `bufr_end_message` is the `bufr_putbits` of BufrModel.Bits -/

/-- the padding `bufr_end_message` applies to an odd Section 4 (`bufr_putbits(bufr, 0, nbits)`,
nbits = 8 on an octet boundary, else (8 - bitno) + 8) appends exactly one zero octet to the
octets written so far and leaves the cursor on an octet boundary — this is what
`Msg.endMessage` does to `s4Data`, `s4Filled`, `s4Bitno` -/
theorem pad_putbits (w : W) (hI : WInv w) :
    let w' := w.putbits 0 (if w.bitno = 0 then 8 else 16 - w.bitno)
    w'.bytes = w.bytes ++ [0] ∧ w'.bitno = 0 ∧
    w'.filled = (if w.bitno = 0 then w.filled + 1 else w.filled + 2) := by
  have hb := hI.bitno_lt
  have hz := hI.zero
  have : w.bitno = 0 ∨ w.bitno = 1 ∨ w.bitno = 2 ∨ w.bitno = 3 ∨ w.bitno = 4 ∨ w.bitno = 5 ∨
      w.bitno = 6 ∨ w.bitno = 7 := by omega
  rcases this with h | h | h | h | h | h | h | h <;>
    (simp only [h] at hz ⊢
     simp [W.putbits, W.chunk, W.putLoop, W.putLoopF, W.bytes, W.filled, W.alloc, h]
     try (split <;> simp [hz]))

end Bufr.Frame
