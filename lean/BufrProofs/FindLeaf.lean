import BufrProofs.SoftFloat
import BufrModel.Find
import BufrSpec.Find
/-
  BufrProofs.FindLeaf — the value tests of the search (bufr_compare_value, bufr_between_values as the
  search uses them) against the property's "equal within half the element precision", "inclusive range"
  and "equal text up to padding" (C17, leaves).

  The C compares reals in double arithmetic: `fabs(f1 - f2) <= 0.5 / pow(10, scale)`.  The model mirrors
  that bit for bit; here it is shown equal to the exact comparison `|a - b| ≤ 10^-scale / 2` whenever the
  exact distance is not within one part in 2^40 of the tolerance (`NoBand`), for scales -40 … 40 and
  numbers up to 2^200.  Integers against integers, ranges and text are exact.
-/
namespace Bufr.Find
open Bufr Bufr.SF Bufr.Spec.Find

theorem rabs_eq (q : ℚ) : rabs q = |q| := by
  unfold rabs
  split_ifs with h
  · rw [abs_of_neg h]
  · rw [abs_of_nonneg (not_lt.mp h)]

theorem absQ_eq (q : ℚ) : absQ q = |q| := by
  unfold absQ
  split_ifs with h
  · rw [abs_of_neg h]
  · rw [abs_of_nonneg (not_lt.mp h)]

/-! ### the tolerance the C computes against the exact half precision, scale by scale (kernel evaluation) -/

def epsTable (n : Nat) : Bool :=
  (List.range (2 * n + 1)).all fun k =>
    let s : Int := (k : Int) - n
    let h := halfPrecision s
    let e := epsilonOf s
    decide (h * (1 - 1 / 2^50) ≤ e) && decide (e ≤ h * (1 + 1 / 2^50)) && decide (0 < h) && decide (h ≤ 10^41) &&
      decide (0 ≤ s → h ≤ 1/2)

set_option maxRecDepth 100000 in
theorem epsTable_ok : epsTable 40 = true := by decide +kernel

theorem eps_bounds (s : Int) (h1 : -40 ≤ s) (h2 : s ≤ 40) :
    halfPrecision s * (1 - 1 / 2^50) ≤ epsilonOf s ∧ epsilonOf s ≤ halfPrecision s * (1 + 1 / 2^50) ∧
    0 < halfPrecision s ∧ halfPrecision s ≤ 10^41 ∧ (0 ≤ s → halfPrecision s ≤ 1/2) := by
  have h := epsTable_ok
  unfold epsTable at h
  rw [List.all_eq_true] at h
  have hk := h (s + 40).toNat (List.mem_range.mpr (by omega))
  have hs : ((s + 40).toNat : Int) - (40 : Nat) = s := by omega
  simp only [hs, Bool.and_eq_true, decide_eq_true_eq] at hk
  obtain ⟨⟨⟨⟨a, b⟩, c⟩, d⟩, e⟩ := hk
  exact ⟨a, b, c, d, e⟩

/-! ### the comparison of two reals -/

/-- the double the C compares: the number, or `DBL_MAX` for a missing value -/
def repD (o : Option ℚ) : ℚ := o.getD maxDouble

/-- the exact distance is not within one part in 2^40 of the tolerance -/
def NoBand (s : Int) (a b : ℚ) : Prop :=
  |a - b| ≤ halfPrecision s * (1 - 1 / 2^40) ∨ halfPrecision s * (1 + 1 / 2^40) ≤ |a - b|

instance (s : Int) (a b : ℚ) : Decidable (NoBand s a b) := by unfold NoBand; infer_instance

set_option exponentiation.threshold 2000 in
theorem maxDouble_big : (2:ℚ)^251 + 2^200 ≤ maxDouble := by
  unfold maxDouble; norm_num

theorem maxDouble_pos : 0 < maxDouble := by
  have h1 := maxDouble_big
  have h2 : (0:ℚ) < 2^251 + 2^200 := by positivity
  exact lt_of_lt_of_le h2 h1

theorem two_pow_neg53 : (2:ℚ) ^ (-((53:ℕ):ℤ)) = 1 / 2^53 := by
  rw [zpow_neg, zpow_natCast]; simp

theorem fpSub_fin (p : ℕ) (mx a b : ℚ) :
    fpSub p mx (.fin a) (.fin b) =
      if |fl p (a - b)| > mx then FP.inf (decide (fl p (a - b) < 0)) else FP.fin (fl p (a - b)) := by
  simp [fpSub, rabs_eq]

theorem fpAbsLe_fin (q e : ℚ) : fpAbsLe (.fin q) e = decide (|q| ≤ e) := by simp [fpAbsLe, rabs_eq]
theorem fpAbsLe_inf (n : Bool) (e : ℚ) : fpAbsLe (.inf n) e = false := rfl

theorem fl53_lower (A : ℚ) : |A| * (1 - 1 / 2^53) ≤ |fl 53 A| := by
  have herr := fl_err 53 A
  rw [two_pow_neg53] at herr
  have h3 : |A| - |fl 53 A| ≤ |A - fl 53 A| := abs_sub_abs_le_abs_sub A (fl 53 A)
  rw [abs_sub_comm A (fl 53 A)] at h3
  nlinarith

theorem fl53_upper (A : ℚ) : |fl 53 A| ≤ |A| * (1 + 1 / 2^53) := by
  have := fl_abs_le 53 A
  rw [two_pow_neg53] at this; linarith

theorem real_cmp (s : Int) (h1 : -40 ≤ s) (h2 : s ≤ 40) (oa ob : Option ℚ)
    (ha : ∀ a, oa = some a → |a| ≤ 2^200) (hb : ∀ b, ob = some b → |b| ≤ 2^200)
    (hband : ∀ a b, oa = some a → ob = some b → NoBand s a b) :
    fpAbsLe (fpSub 53 maxDouble (.fin (repD oa)) (.fin (repD ob))) (epsilonOf s) =
      (match oa, ob with
       | none, none => true
       | some a, some b => decide (absQ (a - b) ≤ halfPrecision s)
       | _, _ => false) := by
  obtain ⟨e1, e2, hpos, hle, _⟩ := eps_bounds s h1 h2
  have heps0 : 0 ≤ epsilonOf s := by
    have : (0:ℚ) ≤ 1 - 1 / 2^50 := by norm_num
    nlinarith
  have hepsbig : epsilonOf s < 2^250 := by
    have h3 : halfPrecision s * (1 + 1 / 2^50) ≤ 10^41 * 2 := by
      have : (1:ℚ) + 1 / 2^50 ≤ 2 := by norm_num
      nlinarith
    have h4 : (10:ℚ)^41 * 2 < 2^250 := by norm_num
    linarith
  -- a missing value against a number: far beyond every tolerance
  have hfar : ∀ x y : ℚ, (2:ℚ)^251 ≤ |x - y| →
      fpAbsLe (fpSub 53 maxDouble (.fin x) (.fin y)) (epsilonOf s) = false := by
    intro x y hA
    rw [fpSub_fin]
    split_ifs with hov
    · rfl
    · rw [fpAbsLe_fin, decide_eq_false_iff_not, not_le]
      have hlow := fl53_lower (x - y)
      have h6 : (1:ℚ)/2 ≤ 1 - 1 / 2^53 := by norm_num
      have h5 : (2:ℚ)^251 * (1/2) = 2^250 := by norm_num
      have h7 : |x - y| * (1/2) ≤ |x - y| * (1 - 1 / 2^53) := mul_le_mul_of_nonneg_left h6 (abs_nonneg _)
      have h8 : (2:ℚ)^251 * (1/2) ≤ |x - y| * (1/2) := mul_le_mul_of_nonneg_right hA (by norm_num)
      linarith
  cases oa with
  | none =>
    cases ob with
    | none =>
      simp only [repD, Option.getD_none]
      rw [fpSub_fin, sub_self, fl_zero, abs_zero, if_neg (not_lt.mpr maxDouble_pos.le), fpAbsLe_fin, abs_zero]
      simpa using heps0
    | some b =>
      simp only [repD, Option.getD_none, Option.getD_some]
      apply hfar
      have hbb := hb b rfl
      have := maxDouble_big
      have h3 : |maxDouble| - |b| ≤ |maxDouble - b| := abs_sub_abs_le_abs_sub _ _
      rw [abs_of_pos maxDouble_pos] at h3
      linarith
  | some a =>
    cases ob with
    | none =>
      simp only [repD, Option.getD_none, Option.getD_some]
      apply hfar
      have haa := ha a rfl
      have := maxDouble_big
      have h3 : |maxDouble| - |a| ≤ |maxDouble - a| := abs_sub_abs_le_abs_sub _ _
      rw [abs_of_pos maxDouble_pos, abs_sub_comm maxDouble a] at h3
      linarith
    | some b =>
      simp only [repD, Option.getD_some]
      have haa := ha a rfl
      have hbb := hb b rfl
      have hA : |a - b| ≤ 2^201 := by
        have h3 := abs_sub a b
        have h4 : (2:ℚ)^200 + 2^200 = 2^201 := by norm_num
        linarith
      have hup := fl53_upper (a - b)
      have hlo := fl53_lower (a - b)
      have hnov : ¬ (|fl 53 (a - b)| > maxDouble) := by
        rw [not_lt]
        have h3 : |a - b| * (1 + 1 / 2^53) ≤ 2^201 * 2 := by
          have : (1:ℚ) + 1 / 2^53 ≤ 2 := by norm_num
          nlinarith [abs_nonneg (a - b)]
        have h5 : (2:ℚ)^201 * 2 ≤ maxDouble := by
          have := maxDouble_big
          have : (2:ℚ)^201 * 2 ≤ 2^251 := by norm_num
          have : (0:ℚ) ≤ 2^200 := by positivity
          linarith
        linarith
      rw [fpSub_fin, if_neg hnov, fpAbsLe_fin, absQ_eq]
      rcases hband a b rfl rfl with hin | hout
      · have t1 : |fl 53 (a - b)| ≤ epsilonOf s := by
          have h6 : |a - b| * (1 + 1 / 2^53) ≤ halfPrecision s * (1 - 1 / 2^40) * (1 + 1 / 2^53) :=
            mul_le_mul_of_nonneg_right hin (by norm_num)
          have h7 : halfPrecision s * (1 - 1 / 2^40) * (1 + 1 / 2^53) ≤ halfPrecision s * (1 - 1 / 2^50) := by
            rw [mul_assoc]
            apply mul_le_mul_of_nonneg_left _ hpos.le
            norm_num
          linarith
        have t2 : |a - b| ≤ halfPrecision s := by
          have : halfPrecision s * (1 - 1 / 2^40) ≤ halfPrecision s := by
            have : (1:ℚ) - 1 / 2^40 ≤ 1 := by norm_num
            nlinarith
          linarith
        simp [t1, t2]
      · have t1 : ¬ (|fl 53 (a - b)| ≤ epsilonOf s) := by
          rw [not_le]
          have h6 : halfPrecision s * (1 + 1 / 2^40) * (1 - 1 / 2^53) ≤ |a - b| * (1 - 1 / 2^53) :=
            mul_le_mul_of_nonneg_right hout (by norm_num)
          have h7 : halfPrecision s * (1 + 1 / 2^50) < halfPrecision s * (1 + 1 / 2^40) * (1 - 1 / 2^53) := by
            rw [mul_assoc]
            apply mul_lt_mul_of_pos_left _ hpos
            norm_num
          linarith
        have t2 : ¬ (|a - b| ≤ halfPrecision s) := by
          rw [not_le]
          have : halfPrecision s < halfPrecision s * (1 + 1 / 2^40) := by
            have : (1:ℚ) < 1 + 1 / 2^40 := by norm_num
            nlinarith
          linarith
        simp [t1, t2]

/-! ### values -/

/-- numbers the comparison lemmas cover: integers as the C holds them (INT64 values exactly representable in a
double), finite reals up to 2^200 or the missing sentinel; a NaN/Inf FLT32 is a missing value for the library,
a NaN/Inf FLT64 is excluded -/
def numAdm : Val → Bool
  | .i32 v => decide (|v| ≤ 2^63)
  | .i64 v => decide (|v| < 2^53)
  | .f32 (.fin q) => decide (q = maxFloat ∨ |q| ≤ 2^200)
  | .f32 _ => true
  | .f64 (.fin q) => decide (q = maxDouble ∨ |q| ≤ 2^200)
  | _ => false

theorem getDouble_rep (v : Val) (h : numAdm v = true) : v.getDouble = .fin (repD (num v)) := by
  cases v with
  | none => simp [numAdm] at h
  | str _ => simp [numAdm] at h
  | i32 a =>
    by_cases ha : a = -1
    · simp [Val.getDouble, num, repD, ha]
    · simp [Val.getDouble, num, repD, ha]
  | i64 a =>
    simp only [numAdm, decide_eq_true_eq] at h
    by_cases ha : a = -1
    · simp [Val.getDouble, num, repD, ha]
    · have : fl 53 (a : ℚ) = a := fl_int 53 a (by exact_mod_cast h)
      simp [Val.getDouble, num, repD, ha, this]
  | f32 x =>
    cases x with
    | nan => simp [Val.getDouble, fpMissingF, num, repD]
    | inf n => simp [Val.getDouble, fpMissingF, num, repD]
    | fin q =>
      by_cases hq : q = maxFloat
      · simp [Val.getDouble, fpMissingF, num, repD, hq]
      · simp [Val.getDouble, fpMissingF, num, repD, hq]
  | f64 x =>
    cases x with
    | nan => simp [numAdm] at h
    | inf n => simp [numAdm] at h
    | fin q =>
      by_cases hq : q = maxDouble
      · simp [Val.getDouble, num, repD, hq]
      · simp [Val.getDouble, num, repD, hq]

theorem num_bound (v : Val) (h : numAdm v = true) : ∀ a, num v = some a → |a| ≤ 2^200 := by
  intro a ha
  cases v with
  | none => simp [numAdm] at h
  | str _ => simp [numAdm] at h
  | i32 b =>
    simp only [numAdm, decide_eq_true_eq] at h
    by_cases hb : b = -1
    · simp [num, hb] at ha
    · simp only [num, hb, if_false, Option.some.injEq] at ha
      subst ha
      have h1 : |(b:ℚ)| ≤ 2^63 := by exact_mod_cast h
      have h2 : (2:ℚ)^63 ≤ 2^200 := by norm_num
      linarith
  | i64 b =>
    simp only [numAdm, decide_eq_true_eq] at h
    by_cases hb : b = -1
    · simp [num, hb] at ha
    · simp only [num, hb, if_false, Option.some.injEq] at ha
      subst ha
      have h1 : |(b:ℚ)| < 2^53 := by exact_mod_cast h
      have h2 : (2:ℚ)^53 ≤ 2^200 := by norm_num
      linarith
  | f32 x =>
    cases x with
    | nan => simp [num] at ha
    | inf n => simp [num] at ha
    | fin q =>
      simp only [numAdm, decide_eq_true_eq] at h
      by_cases hq : q = maxFloat
      · simp [num, hq] at ha
      · simp only [num, hq, if_false, Option.some.injEq] at ha
        subst ha
        rcases h with h | h
        · exact absurd h hq
        · exact h
  | f64 x =>
    cases x with
    | nan => simp [num] at ha
    | inf n => simp [num] at ha
    | fin q =>
      simp only [numAdm, decide_eq_true_eq] at h
      by_cases hq : q = maxDouble
      · simp [num, hq] at ha
      · simp only [num, hq, if_false, Option.some.injEq] at ha
        subst ha
        rcases h with h | h
        · exact absurd h hq
        · exact h

theorem ite_beq_zero (c : Prop) [Decidable c] : ((if c then (0:Int) else -1) == 0) = decide c := by
  by_cases h : c <;> simp [h]

/-- integers against integers: equal, or both missing -/
theorem int_cmp (s : Int) (h1 : 0 ≤ s) (h2 : s ≤ 40) (a b : Int) :
    decide (a = b) =
      (match (if a = -1 then none else some (a:ℚ)), (if b = -1 then none else some (b:ℚ)) with
       | none, none => true
       | some x, some y => decide (absQ (x - y) ≤ halfPrecision s)
       | _, _ => false) := by
  obtain ⟨_, _, hpos, _, hhalf⟩ := eps_bounds s (by omega) h2
  have hh := hhalf h1
  by_cases ha : a = -1 <;> by_cases hb : b = -1
  · simp [ha, hb]
  · subst ha
    have : ¬ ((-1:Int) = b) := fun h => hb h.symm
    simp [hb, this]
  · subst hb
    simp [ha]
  · simp only [ha, hb, if_false, absQ_eq]
    by_cases hab : a = b
    · subst hab
      simp [hpos.le]
    · have h3 : (1:ℤ) ≤ |a - b| := Int.one_le_abs (sub_ne_zero.mpr hab)
      have h4 : (1:ℚ) ≤ |(a:ℚ) - b| := by exact_mod_cast h3
      have : ¬ (|(a:ℚ) - b| ≤ halfPrecision s) := by
        rw [not_le]; linarith
      simp [hab, this]

/-- what has to hold for the value `x` of an element of scale `s` and the key value `v` (both numbers) -/
def CmpNumOk (s : Int) (x v : Val) : Prop :=
  -40 ≤ s ∧ s ≤ 40 ∧ numAdm x = true ∧ numAdm v = true ∧
  (match x with | .f32 _ => False | _ => True) ∧ (match v with | .i64 _ => False | _ => True) ∧
  (isIntVal x = true ∧ isIntVal v = true → 0 ≤ s) ∧
  (¬ (isIntVal x = true ∧ isIntVal v = true) → ∀ a b, num x = some a → num v = some b → NoBand s a b)

theorem real_branch (s : Int) (x v : Val) (h1 : -40 ≤ s) (h2 : s ≤ 40) (hx : numAdm x = true) (hv : numAdm v = true)
    (hb : ∀ a b, num x = some a → num v = some b → NoBand s a b) :
    fpAbsLe (fpSub 53 maxDouble x.getDouble v.getDouble) (epsilonOf s) =
      (match num x, num v with
       | none, none => true
       | some a, some b => decide (absQ (a - b) ≤ halfPrecision s)
       | _, _ => false) := by
  rw [getDouble_rep x hx, getDouble_rep v hv]
  exact real_cmp s h1 h2 (num x) (num v) (num_bound x hx) (num_bound v hv) hb

theorem compare_num (s : Int) (x v : Val) (h : CmpNumOk s x v) :
    (compareValue x v (epsilonOf s) == 0) = valEq s x v := by
  obtain ⟨h1, h2, hx, hv, hxf, hvl, hint, hband⟩ := h
  cases x with
  | none => simp [numAdm] at hx
  | str _ => simp [numAdm] at hx
  | f32 _ => exact absurd hxf (by simp)
  | i32 a =>
    cases v with
    | none => simp [numAdm] at hv
    | str _ => simp [numAdm] at hv
    | i64 _ => exact absurd hvl (by simp)
    | i32 b =>
      have hs := hint ⟨rfl, rfl⟩
      have hcv : (compareValue (.i32 a) (.i32 b) (epsilonOf s) == 0) = decide (a = b) := by
        by_cases hab : a = b
        · subst hab; simp [compareValue, isIntVal, isFltVal, Val.getInt32]
        · simp [compareValue, isIntVal, isFltVal, Val.getInt32, hab]
      rw [hcv]
      simp only [valEq, num]
      exact int_cmp s hs h2 a b
    | f32 y =>
      have hb := hband (by simp [isIntVal])
      simp only [compareValue, isIntVal, isFltVal, Bool.and_self, if_true, ite_beq_zero, Bool.decide_eq_true, valEq]
      exact real_branch s (.i32 a) (.f32 y) h1 h2 hx hv hb
    | f64 y =>
      have hb := hband (by simp [isIntVal])
      simp only [compareValue, isIntVal, isFltVal, Bool.and_self, if_true, ite_beq_zero, Bool.decide_eq_true, valEq]
      exact real_branch s (.i32 a) (.f64 y) h1 h2 hx hv hb
  | i64 a =>
    cases v with
    | none => simp [numAdm] at hv
    | str _ => simp [numAdm] at hv
    | i64 _ => exact absurd hvl (by simp)
    | i32 b =>
      have hs := hint ⟨rfl, rfl⟩
      have hcv : (compareValue (.i64 a) (.i32 b) (epsilonOf s) == 0) = decide (a = b) := by
        by_cases hab : a = b
        · subst hab; simp [compareValue, isIntVal, isFltVal, Val.getInt64]
        · simp [compareValue, isIntVal, isFltVal, Val.getInt64, hab]
      rw [hcv]
      simp only [valEq, num]
      exact int_cmp s hs h2 a b
    | f32 y =>
      have hb := hband (by simp [isIntVal])
      simp only [compareValue, isIntVal, isFltVal, Bool.and_self, if_true, ite_beq_zero, Bool.decide_eq_true, valEq]
      exact real_branch s (.i64 a) (.f32 y) h1 h2 hx hv hb
    | f64 y =>
      have hb := hband (by simp [isIntVal])
      simp only [compareValue, isIntVal, isFltVal, Bool.and_self, if_true, ite_beq_zero, Bool.decide_eq_true, valEq]
      exact real_branch s (.i64 a) (.f64 y) h1 h2 hx hv hb
  | f64 X =>
    have hb := hband (by simp [isIntVal])
    cases v with
    | none => simp [numAdm] at hv
    | str _ => simp [numAdm] at hv
    | i64 _ => exact absurd hvl (by simp)
    | i32 b =>
      simp only [compareValue, isIntVal, isFltVal, Bool.false_and, Bool.false_eq_true, if_false, ite_beq_zero,
        Bool.decide_eq_true, valEq]
      exact real_branch s (.f64 X) (.i32 b) h1 h2 hx hv hb
    | f32 y =>
      simp only [compareValue, isIntVal, isFltVal, Bool.false_and, Bool.false_eq_true, if_false, ite_beq_zero,
        Bool.decide_eq_true, valEq]
      exact real_branch s (.f64 X) (.f32 y) h1 h2 hx hv hb
    | f64 y =>
      simp only [compareValue, isIntVal, isFltVal, Bool.false_and, Bool.false_eq_true, if_false, ite_beq_zero,
        Bool.decide_eq_true, valEq]
      exact real_branch s (.f64 X) (.f64 y) h1 h2 hx hv hb

/-! ### ranges -/

/-- what has to hold for a range key `[lo, hi]` and the value `x`: numbers, bounds not missing -/
def RngOk (lo x hi : Val) : Prop :=
  numAdm lo = true ∧ numAdm hi = true ∧ numAdm x = true ∧ (num lo).isSome = true ∧ (num hi).isSome = true ∧
  (match lo with | .i64 _ => False | _ => True) ∧ (match hi with | .i64 _ => False | _ => True) ∧
  (match x with | .f32 _ => False | _ => True)

theorem isMissing_num (x : Val) (h : numAdm x = true) : x.isMissing = (num x).isNone := by
  cases x with
  | none => simp [numAdm] at h
  | str _ => simp [numAdm] at h
  | i32 a => by_cases ha : a = -1 <;> simp [Val.isMissing, num, ha]
  | i64 a => by_cases ha : a = -1 <;> simp [Val.isMissing, num, ha]
  | f32 y =>
    cases y with
    | nan => simp [Val.isMissing, fpMissingF, num]
    | inf n => simp [Val.isMissing, fpMissingF, num]
    | fin q => by_cases hq : q = maxFloat <;> simp [Val.isMissing, fpMissingF, num, hq]
  | f64 y =>
    cases y with
    | nan => simp [numAdm] at h
    | inf n => simp [numAdm] at h
    | fin q => by_cases hq : q = maxDouble <;> simp [Val.isMissing, fpMissingD, num, hq]

theorem notStr_of_numAdm (x : Val) (h : numAdm x = true) : isStrVal x = false := by
  cases x <;> simp_all [numAdm, isStrVal]

theorem dbl_range (lo x hi : Val) (hlo : numAdm lo = true) (hx : numAdm x = true) (hhi : numAdm hi = true)
    (a v b : ℚ) (ha : num lo = some a) (hv : num x = some v) (hb : num hi = some b) :
    (fpLe lo.getDouble x.getDouble && fpLe x.getDouble hi.getDouble) = decide (a ≤ v ∧ v ≤ b) := by
  rw [getDouble_rep lo hlo, getDouble_rep x hx, getDouble_rep hi hhi, ha, hv, hb]
  simp only [repD, Option.getD_some, fpLe]
  by_cases h1 : a ≤ v <;> by_cases h2 : v ≤ b <;> simp [h1, h2]

theorem getInt64_num (x : Val) (hx : isIntVal x = true) (v : ℚ) (hv : num x = some v) : ((x.getInt64 : ℤ) : ℚ) = v := by
  cases x with
  | i32 a =>
    by_cases ha : a = -1
    · simp [num, ha] at hv
    · simp only [num, ha, if_false, Option.some.injEq] at hv
      simp [Val.getInt64, hv]
  | i64 a =>
    by_cases ha : a = -1
    · simp [num, ha] at hv
    · simp only [num, ha, if_false, Option.some.injEq] at hv
      simp [Val.getInt64, hv]
  | _ => simp [isIntVal] at hx

theorem between_eq (lo x hi : Val) (h : RngOk lo x hi) : (betweenValues lo x hi == 1) = inRange lo x hi := by
  obtain ⟨hlo, hhi, hx, hslo, hshi, hlo64, hhi64, hxf⟩ := h
  obtain ⟨a, ha⟩ := Option.isSome_iff_exists.mp hslo
  obtain ⟨b, hb⟩ := Option.isSome_iff_exists.mp hshi
  have s1 := notStr_of_numAdm lo hlo
  have s2 := notStr_of_numAdm hi hhi
  have s3 := notStr_of_numAdm x hx
  have hmiss := isMissing_num x hx
  unfold betweenValues inRange
  simp only [s1, s2, s3, bne_self_eq_false, Bool.or_self, Bool.false_eq_true, if_false, Bool.not_false, Bool.true_and]
  cases hv : num x with
  | none =>
    simp [hmiss, hv, ha, hb]
  | some v =>
    have hnm : x.isMissing = false := by rw [hmiss, hv]; rfl
    simp only [hnm, Bool.false_eq_true, if_false, ha, hb]
    have hd := dbl_range lo x hi hlo hx hhi a v b ha hv hb
    cases x with
    | none => simp [numAdm] at hx
    | str _ => simp [numAdm] at hx
    | f32 _ => exact absurd hxf (by simp)
    | f64 X =>
      simp only []
      rw [hd]
      by_cases hc : a ≤ v ∧ v ≤ b <;> simp [hc]
    | i32 xv =>
      simp only []
      by_cases hfl : (!isFltVal lo && !isFltVal hi) = true
      · rw [if_pos hfl]
        simp only [Bool.and_eq_true, Bool.not_eq_true'] at hfl
        have il : isIntVal lo = true := by
          cases lo <;> simp_all [isFltVal, isIntVal, numAdm]
        have ih : isIntVal hi = true := by
          cases hi <;> simp_all [isFltVal, isIntVal, numAdm]
        have e1 := getInt64_num lo il a ha
        have e2 := getInt64_num hi ih b hb
        have e3 := getInt64_num (.i32 xv) rfl v hv
        rw [← e1, ← e2, ← e3]
        by_cases hc : lo.getInt64 ≤ (Val.i32 xv).getInt64 ∧ (Val.i32 xv).getInt64 ≤ hi.getInt64
        · have : ((lo.getInt64 : ℤ) : ℚ) ≤ ((Val.i32 xv).getInt64 : ℤ) ∧ (((Val.i32 xv).getInt64 : ℤ) : ℚ) ≤ (hi.getInt64 : ℤ) := by
            exact ⟨by exact_mod_cast hc.1, by exact_mod_cast hc.2⟩
          simp [hc, this]
        · have : ¬ (((lo.getInt64 : ℤ) : ℚ) ≤ ((Val.i32 xv).getInt64 : ℤ) ∧ (((Val.i32 xv).getInt64 : ℤ) : ℚ) ≤ (hi.getInt64 : ℤ)) := by
            intro h'; exact hc ⟨by exact_mod_cast h'.1, by exact_mod_cast h'.2⟩
          simp [hc]
      · rw [if_neg hfl, hd]
        by_cases hc : a ≤ v ∧ v ≤ b <;> simp [hc]
    | i64 xv =>
      simp only []
      by_cases hfl : (!isFltVal lo && !isFltVal hi) = true
      · rw [if_pos hfl]
        simp only [Bool.and_eq_true, Bool.not_eq_true'] at hfl
        have il : isIntVal lo = true := by
          cases lo <;> simp_all [isFltVal, isIntVal, numAdm]
        have ih : isIntVal hi = true := by
          cases hi <;> simp_all [isFltVal, isIntVal, numAdm]
        have e1 := getInt64_num lo il a ha
        have e2 := getInt64_num hi ih b hb
        have e3 := getInt64_num (.i64 xv) rfl v hv
        rw [← e1, ← e2, ← e3]
        by_cases hc : lo.getInt64 ≤ (Val.i64 xv).getInt64 ∧ (Val.i64 xv).getInt64 ≤ hi.getInt64
        · have : ((lo.getInt64 : ℤ) : ℚ) ≤ ((Val.i64 xv).getInt64 : ℤ) ∧ (((Val.i64 xv).getInt64 : ℤ) : ℚ) ≤ (hi.getInt64 : ℤ) := by
            exact ⟨by exact_mod_cast hc.1, by exact_mod_cast hc.2⟩
          simp [hc, this]
        · have : ¬ (((lo.getInt64 : ℤ) : ℚ) ≤ ((Val.i64 xv).getInt64 : ℤ) ∧ (((Val.i64 xv).getInt64 : ℤ) : ℚ) ≤ (hi.getInt64 : ℤ)) := by
            intro h'; exact hc ⟨by exact_mod_cast h'.1, by exact_mod_cast h'.2⟩
          simp [hc]
      · rw [if_neg hfl, hd]
        by_cases hc : a ≤ v ∧ v ≤ b <;> simp [hc]

/-! ### text -/

/-- no NUL byte: the string is its own C string -/
def noNul (l : List Nat) : Bool := l.all (· ≠ 0)

theorem strncmpEq_take : ∀ (n : Nat) (a b : List Nat), n ≤ a.length → n ≤ b.length → noNul a = true → noNul b = true →
    strncmpEq n a b = (a.take n == b.take n) := by
  intro n
  induction n with
  | zero => intro a b _ _ _ _; simp [strncmpEq]
  | succ n ih =>
    intro a b ha hb na nb
    cases a with
    | nil => simp at ha
    | cons c1 a' =>
      cases b with
      | nil => simp at hb
      | cons c2 b' =>
        simp only [noNul, List.all_cons, Bool.and_eq_true, decide_eq_true_eq] at na nb
        unfold strncmpEq
        simp only [List.headD_cons, List.tail_cons, List.take_succ_cons]
        by_cases hc : c1 = c2
        · subst hc
          have := ih a' b' (by simpa using ha) (by simpa using hb) (by simpa [noNul] using na.2) (by simpa [noNul] using nb.2)
          simp [na.1, this]
        · simp [hc]

theorem restIsPadding_all : ∀ (l : List Nat), noNul l = true → restIsPadding l = l.all (fun c => decide (c = 32)) := by
  intro l
  induction l with
  | nil => intro _; rfl
  | cons c cs ih =>
    intro h
    simp only [noNul, List.all_cons, Bool.and_eq_true, decide_eq_true_eq] at h
    unfold restIsPadding
    by_cases hc : c = 32
    · subst hc
      simp [ih (by simpa [noNul] using h.2)]
    · simp [h.1, hc]

theorem dropWhile_blanks (k : Nat) (r : List Nat) :
    List.dropWhile (fun x => decide (x = 32)) (List.replicate k 32 ++ r) = List.dropWhile (fun x => decide (x = 32)) r := by
  induction k with
  | zero => simp
  | succ k ih => simp [List.replicate_succ, ih]

theorem trim_append_blanks (l : List Nat) (k : Nat) : trimBlanks (l ++ List.replicate k 32) = trimBlanks l := by
  unfold trimBlanks
  rw [List.reverse_append, List.reverse_replicate, dropWhile_blanks]

theorem trim_decomp (l : List Nat) : ∃ k, l = trimBlanks l ++ List.replicate k 32 := by
  have h := List.takeWhile_append_dropWhile (p := fun x => decide (x = 32)) (l := l.reverse)
  have hall : ∀ x ∈ List.takeWhile (fun x => decide (x = 32)) l.reverse, x = 32 := by
    intro x hx
    have := List.all_eq_true.mp (List.all_takeWhile (p := fun x => decide (x = 32)) (l := l.reverse)) x hx
    simpa using this
  have hrep : List.takeWhile (fun x => decide (x = 32)) l.reverse =
      List.replicate (List.takeWhile (fun x => decide (x = 32)) l.reverse).length 32 :=
    List.eq_replicate_iff.mpr ⟨rfl, hall⟩
  refine ⟨(List.takeWhile (fun x => decide (x = 32)) l.reverse).length, ?_⟩
  have h2 := congrArg List.reverse h
  rw [List.reverse_append, List.reverse_reverse] at h2
  have h3 : (List.takeWhile (fun x => decide (x = 32)) l.reverse).reverse =
      List.replicate (List.takeWhile (fun x => decide (x = 32)) l.reverse).length 32 := by
    rw [hrep, List.reverse_replicate, List.length_replicate]
  unfold trimBlanks
  rw [← h3]
  exact h2.symm

theorem allBlank_replicate (l : List Nat) (h : l.all (fun c => decide (c = 32)) = true) : l = List.replicate l.length 32 := by
  apply List.eq_replicate_iff.mpr
  refine ⟨rfl, ?_⟩
  intro b hb
  have := List.all_eq_true.mp h b hb
  simpa using this

/-- `a` is `b` cut to the length of `a`, and what `b` has more is blank — iff they are equal up to padding -/
theorem prefix_pad (a b : List Nat) (hle : a.length ≤ b.length) :
    ((a == b.take a.length) && (b.drop a.length).all (fun c => decide (c = 32))) = (trimBlanks a == trimBlanks b) := by
  rw [Bool.eq_iff_iff]
  simp only [Bool.and_eq_true, beq_iff_eq]
  constructor
  · rintro ⟨h1, h2⟩
    have hb : b = a ++ List.replicate (b.drop a.length).length 32 := by
      have := List.take_append_drop a.length b
      rw [← h1, allBlank_replicate _ h2] at this
      exact this.symm
    rw [hb, trim_append_blanks]
  · intro h
    obtain ⟨m1, ha⟩ := trim_decomp a
    obtain ⟨n1, hb⟩ := trim_decomp b
    rw [← h] at hb
    have hlen : m1 ≤ n1 := by
      have l1 := congrArg List.length ha
      have l2 := congrArg List.length hb
      simp only [List.length_append, List.length_replicate] at l1 l2
      omega
    have hb2 : b = a ++ List.replicate (n1 - m1) 32 := by
      rw [hb]
      conv_rhs => rw [ha]
      rw [List.append_assoc, List.replicate_append_replicate]
      congr 2
      omega
    constructor
    · rw [hb2, List.take_left' rfl]
    · rw [hb2, List.drop_left' rfl]
      simp

theorem compareStr_eq (a b : List Nat) (ha : noNul a = true) (hb : noNul b = true) :
    compareStrEq a b = (trimBlanks a == trimBlanks b) := by
  unfold compareStrEq
  by_cases hgt : a.length > b.length
  · have hmin : min a.length b.length = b.length := by omega
    simp only [hmin, hgt, if_true]
    rw [strncmpEq_take b.length a b (by omega) (Nat.le_refl _) ha hb, List.take_of_length_le (Nat.le_refl _)]
    have hna : noNul (a.drop b.length) = true := by
      unfold noNul at ha ⊢
      rw [List.all_eq_true] at ha ⊢
      intro x hx; exact ha x (List.mem_of_mem_drop hx)
    rw [restIsPadding_all _ hna]
    have := prefix_pad b a (by omega)
    have e1 : (a.take b.length == b) = (b == a.take b.length) := by
      rw [Bool.eq_iff_iff]; simp only [beq_iff_eq]; exact eq_comm
    have e2 : (trimBlanks a == trimBlanks b) = (trimBlanks b == trimBlanks a) := by
      rw [Bool.eq_iff_iff]; simp only [beq_iff_eq]; exact eq_comm
    rw [e2, ← this, e1]
    cases (b == a.take b.length) <;> simp
  · have hmin : min a.length b.length = a.length := by omega
    simp only [hmin, hgt, if_false]
    rw [strncmpEq_take a.length a b (Nat.le_refl _) (by omega) ha hb, List.take_of_length_le (Nat.le_refl _)]
    have hnb : noNul (b.drop a.length) = true := by
      unfold noNul at hb ⊢
      rw [List.all_eq_true] at hb ⊢
      intro x hx; exact hb x (List.mem_of_mem_drop hx)
    rw [restIsPadding_all _ hnb]
    have := prefix_pad a b (by omega)
    rw [← this]
    cases (a == b.take a.length) <;> simp

end Bufr.Find
