import BufrModel.Bits
import Mathlib.Tactic.Ring
/-
  T-Bits: the byte-level cursor model refines an abstract MSB-first bit list.
  Helper lemmas for C11 (and for every codec theorem built on top of it).
-/
namespace Bufr

/-! ### bitsMSB / ofBitsMSB -/

@[simp] theorem bitsMSB_length (n v) : (bitsMSB n v).length = n := by
  induction n with
  | zero => rfl
  | succ n ih => simp [bitsMSB, ih]

theorem bitsMSB_getElem (n v i) (h : i < n) :
    (bitsMSB n v)[i]'(by simp [h]) = v.testBit (n - 1 - i) := by
  induction n generalizing i with
  | zero => omega
  | succ n ih =>
    cases i with
    | zero => simp [bitsMSB]
    | succ i =>
      simp only [bitsMSB, List.getElem_cons_succ]
      rw [ih i (by omega)]
      congr 1; omega

/-- split: the top `a` bits then the low `b` bits -/
theorem bitsMSB_split (a b v : Nat) :
    bitsMSB (a + b) v = bitsMSB a (v >>> b) ++ bitsMSB b v := by
  apply List.ext_getElem
  · simp
  · intro i h1 h2
    rw [bitsMSB_getElem _ _ _ (by simpa using h1)]
    by_cases hi : i < a
    · rw [List.getElem_append_left (by simp [hi])]
      rw [bitsMSB_getElem _ _ _ hi, Nat.testBit_shiftRight]
      congr 1; omega
    · have hi' : a ≤ i := by omega
      rw [List.getElem_append_right (by simp [hi'])]
      simp only [bitsMSB_length]
      have hlt : i - a < b := by simp at h1; omega
      rw [bitsMSB_getElem _ _ _ hlt]
      congr 1; omega

theorem bitsMSB_congr (n a b : Nat) (h : ∀ j, j < n → a.testBit j = b.testBit j) :
    bitsMSB n a = bitsMSB n b := by
  apply List.ext_getElem
  · simp
  · intro i h1 _
    have hi : i < n := by simpa using h1
    rw [bitsMSB_getElem _ _ _ hi, bitsMSB_getElem _ _ _ hi]
    exact h _ (by omega)

theorem bitsMSB_mod (n v : Nat) : bitsMSB n (v % 2^n) = bitsMSB n v := by
  apply bitsMSB_congr
  intro j hj
  simp [Nat.testBit_mod_two_pow, hj]

theorem ofBitsMSB_foldl (bs : List Bool) (a : Nat) :
    bs.foldl (fun acc b => 2 * acc + b.toNat) a = a * 2^bs.length + ofBitsMSB bs := by
  induction bs generalizing a with
  | nil => simp [ofBitsMSB]
  | cons b bs ih =>
    simp only [List.foldl_cons, List.length_cons, ofBitsMSB]
    rw [ih, ih (2 * 0 + b.toNat)]
    rw [Nat.pow_succ]
    ring

theorem ofBitsMSB_append (as bs : List Bool) :
    ofBitsMSB (as ++ bs) = ofBitsMSB as * 2^bs.length + ofBitsMSB bs := by
  unfold ofBitsMSB
  rw [List.foldl_append, ofBitsMSB_foldl]
  rfl

@[simp] theorem ofBitsMSB_nil : ofBitsMSB [] = 0 := rfl

theorem ofBitsMSB_cons (b : Bool) (bs : List Bool) :
    ofBitsMSB (b :: bs) = b.toNat * 2^bs.length + ofBitsMSB bs := by
  have := ofBitsMSB_append [b] bs
  simpa [ofBitsMSB] using this

theorem ofBitsMSB_lt (bs : List Bool) : ofBitsMSB bs < 2^bs.length := by
  induction bs with
  | nil => simp
  | cons b bs ih =>
    rw [ofBitsMSB_cons, List.length_cons, Nat.pow_succ]
    cases b <;> simp <;> omega

/-- reading back what `bitsMSB` wrote gives the low `n` bits -/
theorem ofBitsMSB_bitsMSB (n v : Nat) : ofBitsMSB (bitsMSB n v) = v % 2^n := by
  induction n with
  | zero => simp [bitsMSB, Nat.mod_one]
  | succ n ih =>
    rw [bitsMSB, ofBitsMSB_cons, ih, bitsMSB_length]
    have h := Nat.testBit_eq_decide_div_mod_eq (x := v) (i := n)
    have hdm : v % 2^(n+1) = 2^n * (v / 2^n % 2) + v % 2^n := by
      rw [Nat.pow_succ, Nat.mod_mul]; ring
    rw [hdm]
    cases hb : v.testBit n
    · rw [hb] at h
      have : v / 2^n % 2 = 0 := by
        have := Nat.mod_two_eq_zero_or_one (v / 2^n)
        rcases this with h0 | h1
        · exact h0
        · simp [h1] at h
      simp [this]
    · rw [hb] at h
      have : v / 2^n % 2 = 1 := by simpa using h.symm
      simp [this]

theorem ofBitsMSB_bitsMSB_of_lt (n v : Nat) (h : v < 2^n) : ofBitsMSB (bitsMSB n v) = v := by
  rw [ofBitsMSB_bitsMSB, Nat.mod_eq_of_lt h]

/-- `bitsMSB` of a value reassembled from its bits -/
theorem bitsMSB_ofBitsMSB (bs : List Bool) : bitsMSB bs.length (ofBitsMSB bs) = bs := by
  induction bs with
  | nil => rfl
  | cons b bs ih =>
    rw [List.length_cons, bitsMSB, ofBitsMSB_cons]
    have hlt := ofBitsMSB_lt bs
    congr 1
    · rw [Nat.testBit_eq_decide_div_mod_eq]
      have : (b.toNat * 2^bs.length + ofBitsMSB bs) / 2^bs.length = b.toNat := by
        rw [Nat.mul_comm, Nat.mul_add_div (Nat.two_pow_pos _), Nat.div_eq_of_lt hlt]; simp
      rw [this]; cases b <;> simp
    · rw [← bitsMSB_mod, Nat.mul_comm, Nat.mul_add_mod, Nat.mod_eq_of_lt hlt]
      exact ih

/-! ### Writer -/

/-- bits of `b` below position `8-p` (everything after the first `p` stream bits) are zero -/
def lowZero (b p : Nat) : Prop := ∀ j, j < 8 - p → b.testBit j = false

structure WInv (w : W) : Prop where
  bitno_lt : w.bitno < 8
  low : lowZero w.curb w.bitno
  zero : w.bitno = 0 → w.curb = 0

theorem WInv_new (n : Nat) : WInv (W.new n) := by
  refine ⟨by simp [W.new], ?_, by simp [W.new]⟩
  intro j _; simp [W.new]

def orIn (b p t x : Nat) : Nat := b ||| ((x &&& (2^t - 1)) <<< (8 - p - t))

theorem testBit_orIn (b p t x j : Nat) :
    (orIn b p t x).testBit j =
      (b.testBit j || (decide (8 - p - t ≤ j ∧ j < 8 - p - t + t) && x.testBit (j - (8 - p - t)))) := by
  unfold orIn
  simp only [Nat.testBit_or, Nat.testBit_shiftLeft, Nat.testBit_and, Nat.testBit_two_pow_sub_one]
  by_cases h1 : 8 - p - t ≤ j
  · by_cases h2 : j < 8 - p - t + t
    · have : j - (8 - p - t) < t := by omega
      simp [h1, h2, this]
    · have : ¬ (j - (8 - p - t) < t) := by omega
      simp [h1, h2, this]
  · simp [h1]

theorem step_bits (b p t x : Nat) (hpt : p + t ≤ 8) (hz : lowZero b p) :
    (bitsMSB 8 (orIn b p t x)).take (p + t) = (bitsMSB 8 b).take p ++ bitsMSB t x := by
  apply List.ext_getElem
  · simp; omega
  · intro i h1 h2
    have hi : i < p + t := by simp at h1; omega
    rw [List.getElem_take, bitsMSB_getElem _ _ _ (by omega), testBit_orIn]
    by_cases hip : i < p
    · rw [List.getElem_append_left (by simp; omega)]
      rw [List.getElem_take, bitsMSB_getElem _ _ _ (by omega)]
      have : ¬ (8 - 1 - i < 8 - p - t + t) := by omega
      simp [this]
    · have hip' : p ≤ i := by omega
      rw [List.getElem_append_right (by simp; omega)]
      have hlen : ((bitsMSB 8 b).take p).length = p := by simp; omega
      simp only [hlen]
      rw [bitsMSB_getElem _ _ _ (by omega)]
      have hzb : b.testBit (8 - 1 - i) = false := hz _ (by omega)
      have c1 : 8 - p - t ≤ 8 - 1 - i := by omega
      have c2 : 8 - 1 - i < 8 - p - t + t := by omega
      simp only [hzb, Bool.false_or, c1, c2, and_self, decide_true, Bool.true_and]
      congr 1; omega

theorem orIn_lowZero (b p t x : Nat) (hpt : p + t ≤ 8) (hz : lowZero b p) :
    lowZero (orIn b p t x) (p + t) := by
  intro j hj
  rw [testBit_orIn, hz j (by omega)]
  have : ¬ (8 - p - t ≤ j) := by omega
  simp [this]

theorem take_all_8 (v : Nat) : (bitsMSB 8 v).take 8 = bitsMSB 8 v := by
  apply List.take_of_length_le; simp

theorem flatMap_push (a : Array Nat) (b : Nat) :
    (a.push b).toList.flatMap (bitsMSB 8) = a.toList.flatMap (bitsMSB 8) ++ bitsMSB 8 b := by
  simp [List.flatMap_append]

/-- one chunk appends exactly its `t` bits -/
theorem chunk_bits (w : W) (x t : Nat) (hI : WInv w) (ht : w.bitno + t ≤ 8) :
    (w.chunk x t).bits = w.bits ++ bitsMSB t x ∧ WInv (w.chunk x t) := by
  have hs := step_bits w.curb w.bitno t x ht hI.low
  have hl := orIn_lowZero w.curb w.bitno t x ht hI.low
  unfold W.chunk
  simp only
  split
  · next h8 =>
    constructor
    · simp only [W.bits, List.take_zero, List.append_nil]
      rw [flatMap_push]
      have : (bitsMSB 8 (orIn w.curb w.bitno t x)) = (bitsMSB 8 w.curb).take w.bitno ++ bitsMSB t x := by
        rw [← hs, h8, take_all_8]
      unfold orIn at this
      rw [this, List.append_assoc]
    · refine ⟨by simp, ?_, by simp⟩
      intro j _; simp
  · next h8 =>
    constructor
    · simp only [W.bits]
      unfold orIn at hs
      rw [hs, List.append_assoc]
    · refine ⟨by simp; omega, ?_, ?_⟩
      · simpa [orIn] using hl
      · intro h0
        simp only at h0
        have ht0 : t = 0 := by omega
        have hb0 : w.bitno = 0 := by omega
        subst ht0
        simp [hI.zero hb0]

theorem putLoopF_bits (v : Nat) : ∀ (fuel left : Nat) (w : W), left ≤ fuel → WInv w →
    (left = 0 ∨ w.bitno = 0) →
    (W.putLoopF fuel w v left).bits = w.bits ++ bitsMSB left v ∧ WInv (W.putLoopF fuel w v left) := by
  intro fuel
  induction fuel with
  | zero =>
    intro left w hle hI _
    have : left = 0 := by omega
    subst this; simp [W.putLoopF, bitsMSB, hI]
  | succ f ih =>
    intro left w hle hI hb
    unfold W.putLoopF
    split
    · next h0 => subst h0; simp [bitsMSB, hI]
    · next h0 =>
      have hb0 : w.bitno = 0 := by omega
      have ht : w.bitno + min left 8 ≤ 8 := by omega
      obtain ⟨c1, c2⟩ := chunk_bits w (v >>> (left - min left 8)) (min left 8) hI ht
      have hb' : (left - min left 8 = 0 ∨ (w.chunk (v >>> (left - min left 8)) (min left 8)).bitno = 0) := by
        by_cases h8 : left ≤ 8
        · left; omega
        · right
          have : min left 8 = 8 := by omega
          unfold W.chunk
          simp [hb0, this]
      obtain ⟨r1, r2⟩ := ih (left - min left 8) _ (by omega) c2 hb'
      refine ⟨?_, r2⟩
      rw [r1, c1, List.append_assoc]
      congr 1
      have := bitsMSB_split (min left 8) (left - min left 8) v
      rw [← this]
      congr 1; omega

theorem putLoop_bits (v : Nat) (left : Nat) (w : W) (hI : WInv w) (hb : left = 0 ∨ w.bitno = 0) :
    (w.putLoop v left).bits = w.bits ++ bitsMSB left v ∧ WInv (w.putLoop v left) :=
  putLoopF_bits v left left w (Nat.le_refl _) hI hb

@[simp] theorem alloc_bits (w : W) (len : Nat) : (w.alloc len).bits = w.bits := by
  unfold W.alloc W.bits; split <;> rfl

theorem alloc_inv (w : W) (len : Nat) (h : WInv w) : WInv (w.alloc len) := by
  unfold W.alloc; split
  · exact ⟨h.bitno_lt, h.low, h.zero⟩
  · exact h

/-- **T-Bits, writer.** `bufr_putbits` appends exactly the `n` low bits of `v`, MSB first. -/
theorem putbits_bits (w : W) (v n : Nat) (hI : WInv w) :
    (w.putbits v n).bits = w.bits ++ bitsMSB n v ∧ WInv (w.putbits v n) := by
  unfold W.putbits
  split
  · next h0 => subst h0; simp [bitsMSB, hI]
  · next h0 =>
    have hlt := hI.bitno_lt
    have ht : w.bitno + min n (8 - w.bitno) ≤ 8 := by omega
    obtain ⟨c1, c2⟩ := chunk_bits w (v >>> (n - min n (8 - w.bitno))) (min n (8 - w.bitno)) hI ht
    have hb' : (n - min n (8 - w.bitno) = 0 ∨
        (w.chunk (v >>> (n - min n (8 - w.bitno))) (min n (8 - w.bitno))).bitno = 0) := by
      by_cases h8 : n ≤ 8 - w.bitno
      · left; omega
      · right
        have : min n (8 - w.bitno) = 8 - w.bitno := by omega
        unfold W.chunk
        simp only [this]
        have : w.bitno + (8 - w.bitno) = 8 := by omega
        simp [this]
    obtain ⟨r1, r2⟩ := putLoop_bits v _ _ c2 hb'
    have key : (W.putLoop (w.chunk (v >>> (n - min n (8 - w.bitno))) (min n (8 - w.bitno))) v
        (n - min n (8 - w.bitno))).bits = w.bits ++ bitsMSB n v := by
      rw [r1, c1, List.append_assoc]
      congr 1
      have := bitsMSB_split (min n (8 - w.bitno)) (n - min n (8 - w.bitno)) v
      rw [← this]
      congr 1; omega
    simp only
    split
    · exact ⟨by rw [alloc_bits]; exact key, alloc_inv _ _ r2⟩
    · exact ⟨key, r2⟩

/-! position bookkeeping of the writer -/

def W.pos (w : W) : Nat := 8 * w.filled + w.bitno

theorem bits_length (w : W) (hI : WInv w) : w.bits.length = w.pos := by
  unfold W.bits W.pos W.filled
  have h8 : ∀ l : List Nat, (l.flatMap (bitsMSB 8)).length = 8 * l.length := by
    intro l; induction l with
    | nil => rfl
    | cons a l ih => simp [List.flatMap_cons, ih]; omega
  rw [List.length_append, h8, List.length_take, bitsMSB_length]
  have := hI.bitno_lt
  simp; omega

theorem putbits_pos (w : W) (v n : Nat) (hI : WInv w) : (w.putbits v n).pos = w.pos + n := by
  have h := putbits_bits w v n hI
  rw [← bits_length _ h.2, h.1, List.length_append, bits_length _ hI, bitsMSB_length]

@[simp] theorem alloc_filled (w : W) (len : Nat) : (w.alloc len).filled = w.filled := by
  unfold W.alloc W.filled; split <;> rfl

theorem alloc_max_ge (w : W) (len : Nat) : w.maxDataLen ≤ (w.alloc len).maxDataLen := by
  unfold W.alloc; split <;> simp; omega

/-- capacity invariant: everything written so far lies inside the allocation -/
def CapInv (w : W) : Prop := w.filled ≤ w.maxDataLen

@[simp] theorem chunk_max (w : W) (x t : Nat) : (w.chunk x t).maxDataLen = w.maxDataLen := by
  unfold W.chunk; simp only; split <;> rfl

theorem putLoopF_max (v : Nat) : ∀ (fuel left : Nat) (w : W),
    (W.putLoopF fuel w v left).maxDataLen = w.maxDataLen := by
  intro fuel
  induction fuel with
  | zero => intro left w; rfl
  | succ f ih =>
    intro left w
    unfold W.putLoopF
    split
    · rfl
    · rw [ih]; simp

theorem putLoop_max (v : Nat) (left : Nat) (w : W) : (w.putLoop v left).maxDataLen = w.maxDataLen :=
  putLoopF_max v left left w

/-- **C11, growth.** With at most 64 bits per call the write stays inside the `+10` slack,
and the buffer is grown so that the invariant holds again afterwards. -/
theorem putbits_cap (w : W) (v n : Nat) (hI : WInv w) (hc : CapInv w) (hn : n ≤ 64) :
    w.maxTouched n < w.maxDataLen + 10 ∧ CapInv (w.putbits v n) := by
  have hb := hI.bitno_lt
  constructor
  · unfold W.maxTouched; unfold CapInv at hc; omega
  · have hp := putbits_pos w v n hI
    have hI' := (putbits_bits w v n hI).2
    have hb' := hI'.bitno_lt
    unfold W.pos at hp
    have hf : (w.putbits v n).filled ≤ w.filled + 8 := by omega
    unfold CapInv at *
    generalize hw2 : (w.chunk (v >>> (n - min n (8 - w.bitno))) (min n (8 - w.bitno))).putLoop v
      (n - min n (8 - w.bitno)) = w2 at *
    have hm : w2.maxDataLen = w.maxDataLen := by rw [← hw2, putLoop_max, chunk_max]
    have hpb : w.putbits v n = if n = 0 then w else
        if w2.filled > w2.maxDataLen then w2.alloc (w2.maxDataLen + 4096) else w2 := by
      unfold W.putbits; simp only [hw2]
    rw [hpb] at hf ⊢
    split
    · exact hc
    · split
      · next hg =>
        rw [if_neg ‹_›, if_pos hg, alloc_filled] at hf
        rw [alloc_filled]
        unfold W.alloc
        split
        · simp only; omega
        · omega
      · next hg => omega

/-! ### Reader -/

theorem flatMap8_length (l : List Nat) : (l.flatMap (bitsMSB 8)).length = 8 * l.length := by
  induction l with
  | nil => rfl
  | cons a l ih => simp [List.flatMap_cons, ih]; omega

theorem allBits_length (r : R) : r.allBits.length = 8 * r.maxDataLen := by
  unfold R.allBits; rw [flatMap8_length]; simp

theorem flatMap8_getElem (l : List Nat) (k : Nat) (hk : k < (l.flatMap (bitsMSB 8)).length) :
    (l.flatMap (bitsMSB 8))[k] = (l.getD (k / 8) 0).testBit (7 - k % 8) := by
  induction l generalizing k with
  | nil => simp at hk
  | cons a l ih =>
    simp only [List.flatMap_cons]
    by_cases h8 : k < 8
    · rw [List.getElem_append_left (by simpa using h8)]
      rw [bitsMSB_getElem _ _ _ h8]
      have : k / 8 = 0 := by omega
      have h2 : k % 8 = k := by omega
      simp [this, h2]
    · rw [List.getElem_append_right (by simp; omega)]
      simp only [bitsMSB_length]
      have hk' : k - 8 < (l.flatMap (bitsMSB 8)).length := by
        rw [List.flatMap_cons, List.length_append, bitsMSB_length] at hk; omega
      rw [ih _ hk']
      have : k / 8 = (k - 8) / 8 + 1 := by omega
      have h2 : (k - 8) % 8 = k % 8 := by omega
      rw [this, h2]; simp

theorem allBits_getElem (r : R) (k : Nat) (hk : k < r.allBits.length) :
    r.allBits[k] = (r.byte (k / 8)).testBit (7 - k % 8) := by
  unfold R.allBits at hk ⊢
  rw [flatMap8_getElem]
  have hlt : k / 8 < r.maxDataLen := by
    rw [flatMap8_length] at hk; simp at hk; omega
  simp [List.getD_eq_getElem?_getD, hlt]

/-- the bit list `allBits[p, p+t)` as a number is the byte slice the C extracts -/
theorem slice_in_byte (r : R) (c p t : Nat) (hc : c < r.maxDataLen) (hpt : p + t ≤ 8) :
    ofBitsMSB ((r.allBits.drop (8 * c + p)).take t) = (r.byte c >>> (8 - (t + p))) &&& (2^t - 1) := by
  have hlen := allBits_length r
  have : (r.allBits.drop (8 * c + p)).take t = bitsMSB t (r.byte c >>> (8 - (t + p))) := by
    apply List.ext_getElem
    · simp [hlen]; omega
    · intro i h1 h2
      have hi : i < t := by simp at h2; exact h2
      rw [List.getElem_take, List.getElem_drop, allBits_getElem, bitsMSB_getElem _ _ _ hi,
        Nat.testBit_shiftRight]
      have e1 : (8 * c + p + i) / 8 = c := by omega
      have e2 : (8 * c + p + i) % 8 = p + i := by omega
      rw [e1, e2]; congr 1; omega
  rw [this, ofBitsMSB_bitsMSB, Nat.and_two_pow_sub_one_eq_mod]

theorem take_add_drop {α} (l : List α) (a b : Nat) :
    l.take (a + b) = l.take a ++ (l.drop a).take b := by
  rw [List.take_add]

/-- value accumulated by the loop: shifting in `t` more bits -/
theorem shift_or_eq (bits x t : Nat) (hx : x < 2^t) : (bits <<< t) ||| x = bits * 2^t + x := by
  rw [← Nat.shiftLeft_add_eq_or_of_lt hx, Nat.shiftLeft_eq]

end Bufr

namespace Bufr

/-- the bits `[8c, 8c+left)` split at a byte boundary -/
theorem take_drop_succ_byte (l : List Bool) (c left : Nat) (h8 : 8 ≤ left) :
    (l.drop (8 * c)).take left = (l.drop (8 * c)).take 8 ++ (l.drop (8 * (c + 1))).take (left - 8) := by
  have : left = 8 + (left - 8) := by omega
  conv => lhs; rw [this, List.take_add]
  rw [List.drop_drop]
  congr 3 <;> omega

theorem getLoopF_ok (r : R) : ∀ (fuel left bits cur : Nat), left ≤ fuel →
    8 * cur + left ≤ 8 * r.maxDataLen →
    ∃ c' b', r.getLoopF fuel bits cur left =
        (bits * 2^left + ofBitsMSB ((r.allBits.drop (8 * cur)).take left), 0, c', b') ∧
      8 * c' + b' = 8 * cur + left ∧ b' < 8 := by
  intro fuel
  induction fuel with
  | zero =>
    intro left bits cur hf hle
    have : left = 0 := by omega
    subst this
    exact ⟨cur, 0, by simp [R.getLoopF], by omega, by omega⟩
  | succ f ih =>
    intro left bits cur hf hle
    unfold R.getLoopF
    split
    · next h0 => subst h0; exact ⟨cur, 0, by simp, by omega, by omega⟩
    · next h0 =>
      have hc : cur < r.maxDataLen := by omega
      by_cases h8 : left < 8
      · have ht : min left 8 = left := by omega
        have hne : ¬ (left = 8) := by omega
        simp only [ht, if_neg hne]
        refine ⟨cur, left, ?_, by omega, h8⟩
        have hs := slice_in_byte r cur 0 left hc (by omega)
        simp only [Nat.add_zero] at hs
        rw [hs]
        have hlt : (r.byte cur >>> (8 - left)) &&& (2^left - 1) < 2^left := by
          rw [Nat.and_two_pow_sub_one_eq_mod]; exact Nat.mod_lt _ (Nat.two_pow_pos _)
        rw [shift_or_eq _ _ _ hlt]
      · have ht : min left 8 = 8 := by omega
        simp only [ht, if_true]
        have hg : ¬ (cur + 1 ≥ r.maxDataLen ∧ left - 8 > 0) := by omega
        rw [if_neg hg]
        have hs := slice_in_byte r cur 0 8 hc (by omega)
        simp only [Nat.add_zero] at hs
        have hlt : (r.byte cur >>> (8 - 8)) &&& (2^8 - 1) < 2^8 := by
          rw [Nat.and_two_pow_sub_one_eq_mod]; exact Nat.mod_lt _ (Nat.two_pow_pos _)
        obtain ⟨c', b', e, hp, hb⟩ := ih (left - 8)
          ((bits <<< 8) ||| ((r.byte cur >>> (8 - 8)) &&& (2^8 - 1))) (cur + 1) (by omega) (by omega)
        refine ⟨c', b', ?_, by omega, hb⟩
        rw [e, shift_or_eq _ _ _ hlt, ← hs, take_drop_succ_byte _ _ _ (by omega : 8 ≤ left),
          ofBitsMSB_append]
        have hl : ((r.allBits.drop (8 * (cur + 1))).take (left - 8)).length = left - 8 := by
          rw [List.length_take, List.length_drop, allBits_length]; omega
        rw [hl]
        have hpow : (2:Nat)^left = 2^8 * 2^(left - 8) := by
          rw [← Nat.pow_add]; congr 1; omega
        rw [hpow]; ring_nf

theorem getLoop_ok (r : R) (n : Nat) (left bits cur : Nat) (hle : 8 * cur + left ≤ 8 * r.maxDataLen) :
    ∃ c' b', r.getLoop n bits cur left =
        (bits * 2^left + ofBitsMSB ((r.allBits.drop (8 * cur)).take left), 0, c', b') ∧
      8 * c' + b' = 8 * cur + left ∧ b' < 8 :=
  getLoopF_ok r left left bits cur (Nat.le_refl _) hle

structure RInv (r : R) : Prop where
  bitno_lt : r.bitno < 8

/-- **T-Bits, reader.** A read of `1 ≤ n ≤ 64` bits that fits in the section returns the next
`n` bits as a number, no error, and advances the cursor by exactly `n`. -/
theorem getbits_ok (r : R) (n : Nat) (hI : RInv r) (hn0 : 0 < n) (hn : n ≤ 64)
    (hfit : r.pos + n ≤ 8 * r.maxDataLen) :
    ∃ r', r.getbits n = (ofBitsMSB (r.bits.take n), 0, r') ∧
      r'.pos = r.pos + n ∧ RInv r' ∧ r'.data = r.data ∧ r'.maxDataLen = r.maxDataLen := by
  have hb := hI.bitno_lt
  unfold R.pos at hfit
  have hc : r.cur < r.maxDataLen := by omega
  unfold R.getbits
  rw [if_neg (by omega), if_neg (by omega), if_neg (by omega)]
  simp only
  by_cases hsmall : n < 8 - r.bitno
  · -- stays inside the current byte
    have ht : min n (8 - r.bitno) = n := by omega
    rw [ht, if_neg (by omega)]
    refine ⟨{ r with bitno := r.bitno + n }, ?_, by simp [R.pos]; omega, ⟨by simp; omega⟩, rfl, rfl⟩
    have hs := slice_in_byte r r.cur r.bitno n hc (by omega)
    unfold R.bits R.pos
    rw [hs]
  · have ht : min n (8 - r.bitno) = 8 - r.bitno := by omega
    rw [ht, if_pos (by omega)]
    have hg : ¬ (r.cur + 1 ≥ r.maxDataLen ∧ n - (8 - r.bitno) > 0) := by omega
    rw [if_neg hg]
    obtain ⟨c', b', e, hp, hb'⟩ := getLoop_ok r n (n - (8 - r.bitno))
      ((r.byte r.cur >>> (8 - (8 - r.bitno + r.bitno))) &&& (2^(8 - r.bitno) - 1)) (r.cur + 1) (by omega)
    rw [e]
    simp only
    refine ⟨{ r with cur := c', bitno := b' }, ?_, by simp [R.pos]; omega, ⟨hb'⟩, rfl, rfl⟩
    have hs := slice_in_byte r r.cur r.bitno (8 - r.bitno) hc (by omega)
    rw [← hs]
    unfold R.bits R.pos
    have hsplit : (r.allBits.drop (8 * r.cur + r.bitno)).take n =
        (r.allBits.drop (8 * r.cur + r.bitno)).take (8 - r.bitno) ++
        (r.allBits.drop (8 * (r.cur + 1))).take (n - (8 - r.bitno)) := by
      have : n = (8 - r.bitno) + (n - (8 - r.bitno)) := by omega
      conv => lhs; rw [this, List.take_add]
      rw [List.drop_drop]
      congr 3; omega
    rw [hsplit, ofBitsMSB_append]
    have hl : ((r.allBits.drop (8 * (r.cur + 1))).take (n - (8 - r.bitno))).length = n - (8 - r.bitno) := by
      rw [List.length_take, List.length_drop, allBits_length]; omega
    rw [hl]

theorem getbits_ok_bits (r : R) (n : Nat) (hI : RInv r) (hn0 : 0 < n) (hn : n ≤ 64)
    (hfit : r.pos + n ≤ 8 * r.maxDataLen) :
    (r.getbits n).2.2.bits = r.bits.drop n := by
  obtain ⟨r', e, hp, _, hd, hm⟩ := getbits_ok r n hI hn0 hn hfit
  rw [e]
  simp only
  unfold R.bits
  rw [List.drop_drop, hp]
  have : r'.allBits = r.allBits := by unfold R.allBits R.byte; rw [hd, hm]
  rw [this]

theorem bits_length_r (r : R) : r.bits.length = 8 * r.maxDataLen - r.pos := by
  unfold R.bits; rw [List.length_drop, allBits_length]

/-- loop part of an over-long read -/
theorem getLoopF_err (r : R) : ∀ (fuel left bits cur : Nat), left ≤ fuel → cur < r.maxDataLen →
    8 * cur + left > 8 * r.maxDataLen → (r.getLoopF fuel bits cur left).2.1 = -1 := by
  intro fuel
  induction fuel with
  | zero => intro left bits cur hf hc hgt; omega
  | succ f ih =>
    intro left bits cur hf hc hgt
    unfold R.getLoopF
    rw [if_neg (by omega)]
    have ht : min left 8 = 8 := by omega
    simp only [ht, if_true]
    by_cases hg : cur + 1 ≥ r.maxDataLen ∧ left - 8 > 0
    · rw [if_pos hg]
    · rw [if_neg hg]
      exact ih (left - 8) _ _ (by omega) (by omega) (by omega)

theorem getLoop_err (r : R) (n : Nat) (left bits cur : Nat) (hc : cur < r.maxDataLen)
    (hgt : 8 * cur + left > 8 * r.maxDataLen) : (r.getLoop n bits cur left).2.1 = -1 :=
  getLoopF_err r left left bits cur (Nat.le_refl _) hc hgt

/-- **C11, reads past the end report an error.** -/
theorem getbits_past_end (r : R) (n : Nat) (hI : RInv r) (hn0 : 0 < n) (hn : n ≤ 64)
    (hover : r.pos + n > 8 * r.maxDataLen) : (r.getbits n).2.1 < 0 := by
  have hb := hI.bitno_lt
  unfold R.pos at hover
  unfold R.getbits
  rw [if_neg (by omega)]
  rw [if_neg (by omega)]
  by_cases hc : r.cur ≥ r.maxDataLen
  · rw [if_pos hc]; simp
  rw [if_neg hc]
  simp only
  have ht : min n (8 - r.bitno) = 8 - r.bitno := by omega
  rw [ht, if_pos (by omega)]
  by_cases hg : r.cur + 1 ≥ r.maxDataLen ∧ n - (8 - r.bitno) > 0
  · rw [if_pos hg]; simp
  · rw [if_neg hg]
    have := getLoop_err r n (n - (8 - r.bitno))
      ((r.byte r.cur >>> (8 - (8 - r.bitno + r.bitno))) &&& (2^(8 - r.bitno) - 1)) (r.cur + 1)
      (by omega) (by omega)
    generalize r.getLoop n _ (r.cur + 1) (n - (8 - r.bitno)) = res at this ⊢
    obtain ⟨b, e, c, bn⟩ := res
    simp only at this ⊢
    rw [this]; decide

theorem skipLoopF_ok (r : R) : ∀ (fuel left cur : Nat), left ≤ fuel → 8 * cur + left ≤ 8 * r.maxDataLen →
    ∃ c' b', r.skipLoopF fuel cur left = (0, c', b') ∧ 8 * c' + b' = 8 * cur + left ∧ b' < 8 := by
  intro fuel
  induction fuel with
  | zero =>
    intro left cur hf hle
    have : left = 0 := by omega
    subst this
    exact ⟨cur, 0, by simp [R.skipLoopF], by omega, by omega⟩
  | succ f ih =>
    intro left cur hf hle
    unfold R.skipLoopF
    split
    · next h0 => subst h0; exact ⟨cur, 0, rfl, by omega, by omega⟩
    · next h0 =>
      by_cases h8 : left < 8
      · have ht : min left 8 = left := by omega
        have hne : ¬ (left = 8) := by omega
        simp only [ht, if_neg hne]
        exact ⟨cur, left, rfl, by omega, h8⟩
      · have ht : min left 8 = 8 := by omega
        simp only [ht, if_true]
        have hg : ¬ (cur + 1 ≥ r.maxDataLen ∧ left - 8 > 0) := by omega
        rw [if_neg hg]
        obtain ⟨c', b', e, hp, hb⟩ := ih (left - 8) (cur + 1) (by omega) (by omega)
        exact ⟨c', b', e, by omega, hb⟩

theorem skipLoop_ok (r : R) (left cur : Nat) (hle : 8 * cur + left ≤ 8 * r.maxDataLen) :
    ∃ c' b', r.skipLoop cur left = (0, c', b') ∧ 8 * c' + b' = 8 * cur + left ∧ b' < 8 :=
  skipLoopF_ok r left left cur (Nat.le_refl _) hle

/-- **C11, skip.** Skipping `n ≥ 0` bits that fit moves the cursor by exactly `n`
(any `n`, not only `≤ 64`), reports no error, and touches no data. -/
theorem skipBits_ok (r : R) (n : Nat) (hI : RInv r) (hfit : r.pos + n ≤ 8 * r.maxDataLen) :
    ∃ r', r.skipBits n = (0, r') ∧ r'.pos = r.pos + n ∧ RInv r' ∧
      r'.data = r.data ∧ r'.maxDataLen = r.maxDataLen := by
  have hb := hI.bitno_lt
  unfold R.pos at hfit
  unfold R.skipBits
  by_cases hn0 : n = 0
  · subst hn0; exact ⟨r, by simp, by simp, hI, rfl, rfl⟩
  rw [if_neg hn0]
  have hcur : ¬ r.cur ≥ r.maxDataLen := by omega
  rw [if_neg hcur]
  simp only
  by_cases hsmall : n < 8 - r.bitno
  · have ht : min n (8 - r.bitno) = n := by omega
    rw [ht, if_neg (by omega)]
    exact ⟨{ r with bitno := r.bitno + n }, rfl, by simp [R.pos]; omega, ⟨by simp; omega⟩, rfl, rfl⟩
  · have ht : min n (8 - r.bitno) = 8 - r.bitno := by omega
    rw [ht, if_pos (by omega)]
    have hg : ¬ (r.cur + 1 ≥ r.maxDataLen ∧ n - (8 - r.bitno) > 0) := by omega
    rw [if_neg hg]
    obtain ⟨c', b', e, hp, hb'⟩ := skipLoop_ok r (n - (8 - r.bitno)) (r.cur + 1) (by omega)
    rw [e]
    exact ⟨{ r with cur := c', bitno := b' }, rfl, by simp [R.pos]; omega, ⟨hb'⟩, rfl, rfl⟩

theorem skipLoopF_past (r : R) : ∀ (f left cur : Nat), left ≤ f → cur < r.maxDataLen →
    8 * cur + left > 8 * r.maxDataLen → (r.skipLoopF f cur left).1 = -1 := by
  intro f
  induction f with
  | zero => intro left cur hf hc hp; omega
  | succ f ih =>
    intro left cur hf hc hp
    unfold R.skipLoopF
    have hl0 : ¬ left = 0 := by omega
    rw [if_neg hl0]
    simp only
    by_cases h8 : left < 8
    · omega
    · have ht : min left 8 = 8 := by omega
      rw [ht]
      simp only [if_true]
      by_cases hg : cur + 1 ≥ r.maxDataLen ∧ left - 8 > 0
      · rw [if_pos hg]
      · rw [if_neg hg]
        exact ih (left - 8) (cur + 1) (by omega) (by omega) (by omega)

/-- **C11, skips past the end report an error.** -/
theorem skipBits_past_end (r : R) (n : Nat) (hI : RInv r) (hn0 : 0 < n)
    (hpast : r.pos + n > 8 * r.maxDataLen) : (r.skipBits n).1 = -1 := by
  have hb := hI.bitno_lt
  unfold R.pos at hpast
  unfold R.skipBits
  rw [if_neg (by omega)]
  by_cases hcur : r.cur ≥ r.maxDataLen
  · rw [if_pos hcur]
  · rw [if_neg hcur]
    simp only
    by_cases hsmall : n < 8 - r.bitno
    · omega
    · have ht : min n (8 - r.bitno) = 8 - r.bitno := by omega
      rw [ht, if_pos (by omega)]
      by_cases hg : r.cur + 1 ≥ r.maxDataLen ∧ n - (8 - r.bitno) > 0
      · rw [if_pos hg]
      · rw [if_neg hg]
        have := skipLoopF_past r (n - (8 - r.bitno)) (n - (8 - r.bitno)) (r.cur + 1) (Nat.le_refl _) (by omega) (by omega)
        unfold R.skipLoop
        revert this
        generalize r.skipLoopF (n - (8 - r.bitno)) (r.cur + 1) (n - (8 - r.bitno)) = q
        intro h
        obtain ⟨e, c, bn⟩ := q
        simpa using h

theorem R.ext_pos (a b : R) (ha : RInv a) (hb : RInv b) (hd : a.data = b.data)
    (hm : a.maxDataLen = b.maxDataLen) (hp : a.pos = b.pos) : a = b := by
  have h1 := ha.bitno_lt
  have h2 := hb.bitno_lt
  unfold R.pos at hp
  cases a; cases b
  simp only at *
  subst hd hm
  have : (‹Nat› : Nat) = _ := rfl
  simp only [R.mk.injEq, true_and, and_true]
  omega

end Bufr

namespace Bufr

/-! ### Field sequences: writer to reader -/

/-- write a list of `(value, width)` fields -/
def W.putFields (w : W) (fs : List (Nat × Nat)) : W := fs.foldl (fun w f => w.putbits f.1 f.2) w

/-- read a list of widths; stops at the first error -/
def R.getFields (r : R) : List Nat → Option (List Nat × R)
  | [] => some ([], r)
  | n :: ns =>
    let (v, e, r') := r.getbits n
    if e < 0 then none
    else match R.getFields r' ns with
      | some (vs, r'') => some (v :: vs, r'')
      | none => none

def fieldBits (fs : List (Nat × Nat)) : List Bool := fs.flatMap (fun f => bitsMSB f.2 f.1)

theorem putFields_bits (fs : List (Nat × Nat)) : ∀ (w : W), WInv w →
    (w.putFields fs).bits = w.bits ++ fieldBits fs ∧ WInv (w.putFields fs) := by
  induction fs with
  | nil => intro w h; simp [W.putFields, fieldBits, h]
  | cons f fs ih =>
    intro w h
    obtain ⟨p1, p2⟩ := putbits_bits w f.1 f.2 h
    obtain ⟨q1, q2⟩ := ih _ p2
    simp only [W.putFields, List.foldl_cons] at q1 q2 ⊢
    refine ⟨?_, q2⟩
    rw [q1, p1, List.append_assoc]
    simp [fieldBits, List.flatMap_cons]

theorem putFields_cap (fs : List (Nat × Nat)) (hfs : ∀ f ∈ fs, f.2 ≤ 64) : ∀ (w : W), WInv w → CapInv w →
    CapInv (w.putFields fs) := by
  induction fs with
  | nil => intro w _ h; simpa [W.putFields] using h
  | cons f fs ih =>
    intro w h hc
    have h1 := putbits_cap w f.1 f.2 h hc (hfs f (by simp))
    have h2 := (putbits_bits w f.1 f.2 h).2
    simp only [W.putFields, List.foldl_cons]
    exact ih (fun g hg => hfs g (by simp [hg])) _ h2 h1.2

/-- reading a field list back from any reader whose pending bits start with those fields -/
theorem getFields_ok (fs : List (Nat × Nat)) (hfs : ∀ f ∈ fs, 1 ≤ f.2 ∧ f.2 ≤ 64) :
    ∀ (r : R) (rest : List Bool), RInv r → r.bits = fieldBits fs ++ rest →
    ∃ r', r.getFields (fs.map (·.2)) = some (fs.map (fun f => f.1 % 2^f.2), r') ∧
      r'.bits = rest ∧ RInv r' ∧ r'.pos = r.pos + (fieldBits fs).length := by
  induction fs with
  | nil => intro r rest h hb; exact ⟨r, by simp [R.getFields], by simpa [fieldBits] using hb, h, by simp [fieldBits]⟩
  | cons f fs ih =>
    intro r rest hI hb
    have hf := hfs f (by simp)
    have hlen : r.bits.length ≥ f.2 := by
      rw [hb]; simp [fieldBits, List.flatMap_cons]
    have hfit : r.pos + f.2 ≤ 8 * r.maxDataLen := by
      rw [bits_length_r] at hlen; omega
    obtain ⟨r1, e, hp, hI1, hd, hm⟩ := getbits_ok r f.2 hI hf.1 hf.2 hfit
    have hb1 := getbits_ok_bits r f.2 hI hf.1 hf.2 hfit
    rw [e] at hb1
    simp only at hb1
    have htake : r.bits.take f.2 = bitsMSB f.2 f.1 := by
      rw [hb]; simp [fieldBits, List.flatMap_cons, List.take_append_of_le_length]
    have hdrop : r.bits.drop f.2 = fieldBits fs ++ rest := by
      rw [hb]; simp [fieldBits, List.flatMap_cons, List.drop_append_of_le_length]
    rw [hdrop] at hb1
    obtain ⟨r2, e2, hb2, hI2, hp2⟩ := ih (fun g hg => hfs g (by simp [hg])) r1 rest hI1 hb1
    refine ⟨r2, ?_, hb2, hI2, ?_⟩
    · simp only [List.map_cons, R.getFields, e, htake, ofBitsMSB_bitsMSB]
      rw [e2]; simp
    · rw [hp2, hp]; simp [fieldBits, List.flatMap_cons]; omega

/-- the reader over the bytes the writer produced sees the written bits first -/
theorem ofBytes_allBits (w : W) (hI : WInv w) :
    ∃ pad, (R.ofBytes w.bytes).allBits = w.bits ++ pad := by
  unfold R.ofBytes R.allBits R.byte W.bytes W.bits
  simp only
  have hmap : ∀ l : List Nat, (List.range l.length).map (fun i => l.toArray.getD i 0) = l := by
    intro l
    apply List.ext_getElem
    · simp
    · intro i h1 h2
      simp at h1
      simp [h1]
  rw [hmap]
  split
  · next h0 => exact ⟨[], by simp [h0]⟩
  · next h0 =>
    refine ⟨(bitsMSB 8 w.curb).drop w.bitno, ?_⟩
    rw [List.flatMap_append, List.append_assoc]
    congr 1
    simp [List.flatMap_cons]

end Bufr
