import BufrProofs.Find
import BufrProofs.FindQuals
import BufrProofs.FindLeaf
/-
  BufrProofs.FindKeys — from the leaves to the keys: the test the loop of bufr_subset_find_values makes at a
  position (`posMatch`: descriptor number, every qualifier key, value test) is the property's
  `posMatches`, under decidable side conditions on the values involved (`leafOk`).
-/
namespace Bufr.Find
open Bufr Bufr.SF Bufr.Spec.Find

/-! ### decidable side conditions -/

def noBandB (s : Int) (a b : ℚ) : Bool :=
  decide (absQ (a - b) ≤ halfPrecision s * (1 - 1 / 2^40)) || decide (halfPrecision s * (1 + 1 / 2^40) ≤ absQ (a - b))

/-- numbers: see `CmpNumOk` -/
def cmpNumOkB (s : Int) (x v : Val) : Bool :=
  decide (-40 ≤ s) && decide (s ≤ 40) && numAdm x && numAdm v &&
  (match x with | .f32 _ => false | _ => true) && (match v with | .i64 _ => false | _ => true) &&
  (if isIntVal x && isIntVal v then decide (0 ≤ s)
   else match num x, num v with
     | some a, some b => noBandB s a b
     | _, _ => true)

/-- a descriptor's value `x` (scale `s`) against a key value `v`: both text without NUL bytes, or both numbers:
scale within -40 … 40, integers as the C holds them, reals finite and below 2^200 (or missing), the element not a
32-bit IEEE value, the key value not INT64, integer elements compared with integer keys have scale ≥ 0, and a
real comparison is not within one part in 2^40 of the tolerance -/
def cmpOkB (s : Int) (x v : Val) : Bool :=
  match x, v with
  | .str a, .str b => noNul a && noNul b
  | .str _, _ => false
  | _, .str _ => false
  | _, _ => cmpNumOkB s x v

/-- a range key `[lo, hi]` against the value `x`: numbers, the bounds not missing and not INT64, `x` not a
32-bit IEEE value -/
def rngOkB (lo x hi : Val) : Bool :=
  numAdm lo && numAdm hi && numAdm x && (num lo).isSome && (num hi).isSome &&
  (match lo with | .i64 _ => false | _ => true) && (match hi with | .i64 _ => false | _ => true) &&
  (match x with | .f32 _ => false | _ => true)

/-- the key names an element descriptor: no flag bit, or the qualifier bit alone -/
def keyShapeOk (k : Key) : Bool :=
  decide (k.desc < 0x20000) || (decide (0x40000 ≤ k.desc) && decide (k.desc < 0x60000))

/-- the side conditions for one key against every descriptor of the subset it can be compared with -/
def keyOkFor (ns : List Node) (k : Key) : Bool :=
  keyShapeOk k &&
  ns.all fun n => !(n.desc == keyDesc k) || !n.val.isSome ||
    (match isQualKey k, k.vals with
     | false, [lo, hi] => rngOkB lo n.val hi
     | _, vs => vs.all (cmpOkB n.enc.scale n.val))

def leafOk (ns : List Node) (keys : List Key) : Bool := keys.all (keyOkFor ns)

/-! ### from the Bool conditions to the lemmas of FindLeaf -/

theorem noBandB_iff (s : Int) (a b : ℚ) (h : noBandB s a b = true) : NoBand s a b := by
  unfold noBandB at h
  simp only [Bool.or_eq_true, decide_eq_true_eq, absQ_eq] at h
  exact h

theorem cmpNumOk_of (s : Int) (x v : Val) (h : cmpNumOkB s x v = true) : CmpNumOk s x v := by
  unfold cmpNumOkB at h
  simp only [Bool.and_eq_true, decide_eq_true_eq] at h
  obtain ⟨⟨⟨⟨⟨⟨h1, h2⟩, h3⟩, h4⟩, h5⟩, h6⟩, h7⟩ := h
  refine ⟨h1, h2, h3, h4, ?_, ?_, ?_, ?_⟩
  · cases x <;> simp_all
  · cases v <;> simp_all
  · intro ⟨hx, hv⟩
    simpa [hx, hv] using h7
  · intro hn a b ha hb
    rw [if_neg hn, ha, hb] at h7
    exact noBandB_iff s a b h7

theorem compare_eq (s : Int) (x v : Val) (h : cmpOkB s x v = true) :
    (compareValue x v (epsilonOf s) == 0) = valEq s x v := by
  cases x with
  | str a =>
    cases v with
    | str b =>
      simp only [cmpOkB, Bool.and_eq_true] at h
      have := compareStr_eq a b h.1 h.2
      simp only [compareValue, isIntVal, Bool.false_and, Bool.false_eq_true, if_false, valEq]
      rw [← this]
      cases compareStrEq a b <;> simp
    | _ => simp [cmpOkB] at h
  | none =>
    cases v with
    | str b => simp [cmpOkB] at h
    | _ => exact compare_num s _ _ (cmpNumOk_of s _ _ (by simpa [cmpOkB] using h))
  | i32 a =>
    cases v with
    | str b => simp [cmpOkB] at h
    | _ => exact compare_num s _ _ (cmpNumOk_of s _ _ (by simpa [cmpOkB] using h))
  | i64 a =>
    cases v with
    | str b => simp [cmpOkB] at h
    | _ => exact compare_num s _ _ (cmpNumOk_of s _ _ (by simpa [cmpOkB] using h))
  | f32 a =>
    cases v with
    | str b => simp [cmpOkB] at h
    | _ => exact compare_num s _ _ (cmpNumOk_of s _ _ (by simpa [cmpOkB] using h))
  | f64 a =>
    cases v with
    | str b => simp [cmpOkB] at h
    | _ => exact compare_num s _ _ (cmpNumOk_of s _ _ (by simpa [cmpOkB] using h))

theorem rngOk_of (lo x hi : Val) (h : rngOkB lo x hi = true) : RngOk lo x hi := by
  unfold rngOkB at h
  simp only [Bool.and_eq_true] at h
  obtain ⟨⟨⟨⟨⟨⟨⟨h1, h2⟩, h3⟩, h4⟩, h5⟩, h6⟩, h7⟩, h8⟩ := h
  refine ⟨h1, h2, h3, h4, h5, ?_, ?_, ?_⟩
  · cases lo <;> simp_all
  · cases hi <;> simp_all
  · cases x <;> simp_all

/-! ### flag bits -/

theorem shape_elem (k : Key) (hs : keyShapeOk k = true) (hq : isQualKey k = false) :
    k.desc < 0x20000 := by
  unfold keyShapeOk at hs
  unfold isQualKey QUAL_FLAG_BIT at hq
  simp only [Bool.or_eq_true, Bool.and_eq_true, decide_eq_true_eq, decide_eq_false_iff_not] at hs hq
  omega

theorem shape_qual (k : Key) (hs : keyShapeOk k = true) (hq : isQualKey k = true) :
    0x40000 ≤ k.desc ∧ k.desc < 0x60000 := by
  unfold keyShapeOk at hs
  unfold isQualKey QUAL_FLAG_BIT at hq
  simp only [Bool.or_eq_true, Bool.and_eq_true, decide_eq_true_eq] at hs hq
  omega

theorem isQual_eq (k : Key) : k.isQual = isQualKey k := rfl

theorem notTlc (k : Key) (hs : keyShapeOk k = true) : k.isTlc = false := by
  unfold keyShapeOk at hs
  unfold Key.isTlc hasBit TLC_FLAG_BIT
  simp only [Bool.or_eq_true, Bool.and_eq_true, decide_eq_true_eq] at hs
  simp only [decide_eq_false_iff_not]
  omega

theorem strip_elem (k : Key) (h : k.desc < 0x20000) : stripFlags k.desc = k.desc ∧ k.hasCb = false ∧ keyDesc k = k.desc := by
  refine ⟨?_, ?_, ?_⟩
  · unfold stripFlags; omega
  · unfold Key.hasCb hasBit CB_FLAG_BIT
    simp only [decide_eq_false_iff_not]; omega
  · unfold keyDesc isQualKey QUAL_FLAG_BIT
    have : ¬ (k.desc / 0x40000 % 2 = 1) := by omega
    simp [this]

theorem strip_qual (k : Key) (h1 : 0x40000 ≤ k.desc) (h2 : k.desc < 0x60000) :
    stripFlags k.desc = keyDesc k := by
  unfold stripFlags keyDesc isQualKey QUAL_FLAG_BIT
  have : k.desc / 0x40000 % 2 = 1 := by omega
  simp only [this, decide_true, if_true]
  omega

theorem splitKeys_eq : ∀ (keys : List Key), (∀ k ∈ keys, keyShapeOk k = true) →
    splitKeys keys = ([], qualKeys keys, elemKeys keys) := by
  intro keys
  induction keys with
  | nil => intro _; rfl
  | cons k rest ih =>
    intro h
    have hk := h k (List.mem_cons_self)
    have hr := ih (fun k' hk' => h k' (List.mem_cons_of_mem _ hk'))
    unfold splitKeys
    rw [hr]
    simp only [notTlc k hk, Bool.false_eq_true, if_false, isQual_eq]
    unfold qualKeys elemKeys
    by_cases hq : isQualKey k = true
    · simp [hq]
    · simp [hq]

/-! ### one key at one descriptor -/

theorem keyOkFor_node {ns : List Node} {k : Key} (h : keyOkFor ns k = true) {n : Node} (hn : n ∈ ns)
    (hd : n.desc = keyDesc k) (hv : n.val.isSome = true) :
    (match isQualKey k, k.vals with
     | false, [lo, hi] => rngOkB lo n.val hi
     | _, vs => vs.all (cmpOkB n.enc.scale n.val)) = true := by
  unfold keyOkFor at h
  simp only [Bool.and_eq_true] at h
  have := (List.all_eq_true.mp h.2) n hn
  simp only [hd, beq_self_eq_true, Bool.not_true, Bool.false_or, hv] at this
  exact this

/-- the descriptor test and the value test of the loop for an element key -/
theorem elemKey_eq {ns : List Node} {k : Key} (h : keyOkFor ns k = true) (hq : isQualKey k = false)
    {n : Node} (hn : n ∈ ns) :
    (n.desc == stripFlags k.desc && elemKeyOk n k) = elemKeyMatches n k := by
  have hs : keyShapeOk k = true := by
    unfold keyOkFor at h; simp only [Bool.and_eq_true] at h; exact h.1
  obtain ⟨e1, e2, e3⟩ := strip_elem k (shape_elem k hs hq)
  unfold elemKeyMatches elemKeyOk
  rw [e1, e2, e3]
  simp only [Bool.false_and, Bool.false_eq_true, if_false]
  by_cases hd : n.desc = k.desc
  · simp only [hd, beq_self_eq_true, Bool.true_and]
    cases hv : n.val.isSome with
    | false =>
      cases hvals : k.vals with
      | nil => rfl
      | cons v1 r1 =>
        cases r1 with
        | nil => simp
        | cons v2 r2 =>
          cases r2 with
          | nil => simp
          | cons v3 r3 => simp
    | true =>
      have hok := keyOkFor_node h hn (by rw [e3]; exact hd) hv
      rw [hq] at hok
      cases hvals : k.vals with
      | nil => rfl
      | cons v1 r1 =>
        rw [hvals] at hok
        cases r1 with
        | nil =>
          simp only [List.all_cons, List.all_nil, Bool.and_true] at hok
          simp only [List.any_cons, List.any_nil, Bool.or_false, Bool.true_and]
          exact compare_eq _ _ _ hok
        | cons v2 r2 =>
          cases r2 with
          | nil =>
            simp only [] at hok
            simp only [Bool.true_and]
            exact between_eq _ _ _ (rngOk_of _ _ _ hok)
          | cons v3 r3 =>
            simp only [Bool.true_and]
            have hall := List.all_eq_true.mp hok
            have : ∀ v ∈ v1 :: v2 :: v3 :: r3,
                (compareValue n.val v (epsilonOf n.enc.scale) == 0) = valEq n.enc.scale n.val v :=
              fun v hv' => compare_eq _ _ _ (hall v hv')
            rw [Bool.eq_iff_iff, List.any_eq_true, List.any_eq_true]
            constructor
            · rintro ⟨v, hv', hc⟩; exact ⟨v, hv', by rw [← this v hv']; exact hc⟩
            · rintro ⟨v, hv', hc⟩; exact ⟨v, hv', by rw [this v hv']; exact hc⟩
  · have : (n.desc == k.desc) = false := by simpa using hd
    simp [this]

/-- a qualifier key at a descriptor whose list answers with the qualifier in effect -/
theorem qualKey_eq {ns : List Node} {k : Key} (h : keyOkFor ns k = true) (hq : isQualKey k = true)
    (i : Nat) (ql : List Nat)
    (hfetch : ∀ d, fetchRtmdQualifier ns ql d = (inEffect ns i d).bind (ns[·]?)) :
    qualKeyOk ns ql k = qualKeyHolds ns i k := by
  have hs : keyShapeOk k = true := by
    unfold keyOkFor at h; simp only [Bool.and_eq_true] at h; exact h.1
  obtain ⟨b1, b2⟩ := shape_qual k hs hq
  unfold qualKeyOk qualKeyHolds
  rw [strip_qual k b1 b2, hfetch]
  cases hin : inEffect ns i (keyDesc k) with
  | none => rfl
  | some p =>
    simp only [Option.bind_some]
    cases hp : ns[p]? with
    | none => rfl
    | some q =>
      simp only []
      cases hvals : k.vals with
      | nil => rfl
      | cons v rest =>
        simp only []
        -- the qualifier in effect has the key's descriptor and a value
        have hqd : q.desc = keyDesc k ∧ q.val.isSome = true := by
          unfold inEffect at hin
          cases hni : ns[i]? with
          | none => simp [hni] at hin
          | some n =>
            simp only [hni] at hin
            split_ifs at hin with hc
            unfold effective at hin
            cases hl : lastCarrier ns (keyDesc k) i with
            | none => simp [hl] at hin
            | some k' =>
              simp only [hl] at hin
              cases hk' : ns[k']? with
              | none => simp [hk'] at hin
              | some q' =>
                simp only [hk'] at hin
                split_ifs at hin with hm
                have : k' = p := by simpa using hin
                subst this
                rw [hp] at hk'
                have : q = q' := Option.some.inj hk'
                subst this
                obtain ⟨_, n', hn', hc'⟩ := lastCarrier_some hl
                rw [hp] at hn'
                have : q = n' := Option.some.inj hn'
                subst this
                refine ⟨carries_desc hc', ?_⟩
                unfold carries at hc'
                simp only [Bool.and_eq_true] at hc'
                exact hc'.1.2
        have hok := keyOkFor_node h (List.mem_of_getElem? hp) hqd.1 hqd.2
        rw [hq, hvals] at hok
        simp only [List.all_cons, Bool.and_eq_true] at hok
        exact compare_eq _ _ _ hok.1

end Bufr.Find
