import BufrProofs.Codec
import BufrSpec.RefDecode
/-
  BufrProofs.RefCodec — the reference decoder (`BufrSpec.RefDecode`) applied to what the
  library's encoder writes: element and column level.
-/
namespace Bufr
open Bufr Bufr.Spec

theorem takeBits_view (n v : Nat) (rest : List Bool) :
    takeBits n (bitsMSB n v ++ rest) = some (v % 2^n, rest) := by
  unfold takeBits
  rw [if_neg (by simp)]
  rw [List.take_append_of_le_length (by simp), List.take_of_length_le (by simp),
      List.drop_append_of_le_length (by simp), List.drop_of_length_le (by simp), ofBitsMSB_bitsMSB]
  simp

theorem takeIncs_view (k : Nat) : ∀ (incs : List Nat) (rest : List Bool),
    takeIncs k incs.length (incs.flatMap (bitsMSB k) ++ rest) = some (incs.map (· % 2^k), rest) := by
  intro incs
  induction incs with
  | nil => intro rest; simp [takeIncs]
  | cons v vs ih =>
    intro rest
    simp only [List.length_cons, takeIncs, List.flatMap_cons, List.append_assoc, takeBits_view]
    simp [ih]

theorem takeOctets_view : ∀ (cs : List Nat) (rest : List Bool),
    takeOctets cs.length (cs.flatMap (bitsMSB 8) ++ rest) = some (cs.map (· % 256), rest) := by
  intro cs
  induction cs with
  | nil => intro rest; simp [takeOctets]
  | cons c cs ih =>
    intro rest
    simp only [List.length_cons, takeOctets, List.flatMap_cons, List.append_assoc, takeBits_view]
    simp [ih]

/-- **C03, numeric column.** The reference decoder, reading the column the library wrote for one
element of `n` subsets, returns exactly the raw values the subsets hold (all ones for missing) and
stops right after the column. -/
theorem refDecode_numeric_column (w : W) (hI : WInv w) (n0 : Node) (rest : List Node)
    (h1 : 1 ≤ n0.enc.nbits) (h2 : n0.enc.nbits ≤ 64)
    (hv : ∀ n ∈ n0 :: rest, value2bits n ≤ missingIvalue n0.enc.nbits)
    (hspread : n0.enc.nbits = 64 → ∀ a ∈ n0 :: rest, ∀ b ∈ n0 :: rest,
      value2bits a ≠ missingIvalue n0.enc.nbits → value2bits b ≠ missingIvalue n0.enc.nbits →
      value2bits a - value2bits b < 2^63 - 1)
    (bits tail : List Bool)
    (hb : (putNumericCompressed w (n0 :: rest)).bits ++ tail = w.bits ++ bits) :
    readColumn n0.enc.nbits.toNat (n0 :: rest).length bits = some ((n0 :: rest).map value2bits, tail) := by
  obtain ⟨pb, _⟩ := putNumericCompressed_bits w hI n0 rest
  rw [pb, List.append_assoc] at hb
  have hb' := (List.append_cancel_left hb).symm
  generalize hvals : (n0 :: rest).map value2bits = vals at *
  have hne : vals ≠ [] := by rw [← hvals]; simp
  have hvv : ∀ v ∈ vals, v ≤ missingIvalue n0.enc.nbits := by
    intro v hvm; rw [← hvals] at hvm
    obtain ⟨n, hn1, hn2⟩ := List.mem_map.mp hvm
    rw [← hn2]; exact hv n hn1
  have hsp : n0.enc.nbits = 64 → ∀ a ∈ vals, ∀ b ∈ vals, a ≠ missingIvalue n0.enc.nbits →
      b ≠ missingIvalue n0.enc.nbits → a - b < 2^63 - 1 := by
    intro h64 a ha b hb2 hna hnb2
    rw [← hvals] at ha hb2
    obtain ⟨na, ha1, ha2⟩ := List.mem_map.mp ha
    obtain ⟨nb', hb1, hb3⟩ := List.mem_map.mp hb2
    subst ha2 hb3
    exact hspread h64 na ha1 nb' hb1 hna hnb2
  obtain ⟨s1, s2, s3, s4, s5⟩ := encNumCol_sound n0.enc.nbits h1 h2 vals hne hvv hsp
  have hvlen : vals.length = (n0 :: rest).length := by rw [← hvals]; simp
  generalize encNumCol n0.enc.nbits vals = plan at *
  obtain ⟨r0, k, incs⟩ := plan
  simp only at s1 s2 s3 s4 s5 hb'
  have hm := missingIvalue_le n0.enc.nbits h1 h2
  have hpow : (2:Nat)^n0.enc.nbits.toNat ≥ 2 := by
    have : n0.enc.nbits.toNat ≥ 1 := by omega
    calc (2:Nat)^n0.enc.nbits.toNat ≥ 2^1 := Nat.pow_le_pow_right (by omega) this
      _ = 2 := by norm_num
  have hr0 : r0 % 2^n0.enc.nbits.toNat = r0 := Nat.mod_eq_of_lt (by omega)
  have hk6 : k % 2^6 = k := Nat.mod_eq_of_lt (by omega)
  rw [hb', List.append_assoc, List.append_assoc]
  unfold readColumn
  simp only [takeBits_view, hr0, hk6, Option.bind_eq_bind, Option.bind_some, Option.pure_def, bind, pure]
  by_cases hk : k = 0
  · subst hk
    obtain ⟨hinc, hall⟩ := s4 rfl
    subst hinc
    simp only [if_true]
    congr 2
    rw [← hvlen]
    apply List.ext_getElem
    · simp
    · intro i h1 h2; simp; exact (hall _ (List.getElem_mem _)).symm
  · obtain ⟨hilen, hdec⟩ := s5 (by omega)
    rw [if_neg hk, ← hvlen, ← hilen]
    simp only [takeIncs_view, Option.bind_some, List.map_map]
    have hfun : ∀ x, ((fun i => if i = allOnes k then allOnes n0.enc.nbits.toNat else r0 + i) ∘ (· % 2^k)) x =
        decInc n0.enc.nbits r0 k x := by
      intro x
      have hk1 : 1 ≤ k := by omega
      simp only [Function.comp, decInc, allOnes, hr0, missingIvalue_nat k hk1 s3, hm]
      by_cases h : x % 2^k = 2^k - 1 <;> simp [h, Nat.add_comm]
    rw [List.map_congr_left (fun x _ => hfun x), hdec]
    have hall : (vals.all fun x => decide (x ≤ allOnes n0.enc.nbits.toNat)) = true := by
      rw [List.all_eq_true]; intro v hvm
      have := hvv v hvm
      rw [hm] at this
      simp only [allOnes]; exact decide_eq_true this
    rw [if_pos hall]

/-- the reference decoder's view of an encoder node: the layout FM 94 gives its descriptor -/
structure LayoutOf (l : Layout) (m : Node) : Prop where
  data : dataKind l.kind = true
  width : l.width = m.enc.nbits
  af : l.af = if m.enc.afNbits > 0 ∧ m.afW > 0 then m.afW else 0
  kind : l.kind = .ccitt ↔ m.enc.type = .ccitt
  typ : m.enc.type = .ccitt ∨ m.enc.type = .numeric ∨ m.enc.type = .codetable ∨ m.enc.type = .flagtable ∨
        m.enc.type = .chngRef
  octets : m.enc.type = .ccitt → m.enc.nbits % 8 = 0 ∧ 0 ≤ m.enc.nbits

/-- **C03, one element.** The reference decoder reads from the bits the library wrote for a node
exactly the node's associated field and raw value (or octets), in the width FM 94 gives the element -/
theorem readItem_view (l : Layout) (m : Node) (rest : List Bool) (h : LayoutOf l m) (hns : m.flags.skipped = false) :
    readItem l (nodeBits m ++ rest) =
      some ({ desc := l.desc, kind := l.kind, width := l.width.toNat, afW := l.af, af := m.afBits % 2^l.af,
              raw := if l.kind = .ccitt then 0 else valueBits m % 2^l.width.toNat,
              str := if l.kind = .ccitt then (paddedString m).map (· % 256) else [] }, rest) := by
  obtain ⟨hd, hw, haf, hk, ht, ho⟩ := h
  unfold readItem nodeBits
  simp only [hd, hns, Bool.not_true, Bool.false_eq_true, if_false]
  have hafb : (if m.enc.afNbits > 0 ∧ m.afW > 0 then bitsMSB m.afW m.afBits else []) = bitsMSB l.af m.afBits := by
    rw [haf]; split <;> simp [bitsMSB]
  rw [hafb, List.append_assoc, takeBits_view]
  simp only [Option.bind_eq_bind, Option.bind_some, bind, pure]
  by_cases hc : m.enc.type = .ccitt
  · have hkc : l.kind = .ccitt := hk.mpr hc
    simp only [hc, hkc, if_true]
    have hlen : (paddedString m).length = l.width.toNat / 8 := by
      unfold paddedString
      simp only [List.length_append, List.length_take, List.length_replicate]
      rw [hw]
      have := ho hc
      omega
    rw [← hlen, takeOctets_view]
    simp
  · have hkc : ¬ l.kind = .ccitt := fun h => hc (hk.mp h)
    simp only [hkc, if_false]
    rw [hw]
    rcases ht with h | h | h | h | h
    · exact absurd h hc
    all_goals (simp only [h]; rw [takeBits_view]; simp)

end Bufr
