import BufrModel.Scale
import BufrProofs.SoftFloat
/-
  T-Scale: error analysis of the scaling arithmetic (helper lemmas for C08 and for every codec
  theorem that converts physical values).  Everything here is about the double-precision pair
  `cvtI64ToDval` / `cvtDvalToI64` and the single-precision pair at scale 0.
-/
namespace Bufr.Scale
open Bufr Bufr.SF

/-- unit round-off of binary64 -/
def u53 : ℚ := 1 / 2 ^ 53

theorem u53_pos : 0 < u53 := by unfold u53; positivity
theorem u53_eq : (2:ℚ) ^ (-((53:ℕ):ℤ)) = u53 := by
  unfold u53; rw [zpow_neg, zpow_natCast]; norm_num

theorem fl53_err (q : ℚ) : |fl 53 q - q| ≤ |q| * u53 := by
  have := fl_err 53 q; rwa [u53_eq] at this

theorem fl53_abs_le (q : ℚ) : |fl 53 q| ≤ |q| + |q| * u53 := by
  have := fl_abs_le 53 q; rwa [u53_eq] at this

/-- the domain of the C08 theorems: width 1..32, |reference| ≤ 2^30, scale −16..15
(every numeric entry of the shipped Table B files and the synthetic sweep of the check) -/
structure Enc.Valid (e : Enc) : Prop where
  n1 : 1 ≤ e.nbits
  n32 : e.nbits ≤ 32
  r : |e.ref| ≤ 2 ^ 30
  s1 : -16 ≤ e.scale
  s2 : e.scale ≤ 15

instance (e : Enc) : Decidable e.Valid :=
  decidable_of_iff (1 ≤ e.nbits ∧ e.nbits ≤ 32 ∧ |e.ref| ≤ 2 ^ 30 ∧ -16 ≤ e.scale ∧ e.scale ≤ 15)
    ⟨fun ⟨a, b, c, d, f⟩ => ⟨a, b, c, d, f⟩, fun ⟨a, b, c, d, f⟩ => ⟨a, b, c, d, f⟩⟩

/-- `10^s` as a rational -/
abbrev T10 (s : ℤ) : ℚ := (10:ℚ) ^ s

theorem T10_pos (s : ℤ) : 0 < T10 s := zpow_pos (by norm_num) _

/-! ### the `pow` contract: `pow10 s` is the correctly rounded `10^s` -/

theorem pow10_err (s : ℤ) : |pow10 s - T10 s| ≤ T10 s * u53 := by
  unfold pow10
  rw [pow10r_eq]
  have := fl53_err ((10:ℚ) ^ s)
  rwa [abs_of_pos (T10_pos s)] at this

theorem pow10_pos (s : ℤ) : 0 < pow10 s := by
  have h := pow10_err s
  have hT := T10_pos s
  rw [abs_le] at h
  have : u53 < 1 := by unfold u53; norm_num
  nlinarith [h.1]

/-- `pow(10, s)` is exact for `0 ≤ s ≤ 22` (`10^s = 5^s · 2^s`, `5^22 < 2^53`) -/
theorem pow10_exact (s : ℤ) (h0 : 0 ≤ s) (h1 : s ≤ 22) : pow10 s = T10 s := by
  obtain ⟨n, rfl⟩ := Int.eq_ofNat_of_zero_le h0
  have hn : n ≤ 22 := by omega
  unfold pow10
  rw [pow10r_eq]
  have h5 : |((5:ℤ) ^ n)| < 2 ^ 53 := by
    rw [abs_of_nonneg (by positivity)]
    calc (5:ℤ) ^ n ≤ 5 ^ 22 := pow_le_pow_right₀ (by norm_num) hn
      _ < 2 ^ 53 := by norm_num
  have := fl_exact 53 ((5:ℤ) ^ n) (n:ℤ) h5
  have e : (((5:ℤ) ^ n : ℤ) : ℚ) * (2:ℚ) ^ (n:ℤ) = (10:ℚ) ^ (n:ℤ) := by
    push_cast
    rw [zpow_natCast, zpow_natCast, ← mul_pow]; norm_num
  rw [e] at this
  exact this

/-! ### the effective divisor

For `scale ≥ 0` the C divides by `val_pow = pow(10,scale)`; for `scale < 0` it multiplies by
`inv_pow = pow(10,-scale)` (and the encoder divides by it).  Both are "divide by `dP e`", and on the
domain `dP e` is exactly `10^scale`. -/

def dP (e : Enc) : ℚ := if e.scale < 0 then 1 / pow10 (-e.scale) else pow10 e.scale

theorem dP_eq_T (e : Enc) (hv : e.Valid) : dP e = T10 e.scale := by
  unfold dP
  split_ifs with h
  · rw [pow10_exact _ (by omega) (by have := hv.s1; omega)]
    unfold T10
    rw [zpow_neg, one_div, inv_inv]
  · exact pow10_exact _ (by omega) (by have := hv.s2; omega)

theorem dP_pos (e : Enc) (hv : e.Valid) : 0 < dP e := by rw [dP_eq_T e hv]; exact T10_pos _

theorem dP_err (e : Enc) (hv : e.Valid) : |dP e - T10 e.scale| ≤ T10 e.scale * u53 := by
  rw [dP_eq_T e hv, sub_self, abs_zero]
  exact mul_nonneg (T10_pos _).le u53_pos.le

theorem dP_of_nonneg (e : Enc) (hs : 0 ≤ e.scale) : dP e = pow10 e.scale := by
  unfold dP; rw [if_neg (not_lt.mpr hs)]

theorem mul_inv_pow (e : Enc) (hs : e.scale < 0) (a : ℚ) : a * pow10 (-e.scale) = a / dP e := by
  unfold dP; rw [if_pos hs, div_div_eq_mul_div, div_one]

theorem div_inv_pow (e : Enc) (hs : e.scale < 0) (x : ℚ) : x / pow10 (-e.scale) = x * dP e := by
  unfold dP; rw [if_pos hs, mul_one_div]

theorem dFmin_eq (e : Enc) : dFmin e = fl 53 ((e.ref:ℚ) / dP e) := by
  unfold dFmin
  split_ifs with h
  · rw [mul_inv_pow e h]
  · rw [dP_of_nonneg e (not_lt.mp h)]

theorem dFmax_eq (e : Enc) :
    dFmax e = fl 53 (fl 53 (((2:ℤ) ^ e.nbits - 1 - 1 + e.ref : ℤ) : ℚ) / dP e) := by
  unfold dFmax
  simp only
  split_ifs with h
  · rw [mul_inv_pow e h]
  · rw [dP_of_nonneg e (not_lt.mp h)]

/-! ### two generic error lemmas: one and two roundings followed by the scaling -/

/-- `fl(a·P)` against `a·T` when `P` is `T` up to one rounding -/
theorem fl_mul_near (a P T : ℚ) (hT : 0 < T) (hP : |P - T| ≤ T * u53) :
    |fl 53 (a * P) - a * T| ≤ |a * T| * (3 * u53) := by
  have hu := u53_pos
  have hu1 : u53 ≤ 1 := by unfold u53; norm_num
  have e1 := fl53_err (a * P)
  have hA : |a * T| = |a| * T := by rw [abs_mul, abs_of_pos hT]
  have d1 : |a * P - a * T| ≤ |a * T| * u53 := by
    have : a * P - a * T = a * (P - T) := by ring
    rw [this, abs_mul, hA]
    calc |a| * |P - T| ≤ |a| * (T * u53) := mul_le_mul_of_nonneg_left hP (abs_nonneg _)
      _ = |a| * T * u53 := by ring
  have d2 : |a * P| ≤ |a * T| + |a * T| * u53 := by
    have := abs_sub_abs_le_abs_sub (a * P) (a * T)
    linarith
  have hA0 : 0 ≤ |a * T| := abs_nonneg _
  have d3 : |fl 53 (a * P) - a * P| ≤ (|a * T| + |a * T| * u53) * u53 :=
    le_trans e1 (mul_le_mul_of_nonneg_right d2 hu.le)
  have tri : |fl 53 (a * P) - a * T| ≤ |fl 53 (a * P) - a * P| + |a * P - a * T| := by
    have := abs_add_le (fl 53 (a * P) - a * P) (a * P - a * T)
    simpa using this
  have : |a * T| * u53 * u53 ≤ |a * T| * u53 := by
    have := mul_le_mul_of_nonneg_left hu1 (mul_nonneg hA0 hu.le)
    simpa using this
  nlinarith

/-- `fl(fl(a)·P)` against `a·T` -/
theorem fl_fl_mul_near (a P T : ℚ) (hT : 0 < T) (hP : |P - T| ≤ T * u53) :
    |fl 53 (fl 53 a * P) - a * T| ≤ |a * T| * (5 * u53) := by
  have hu := u53_pos
  have hu1 : u53 ≤ 1 / 8 := by unfold u53; norm_num
  have e1 := fl53_err a
  have hA0 : 0 ≤ |a * T| := abs_nonneg _
  have hA : |a * T| = |a| * T := by rw [abs_mul, abs_of_pos hT]
  have d1 : |fl 53 a * T - a * T| ≤ |a * T| * u53 := by
    have : fl 53 a * T - a * T = (fl 53 a - a) * T := by ring
    rw [this, abs_mul, abs_of_pos hT, hA]
    calc |fl 53 a - a| * T ≤ |a| * u53 * T := mul_le_mul_of_nonneg_right e1 hT.le
      _ = |a| * T * u53 := by ring
  have d2 : |fl 53 a * T| ≤ |a * T| + |a * T| * u53 := by
    have := abs_sub_abs_le_abs_sub (fl 53 a * T) (a * T)
    linarith
  have d3 := fl_mul_near (fl 53 a) P T hT hP
  have d4 : |fl 53 (fl 53 a * P) - fl 53 a * T| ≤ (|a * T| + |a * T| * u53) * (3 * u53) :=
    le_trans d3 (mul_le_mul_of_nonneg_right d2 (by positivity))
  have tri : |fl 53 (fl 53 a * P) - a * T| ≤
      |fl 53 (fl 53 a * P) - fl 53 a * T| + |fl 53 a * T - a * T| := by
    have := abs_add_le (fl 53 (fl 53 a * P) - fl 53 a * T) (fl 53 a * T - a * T)
    simpa using this
  have : |a * T| * u53 * u53 ≤ |a * T| * u53 * (1/8) :=
    mul_le_mul_of_nonneg_left hu1 (mul_nonneg hA0 hu.le)
  nlinarith

/-- `fl(N/P)·T` against `N`: the decoded value sits on its grid point -/
theorem fl_div_near (N P T : ℚ) (hT : 0 < T) (hP0 : 0 < P) (hP : |P - T| ≤ T * u53) :
    |fl 53 (N / P) * T - N| ≤ |N| * (3 * u53) := by
  have hu := u53_pos
  have hu1 : u53 ≤ 1 / 8 := by unfold u53; norm_num
  have e1 := fl53_err (N / P)
  have hN0 : 0 ≤ |N| := abs_nonneg _
  rw [abs_le] at hP
  -- |N/P · T − N| = |N| |T − P| / P ≤ |N| T u / P , and T/P ≤ 1/(1−u)
  have hPT : T * (1 - u53) ≤ P := by linarith [hP.1]
  have hTP : T ≤ P * (1 + 2 * u53) := by nlinarith
  have q1 : |N / P| * T ≤ |N| * (1 + 2 * u53) := by
    rw [abs_div, abs_of_pos hP0, div_mul_eq_mul_div, div_le_iff₀ hP0]
    calc |N| * T ≤ |N| * (P * (1 + 2 * u53)) := mul_le_mul_of_nonneg_left hTP hN0
      _ = |N| * (1 + 2 * u53) * P := by ring
  have d1 : |N / P * T - N| ≤ |N| * (1 + 2 * u53) * u53 := by
    have : N / P * T - N = N / P * (T - P) := by field_simp
    rw [this, abs_mul]
    have h2 : |T - P| ≤ T * u53 := by rw [abs_le]; constructor <;> linarith [hP.1, hP.2]
    calc |N / P| * |T - P| ≤ |N / P| * (T * u53) := mul_le_mul_of_nonneg_left h2 (abs_nonneg _)
      _ = |N / P| * T * u53 := by ring
      _ ≤ |N| * (1 + 2 * u53) * u53 := mul_le_mul_of_nonneg_right q1 hu.le
  have d2 : |fl 53 (N / P) * T - N / P * T| ≤ |N| * (1 + 2 * u53) * u53 := by
    have : fl 53 (N / P) * T - N / P * T = (fl 53 (N / P) - N / P) * T := by ring
    rw [this, abs_mul, abs_of_pos hT]
    calc |fl 53 (N / P) - N / P| * T ≤ |N / P| * u53 * T := mul_le_mul_of_nonneg_right e1 hT.le
      _ = |N / P| * T * u53 := by ring
      _ ≤ |N| * (1 + 2 * u53) * u53 := mul_le_mul_of_nonneg_right q1 hu.le
  have tri : |fl 53 (N / P) * T - N| ≤ |fl 53 (N / P) * T - N / P * T| + |N / P * T - N| := by
    have := abs_add_le (fl 53 (N / P) * T - N / P * T) (N / P * T - N)
    simpa using this
  have h8 : |N| * u53 * u53 ≤ |N| * u53 * (1/8) :=
    mul_le_mul_of_nonneg_left hu1 (mul_nonneg hN0 hu.le)
  nlinarith

/-! ### integer wrap helpers -/

theorem wrapU64_cast (a : ℤ) : ((wrapU64 a : ℕ) : ℤ) = a % 2 ^ 64 := by
  unfold wrapU64
  exact Int.toNat_of_nonneg (Int.emod_nonneg _ (by norm_num))

theorem wrapU64_add_wrap (a b : ℤ) : wrapU64 ((wrapU64 a : ℤ) + b) = wrapU64 (a + b) := by
  unfold wrapU64
  rw [Int.toNat_of_nonneg (Int.emod_nonneg _ (by norm_num)), Int.emod_add_emod]

/-! ### a physical value on the quantisation grid -/

/-- `x` sits within ½ − 2^−18 of grid point `k` (in units of 10^−scale) and `k − ref` is a
non-negative 32-bit quantity (a valid raw value of the width, or one beyond it) -/
structure OnGrid (e : Enc) (x : ℚ) (k : ℤ) : Prop where
  k0 : 0 ≤ k - e.ref
  k1 : k - e.ref < 2 ^ 32
  near : |x * T10 e.scale - k| ≤ 1 / 2 - 1 / 2 ^ 18

theorem two_pow_nbits_le (e : Enc) (hv : e.Valid) : (2:ℤ) ^ e.nbits ≤ 2 ^ 32 :=
  pow_le_pow_right₀ (by norm_num) hv.n32

theorem OnGrid.kbounds {e : Enc} {x : ℚ} {k : ℤ} (hv : e.Valid) (hg : OnGrid e x k) :
    -(2:ℤ) ^ 30 ≤ k ∧ k < 2 ^ 32 + 2 ^ 30 ∧ k - e.ref < 2 ^ 32 := by
  have h2 := abs_le.mp hv.r
  have := hg.k0; have := hg.k1
  refine ⟨by linarith [h2.1], by linarith [h2.2], by linarith⟩

theorem OnGrid.ybound {e : Enc} {x : ℚ} {k : ℤ} (hv : e.Valid) (hg : OnGrid e x k) :
    |x * T10 e.scale| ≤ 2 ^ 32 + 2 ^ 30 + 1 := by
  obtain ⟨a, b, _⟩ := hg.kbounds hv
  have hk : |(k:ℚ)| ≤ 2 ^ 32 + 2 ^ 30 := by
    rw [abs_le]; constructor
    · have : ((-(2:ℤ) ^ 30 : ℤ) : ℚ) ≤ (k:ℚ) := by exact_mod_cast a
      push_cast at this; linarith
    · have : (k:ℚ) < ((2 ^ 32 + 2 ^ 30 : ℤ) : ℚ) := by exact_mod_cast b
      push_cast at this; linarith
  have := abs_sub_abs_le_abs_sub (x * T10 e.scale) (k:ℚ)
  have := hg.near
  linarith

/-- one rounding of `x·P` lands within ½ of the grid point -/
theorem round_scaled_near (e : Enc) (hv : e.Valid) (x : ℚ) (k : ℤ) (hg : OnGrid e x k) (P : ℚ)
    (hP : |P - T10 e.scale| ≤ T10 e.scale * u53) : |fl 53 (x * P) - (k:ℚ)| < 1 / 2 := by
  have hy := hg.ybound hv
  have h1 := fl_mul_near x P (T10 e.scale) (T10_pos _) hP
  have h2 : |x * T10 e.scale| * (3 * u53) ≤ (2 ^ 32 + 2 ^ 30 + 1) * (3 * u53) :=
    mul_le_mul_of_nonneg_right hy (by have := u53_pos; positivity)
  have tri : |fl 53 (x * P) - (k:ℚ)| ≤
      |fl 53 (x * P) - x * T10 e.scale| + |x * T10 e.scale - k| := by
    have := abs_add_le (fl 53 (x * P) - x * T10 e.scale) (x * T10 e.scale - k)
    simpa using this
  have := hg.near
  have : (2 ^ 32 + 2 ^ 30 + 1 : ℚ) * (3 * u53) < 1 / 2 ^ 18 := by unfold u53; norm_num
  linarith

/-- branch `fval ≤ 0` (`scale ≥ 0`):  `round(fval·val_pow) − reference` -/
theorem dBranchC_eq (e : Enc) (hv : e.Valid) (x : ℚ) (k : ℤ) (hg : OnGrid e x k) :
    dBranchC e x = (k - e.ref).toNat := by
  obtain ⟨ka, kb, kc⟩ := hg.kbounds hv
  have hnear := round_scaled_near e hv x k hg (pow10 e.scale) (pow10_err _)
  unfold dBranchC
  simp only
  rw [cround_near _ k hnear, castI64_of_range k (by omega) (by omega),
    wrapU64_of_range _ hg.k0 (by omega)]

/-- the `scale < 0` branch:  `round(fval / inv_pow) − reference` -/
theorem dBranchNeg_eq (e : Enc) (hv : e.Valid) (hs : e.scale < 0) (x : ℚ) (k : ℤ)
    (hg : OnGrid e x k) : dBranchNeg e x = (k - e.ref).toNat := by
  obtain ⟨ka, kb, kc⟩ := hg.kbounds hv
  have hnear := round_scaled_near e hv x k hg (dP e) (dP_err e hv)
  unfold dBranchNeg
  simp only
  rw [div_inv_pow e hs, cround_near _ k hnear, castI64_of_range k (by omega) (by omega),
    wrapU64_of_range _ hg.k0 (by omega)]

/-- for a non-negative scale the power is an exact natural number -/
theorem pow10_nat (n : ℕ) (hn : n ≤ 22) : pow10 (n:ℤ) = (((10:ℤ) ^ n : ℤ) : ℚ) := by
  rw [pow10_exact _ (by omega) (by omega)]
  unfold T10; push_cast; rw [zpow_natCast]

theorem T10_nat (n : ℕ) : T10 (n:ℤ) = (((10:ℤ) ^ n : ℤ) : ℚ) := by
  unfold T10; push_cast; rw [zpow_natCast]

theorem one_le_T10_nat (n : ℕ) : (1:ℚ) ≤ T10 (n:ℤ) := by
  unfold T10; rw [zpow_natCast]; exact one_le_pow₀ (by norm_num)

/-- branch `fval > 0`, `scale ≥ 0`: integer part times the integer power, plus the rounded rest -/
theorem dBranchB_eq (e : Enc) (hv : e.Valid) (hs : 0 ≤ e.scale) (x : ℚ) (k : ℤ)
    (hg : OnGrid e x k) (hx : 0 < x) : dBranchB e x = (k - e.ref).toNat := by
  obtain ⟨ka, kb, kc⟩ := hg.kbounds hv
  have hy := hg.ybound hv
  have hnear := hg.near
  obtain ⟨n, hn⟩ := Int.eq_ofNat_of_zero_le hs
  have hn15 : n ≤ 15 := by have := hv.s2; omega
  rw [hn] at hy hnear
  have hP : pow10 e.scale = (((10:ℤ) ^ n : ℤ) : ℚ) := by rw [hn]; exact pow10_nat n (by omega)
  have hT : T10 (n:ℤ) = (((10:ℤ) ^ n : ℤ) : ℚ) := T10_nat n
  have hT' : T10 (n:ℤ) = (10:ℚ) ^ n := by unfold T10; rw [zpow_natCast]
  have hT1 := one_le_T10_nat n
  have hTpos := T10_pos (n:ℤ)
  set T := T10 (n:ℤ) with hTd
  -- y = x T, 0 < y
  have hy0 : 0 < x * T := mul_pos hx hTpos
  have hyle : x * T ≤ 2 ^ 32 + 2 ^ 30 + 1 := le_trans (le_abs_self _) hy
  have hxle : x ≤ x * T := by nlinarith
  -- integer part
  set tz : ℤ := ⌊x⌋ with htz
  have htz0 : 0 ≤ tz := Int.floor_nonneg.mpr hx.le
  have htzx : (tz:ℚ) ≤ x := Int.floor_le x
  have hxtz : x < (tz:ℚ) + 1 := Int.lt_floor_add_one x
  have htzT : (tz:ℚ) * T ≤ x * T := mul_le_mul_of_nonneg_right htzx hTpos.le
  have htzle : (tz:ℚ) ≤ 2 ^ 32 + 2 ^ 30 + 1 := by linarith
  have htzlt : tz < 2 ^ 33 := by
    have : (tz:ℚ) < ((2 ^ 33 : ℤ) : ℚ) := by push_cast; linarith
    exact_mod_cast this
  have htrunc : castU64 (ctrunc x) = tz.toNat := by
    rw [ctrunc_of_nonneg x hx.le, castU64_of_range tz htz0 (by omega)]
  have htcast : ((tz.toNat : ℕ) : ℤ) = tz := Int.toNat_of_nonneg htz0
  have htq : ((tz.toNat : ℕ) : ℚ) = (tz:ℚ) := by exact_mod_cast htcast
  -- tz * 10^n as an integer, bounded
  have hprod_le : tz * 10 ^ n ≤ 2 ^ 32 + 2 ^ 30 + 1 := by
    have : ((tz * 10 ^ n : ℤ) : ℚ) ≤ ((2 ^ 32 + 2 ^ 30 + 1 : ℤ) : ℚ) := by
      push_cast; rw [← hT'] ; linarith
    exact_mod_cast this
  have hprod0 : 0 ≤ tz * 10 ^ n := by positivity
  -- the integer power, kept in an int64
  have hipow : dIpow e = 10 ^ n := by
    unfold dIpow
    have h10 : (10:ℤ) ^ n ≤ 10 ^ 15 := pow_le_pow_right₀ (by norm_num) hn15
    have h0 : (0:ℤ) ≤ 10 ^ n := by positivity
    have hlt : pow10 e.scale < 9 * 10 ^ 18 := by
      rw [hP]
      have : (((10:ℤ) ^ n : ℤ) : ℚ) ≤ (((10:ℤ) ^ 15 : ℤ) : ℚ) := by exact_mod_cast h10
      push_cast at this ⊢
      linarith [show ((10:ℚ) ^ 15) < 9 * 10 ^ 18 by norm_num]
    rw [if_pos hlt, hP, ctrunc_int]
    exact castI64_of_range _ (by omega) (by omega)
  have hsval : ((wrapU64 (((tz.toNat : ℕ) : ℤ) * dIpow e) : ℕ) : ℤ) = tz * 10 ^ n := by
    rw [htcast, hipow, wrapU64_cast, Int.emod_eq_of_lt hprod0 (by omega)]
  -- the fractional part
  set f : ℚ := x - (tz:ℚ) with hf
  have hf0 : 0 ≤ f := by rw [hf]; linarith
  have hfT0 : 0 ≤ f * T := mul_nonneg hf0 hTpos.le
  have hfT : f * T = x * T - tz * T := by rw [hf]; ring
  have hfTle : |f * T| ≤ 2 ^ 32 + 2 ^ 30 + 1 := by
    rw [abs_of_nonneg hfT0, hfT]
    have : 0 ≤ (tz:ℚ) * T := mul_nonneg (by exact_mod_cast htz0) hTpos.le
    linarith
  have hflt : fl 53 ((tz.toNat : ℕ) : ℚ) = (tz:ℚ) := by
    rw [htq]; exact fl_int 53 tz (by rw [abs_of_nonneg htz0]; omega)
  set z : ℚ := fl 53 (fl 53 f * pow10 e.scale) with hz
  have hPerr : |pow10 e.scale - T| ≤ T * u53 := by rw [hn]; exact pow10_err _
  have hzerr : |z - f * T| ≤ (2 ^ 32 + 2 ^ 30 + 1) * (5 * u53) :=
    le_trans (fl_fl_mul_near f _ T hTpos hPerr)
      (mul_le_mul_of_nonneg_right hfTle (by have := u53_pos; positivity))
  have hz0 : 0 ≤ z := by
    apply fl_nonneg 53 (by norm_num)
    exact mul_nonneg (fl_nonneg 53 (by norm_num) f hf0) (pow10_pos _).le
  set R : ℤ := k - tz * 10 ^ n with hR
  have hnum : (2 ^ 32 + 2 ^ 30 + 1 : ℚ) * (5 * u53) < 1 / 2 ^ 18 := by unfold u53; norm_num
  have hzR : |z - (R:ℚ)| < 1 / 2 := by
    have e1 : f * T - (R:ℚ) = x * T - k := by
      rw [hfT, hR, hT']; push_cast; ring
    have tri : |z - (R:ℚ)| ≤ |z - f * T| + |f * T - (R:ℚ)| := by
      have := abs_add_le (z - f * T) (f * T - (R:ℚ))
      simpa using this
    rw [e1] at tri
    linarith
  have hR0 : 0 ≤ R := by
    have := (abs_lt.mp hzR).2
    have : (-1:ℚ) < (R:ℚ) := by linarith
    have : ((-1:ℤ):ℚ) < (R:ℚ) := by push_cast; linarith
    have : (-1:ℤ) < R := by exact_mod_cast this
    omega
  have hRlt : R < 2 ^ 64 := by omega
  unfold dBranchB
  simp only
  rw [htrunc, hflt]
  rw [show fl 53 (fl 53 (x - (tz:ℚ)) * pow10 e.scale) = z from rfl]
  rw [cround_near z R hzR, castU64_of_range R hR0 hRlt, Int.toNat_of_nonneg hR0]
  rw [wrapU64_add_wrap, hsval]
  have : tz * 10 ^ n - e.ref + R = k - e.ref := by rw [hR]; ring
  rw [this, wrapU64_of_range _ hg.k0 (by omega)]

/-- branch `delta < reference`, `scale ≥ 0`: the same value recomputed from `val1 = fval − fmin` -/
theorem dBranchA_eq (e : Enc) (hv : e.Valid) (hs : 0 ≤ e.scale) (x : ℚ) (k : ℤ)
    (hg : OnGrid e x k) (hlo : ¬ x < dFmin e) : dBranchA e x = (k - e.ref).toNat := by
  obtain ⟨ka, kb, kc⟩ := hg.kbounds hv
  have hnear := hg.near
  obtain ⟨n, hn⟩ := Int.eq_ofNat_of_zero_le hs
  have hn15 : n ≤ 15 := by have := hv.s2; omega
  rw [hn] at hnear
  have hP : pow10 e.scale = (((10:ℤ) ^ n : ℤ) : ℚ) := by rw [hn]; exact pow10_nat n (by omega)
  have hT' : T10 (n:ℤ) = (10:ℚ) ^ n := by unfold T10; rw [zpow_natCast]
  have hT1 := one_le_T10_nat n
  have hTpos := T10_pos (n:ℤ)
  have hPerr : |pow10 e.scale - T10 (n:ℤ)| ≤ T10 (n:ℤ) * u53 := by rw [hn]; exact pow10_err _
  have hPT : pow10 e.scale = T10 (n:ℤ) := by rw [hn]; exact pow10_exact _ (by omega) (by omega)
  set T := T10 (n:ℤ) with hTd
  have hu := u53_pos
  set j : ℤ := k - e.ref with hj
  have hj0 : 0 ≤ j := hg.k0
  have hjq : (j:ℚ) ≤ 2 ^ 32 - 1 := by
    have : (j:ℚ) ≤ ((2 ^ 32 - 1 : ℤ) : ℚ) := by exact_mod_cast (by omega : j ≤ 2 ^ 32 - 1)
    push_cast at this; linarith
  have hjq0 : (0:ℚ) ≤ (j:ℚ) := by exact_mod_cast hj0
  have hrq : |(e.ref:ℚ)| ≤ 2 ^ 30 := by exact_mod_cast hv.r
  -- g = fmin, g T ≈ ref
  set g : ℚ := fl 53 ((e.ref:ℚ) / pow10 e.scale) with hgd
  have hxg : g ≤ x := by
    have : dFmin e = g := by unfold dFmin; rw [if_neg (not_lt.mpr hs)]
    rw [this] at hlo; exact not_lt.mp hlo
  have hgT : |g * T - e.ref| ≤ 2 ^ 30 * (3 * u53) :=
    le_trans (fl_div_near (e.ref:ℚ) _ T hTpos (pow10_pos _) hPerr)
      (mul_le_mul_of_nonneg_right hrq (by positivity))
  -- v = val1
  set v : ℚ := fl 53 (x - g) with hvd
  have hv0 : 0 ≤ v := fl_nonneg 53 (by norm_num) _ (by linarith)
  have hxgT : |(x - g) * T - j| ≤ 1 / 2 - 1 / 2 ^ 18 + 2 ^ 30 * (3 * u53) := by
    have e1 : (x - g) * T - j = (x * T - k) - (g * T - e.ref) := by rw [hj]; push_cast; ring
    rw [e1]
    have := abs_sub (x * T - k) (g * T - e.ref)
    linarith
  have hxgTle : |(x - g) * T| ≤ 2 ^ 32 := by
    have := abs_sub_abs_le_abs_sub ((x - g) * T) (j:ℚ)
    rw [abs_of_nonneg hjq0] at this
    have : (2:ℚ) ^ 30 * (3 * u53) ≤ 1 / 4 := by unfold u53; norm_num
    linarith
  have hvT1 : |v * T - (x - g) * T| ≤ 2 ^ 32 * u53 := by
    have : v * T - (x - g) * T = (v - (x - g)) * T := by ring
    rw [this, abs_mul, abs_of_pos hTpos]
    have e1 := fl53_err (x - g)
    have hA : |(x - g) * T| = |x - g| * T := by rw [abs_mul, abs_of_pos hTpos]
    calc |v - (x - g)| * T ≤ |x - g| * u53 * T := mul_le_mul_of_nonneg_right e1 hTpos.le
      _ = |(x - g) * T| * u53 := by rw [hA]; ring
      _ ≤ 2 ^ 32 * u53 := mul_le_mul_of_nonneg_right hxgTle hu.le
  have hvTj : |v * T - j| ≤ 1 / 2 - 1 / 2 ^ 18 + 2 ^ 30 * (3 * u53) + 2 ^ 32 * u53 := by
    have tri : |v * T - j| ≤ |v * T - (x - g) * T| + |(x - g) * T - j| := by
      have := abs_add_le (v * T - (x - g) * T) ((x - g) * T - j)
      simpa using this
    linarith
  have hvT0 : 0 ≤ v * T := mul_nonneg hv0 hTpos.le
  have hvTle : v * T ≤ 2 ^ 32 := by
    have := (abs_le.mp hvTj).2
    have : (2:ℚ) ^ 30 * (3 * u53) + 2 ^ 32 * u53 ≤ 1 / 4 := by unfold u53; norm_num
    linarith
  have hvle : v ≤ v * T := by nlinarith
  -- integer part of v
  set tz : ℤ := ⌊v⌋ with htz
  have htz0 : 0 ≤ tz := Int.floor_nonneg.mpr hv0
  have htzv : (tz:ℚ) ≤ v := Int.floor_le v
  have htzT : (tz:ℚ) * T ≤ v * T := mul_le_mul_of_nonneg_right htzv hTpos.le
  have htzlt : tz < 2 ^ 33 := by
    have : (tz:ℚ) < ((2 ^ 33 : ℤ) : ℚ) := by push_cast; linarith
    exact_mod_cast this
  have htrunc : castU64 (ctrunc v) = tz.toNat := by
    rw [ctrunc_of_nonneg v hv0, castU64_of_range tz htz0 (by omega)]
  have htcast : ((tz.toNat : ℕ) : ℤ) = tz := Int.toNat_of_nonneg htz0
  have htq : ((tz.toNat : ℕ) : ℚ) = (tz:ℚ) := by exact_mod_cast htcast
  have hprod_le : tz * 10 ^ n ≤ 2 ^ 32 := by
    have : ((tz * 10 ^ n : ℤ) : ℚ) ≤ ((2 ^ 32 : ℤ) : ℚ) := by
      push_cast; rw [← hT']; linarith
    exact_mod_cast this
  have hprod0 : 0 ≤ tz * 10 ^ n := by positivity
  have hflt : fl 53 ((tz.toNat : ℕ) : ℚ) = (tz:ℚ) := by
    rw [htq]; exact fl_int 53 tz (by rw [abs_of_nonneg htz0]; omega)
  -- fractional part
  set f : ℚ := v - (tz:ℚ) with hf
  have hf0 : 0 ≤ f := by rw [hf]; linarith
  have hfT0 : 0 ≤ f * T := mul_nonneg hf0 hTpos.le
  have hfT : f * T = v * T - tz * T := by rw [hf]; ring
  have hfTle : |f * T| ≤ 2 ^ 32 := by
    rw [abs_of_nonneg hfT0, hfT]
    have : 0 ≤ (tz:ℚ) * T := mul_nonneg (by exact_mod_cast htz0) hTpos.le
    linarith
  set z : ℚ := fl 53 (fl 53 f * pow10 e.scale) with hz
  have hzerr : |z - f * T| ≤ 2 ^ 32 * (5 * u53) :=
    le_trans (fl_fl_mul_near f _ T hTpos hPerr)
      (mul_le_mul_of_nonneg_right hfTle (by positivity))
  have hz0 : 0 ≤ z := by
    apply fl_nonneg 53 (by norm_num)
    exact mul_nonneg (fl_nonneg 53 (by norm_num) f hf0) (pow10_pos _).le
  set R : ℤ := j - tz * 10 ^ n with hR
  have hnum : (2:ℚ) ^ 30 * (3 * u53) + 2 ^ 32 * u53 + 2 ^ 32 * (5 * u53) < 1 / 2 ^ 18 := by
    unfold u53; norm_num
  have hzR : |z - (R:ℚ)| < 1 / 2 := by
    have e1 : f * T - (R:ℚ) = v * T - j := by
      rw [hfT, hR, hT']; push_cast; ring
    have tri : |z - (R:ℚ)| ≤ |z - f * T| + |f * T - (R:ℚ)| := by
      have := abs_add_le (z - f * T) (f * T - (R:ℚ))
      simpa using this
    rw [e1] at tri
    linarith
  have hR0 : 0 ≤ R := by
    have := (abs_lt.mp hzR).2
    have : ((-1:ℤ):ℚ) < (R:ℚ) := by push_cast; linarith
    have : (-1:ℤ) < R := by exact_mod_cast this
    omega
  have hRlt : R < 2 ^ 33 := by omega
  have hRq : ((R.toNat : ℕ) : ℚ) = (R:ℚ) := by exact_mod_cast Int.toNat_of_nonneg hR0
  unfold dBranchA
  simp only
  rw [show dVal1 e x = v from rfl, htrunc, hflt]
  rw [show fl 53 (fl 53 (v - (tz:ℚ)) * pow10 e.scale) = z from rfl]
  rw [cround_near z R hzR, castU64_of_range R hR0 (by omega), hRq]
  -- the final float computation is exact: integers below 2^53
  have h1 : fl 53 ((tz:ℚ) * pow10 e.scale) = ((tz * 10 ^ n : ℤ) : ℚ) := by
    rw [hP, ← Int.cast_mul]
    exact fl_int 53 _ (by rw [abs_of_nonneg hprod0]; omega)
  have h2 : fl 53 (R:ℚ) = (R:ℚ) := fl_int 53 R (by rw [abs_of_nonneg hR0]; omega)
  have h3 : fl 53 (((tz * 10 ^ n : ℤ) : ℚ) + (R:ℚ)) = (j:ℚ) := by
    rw [← Int.cast_add, show tz * 10 ^ n + R = j by rw [hR]; ring]
    exact fl_int 53 j (by rw [abs_of_nonneg hj0]; omega)
  rw [h1, h2, h3, ctrunc_int, castU64_of_range j hj0 (by omega)]

/-! ### the whole encoder on a grid point -/

theorem missingIvalue_eq (n : ℕ) (h1 : 1 ≤ n) (h2 : n ≤ 63) : missingIvalue (n:ℤ) = 2 ^ n - 1 := by
  unfold missingIvalue
  rw [if_neg (by omega), if_neg (by omega), Int.toNat_natCast]

theorem missingIvalue_ge64 (n : ℤ) (h : 64 ≤ n) : missingIvalue n = 2 ^ 64 - 1 := by
  unfold missingIvalue
  rw [if_neg (by omega), if_pos (by omega)]

/-- the value computed by whichever arithmetic branch the C takes -/
def dIval (e : Enc) (x : ℚ) : ℕ :=
  if 0 ≤ e.scale then
    (if dDelta e x < e.ref then dBranchA e x else if x > 0 then dBranchB e x else dBranchC e x)
  else dBranchNeg e x

theorem cvtDvalToI64_fin (code : Desc) (e : Enc) (x : ℚ) (hn : e.nbits ≤ 32) (hx : x ≠ maxDouble) :
    cvtDvalToI64 code e (.fin x) =
      if x > dFmax e then
        (if Desc.x code = 31 ∧ wrapU64 (castI32 (ctrunc x)) = 2 ^ e.nbits - 1 then 2 ^ e.nbits - 1
         else missingIvalue e.nbits)
      else if x < dFmin e then 2 ^ e.nbits - 1
      else if dIval e x ≥ 2 ^ e.nbits - 1 then missingIvalue e.nbits else dIval e x := by
  unfold cvtDvalToI64 dIval
  rw [if_neg (by omega)]
  simp only [hx, if_false]

theorem T10_ge (e : Enc) (hv : e.Valid) : (1:ℚ) / 10 ^ 16 ≤ T10 e.scale := by
  have := zpow_le_zpow_right₀ (by norm_num : (1:ℚ) ≤ 10) hv.s1
  unfold T10
  calc (1:ℚ) / 10 ^ 16 = (10:ℚ) ^ (-16:ℤ) := by norm_num
    _ ≤ (10:ℚ) ^ e.scale := this

/-- anything whose scaled value is below 2^34 in magnitude is far from `DBL_MAX` -/
theorem ne_maxDouble_of_scaled (e : Enc) (hv : e.Valid) (x : ℚ) (h : |x * T10 e.scale| ≤ 2 ^ 34) :
    x ≠ maxDouble := by
  have hT := T10_pos e.scale
  have hge := T10_ge e hv
  intro hx
  have hm : (2:ℚ) ^ 34 * 10 ^ 16 < maxDouble := by
    have h1 : (1:ℚ) ≤ (((2:ℕ) ^ 53 - 1 : ℕ) : ℚ) := by norm_num
    have h2 : (2:ℚ) ^ 100 ≤ (((2:ℕ) ^ 971 : ℕ) : ℚ) := by
      simp only [Nat.cast_pow, Nat.cast_ofNat]
      exact pow_le_pow_right₀ (by norm_num) (by norm_num)
    have h3 : (2:ℚ) ^ 100 ≤ maxDouble := by
      unfold maxDouble
      calc (2:ℚ) ^ 100 = 1 * 2 ^ 100 := by ring
        _ ≤ _ := mul_le_mul h1 h2 (by positivity) (by positivity)
    have : (2:ℚ) ^ 34 * 10 ^ 16 < 2 ^ 100 := by norm_num
    linarith
  have hx0 : 0 < x := by rw [hx]; have : (0:ℚ) < 2 ^ 34 * 10 ^ 16 := by positivity
                         linarith
  rw [abs_of_pos (mul_pos hx0 hT)] at h
  have : x * (1 / 10 ^ 16) ≤ x * T10 e.scale := mul_le_mul_of_nonneg_left hge hx0.le
  rw [hx] at this h
  have : maxDouble ≤ 2 ^ 34 * 10 ^ 16 := by
    have h2 : maxDouble * (1 / 10 ^ 16) ≤ 2 ^ 34 := le_trans this h
    have : maxDouble = maxDouble * (1 / 10 ^ 16) * 10 ^ 16 := by ring
    rw [this]
    exact mul_le_mul_of_nonneg_right h2 (by positivity)
  linarith

/-- what the C range test does with a value it rejects -/
theorem encode_rejected (code : Desc) (e : Enc) (hv : e.Valid) (x : ℚ)
    (h : x < dFmin e ∨ x > dFmax e) : cvtDvalToI64 code e (.fin x) = 2 ^ e.nbits - 1 := by
  have hm : missingIvalue (e.nbits:ℤ) = 2 ^ e.nbits - 1 :=
    missingIvalue_eq e.nbits hv.n1 (by have := hv.n32; omega)
  by_cases hx : x = maxDouble
  · unfold cvtDvalToI64
    rw [if_neg (by have := hv.n32; omega)]
    simp only [hx, if_true, hm]
  · rw [cvtDvalToI64_fin code e x hv.n32 hx, hm]
    by_cases h1 : x > dFmax e
    · rw [if_pos h1]; split_ifs <;> rfl
    · rw [if_neg h1, if_pos (h.resolve_right h1)]

/-- whichever arithmetic branch the C code takes, the value computed for a point on the grid is
`k − ref` -/
theorem dIval_eq (e : Enc) (hv : e.Valid) (x : ℚ) (k : ℤ)
    (hg : OnGrid e x k) (hlo : ¬ x < dFmin e) : dIval e x = (k - e.ref).toNat := by
  unfold dIval
  by_cases hs : 0 ≤ e.scale
  · rw [if_pos hs]
    split_ifs with h1 h2
    · exact dBranchA_eq e hv hs x k hg hlo
    · exact dBranchB_eq e hv hs x k hg h2
    · exact dBranchC_eq e hv x k hg
  · rw [if_neg hs]
    exact dBranchNeg_eq e hv (not_le.mp hs) x k hg

/-- **T-Scale, encode**: a value on the grid, inside the library's own range test, encodes to
its raw value — whichever arithmetic branch the C code takes -/
theorem cvtDvalToI64_onGrid (code : Desc) (e : Enc) (hv : e.Valid) (x : ℚ) (k : ℤ)
    (hg : OnGrid e x k) (hk1 : k - e.ref < 2 ^ e.nbits - 1)
    (hlo : ¬ x < dFmin e) (hhi : ¬ x > dFmax e) :
    cvtDvalToI64 code e (.fin x) = (k - e.ref).toNat := by
  have hxm : x ≠ maxDouble :=
    ne_maxDouble_of_scaled e hv x (le_trans (hg.ybound hv) (by norm_num))
  rw [cvtDvalToI64_fin code e x hv.n32 hxm, if_neg hhi, if_neg hlo, dIval_eq e hv x k hg hlo]
  have hlt : (k - e.ref).toNat < 2 ^ e.nbits - 1 := by
    have h0 := hg.k0
    have : (1:ℤ) ≤ 2 ^ e.nbits := one_le_pow₀ (by norm_num)
    zify
    rw [Int.toNat_of_nonneg h0, Nat.cast_sub (by exact_mod_cast this)]
    push_cast; linarith
  rw [if_neg (by omega)]

/-- a grid point **beyond** the width (`k − ref ≥ 2^n − 1`): whatever the range test said, the value
computed is at least `maxval` and the `ival >= maxval` test (now in both branches) stores missing -/
theorem cvtDvalToI64_beyond (code : Desc) (e : Enc) (hv : e.Valid) (x : ℚ) (k : ℤ)
    (hg : OnGrid e x k) (hk1 : 2 ^ e.nbits - 1 ≤ k - e.ref) (hlo : ¬ x < dFmin e) :
    cvtDvalToI64 code e (.fin x) = 2 ^ e.nbits - 1 := by
  by_cases hhi : x > dFmax e
  · exact encode_rejected code e hv x (Or.inr hhi)
  have hm : missingIvalue (e.nbits:ℤ) = 2 ^ e.nbits - 1 :=
    missingIvalue_eq e.nbits hv.n1 (by have := hv.n32; omega)
  have hxm : x ≠ maxDouble :=
    ne_maxDouble_of_scaled e hv x (le_trans (hg.ybound hv) (by norm_num))
  rw [cvtDvalToI64_fin code e x hv.n32 hxm, if_neg hhi, if_neg hlo, dIval_eq e hv x k hg hlo, hm]
  have hge : (k - e.ref).toNat ≥ 2 ^ e.nbits - 1 := by
    have h0 := hg.k0
    have : (1:ℤ) ≤ 2 ^ e.nbits := one_le_pow₀ (by norm_num)
    zify
    rw [Int.toNat_of_nonneg h0, Nat.cast_sub (by exact_mod_cast this)]
    push_cast; linarith
  rw [if_pos hge]

/-! ### decode -/

theorem cvtI64ToDval_eq (e : Enc) (hv : e.Valid) (i : ℤ) (h0 : 0 ≤ i) (h1 : i < 2 ^ e.nbits - 1) :
    cvtI64ToDval e i = fl 53 (((i + e.ref : ℤ) : ℚ) / dP e) := by
  have hp := two_pow_nbits_le e hv
  have hr := abs_le.mp hv.r
  have hm : missingIvalue (e.nbits:ℤ) = 2 ^ e.nbits - 1 :=
    missingIvalue_eq e.nbits hv.n1 (by have := hv.n32; omega)
  have h2 : ¬ (i < 0 ∨ i = ((missingIvalue (e.nbits:ℤ) : ℕ) : ℤ)) := by
    rw [hm]
    have : (1:ℕ) ≤ 2 ^ e.nbits := Nat.one_le_two_pow
    push_cast [Nat.cast_sub this]
    omega
  have hfl : fl 53 ((i + e.ref : ℤ) : ℚ) = ((i + e.ref : ℤ) : ℚ) :=
    fl_int 53 _ (by rw [abs_lt]; constructor <;> omega)
  unfold cvtI64ToDval
  simp only [h2, if_false, hfl, ite_self]
  split_ifs with hs
  · rw [mul_inv_pow e hs]
  · rw [dP_of_nonneg e (not_lt.mp hs)]

/-- comparison of two decoded values through `fl_err` alone -/
theorem fl_div_lt (A B P T : ℚ) (hT : 0 < T) (hP0 : 0 < P) (hP : |P - T| ≤ T * u53)
    (h : A + (|A| + |B|) * (3 * u53) < B) : fl 53 (A / P) < fl 53 (B / P) := by
  have a := (abs_le.mp (fl_div_near A P T hT hP0 hP)).2
  have b := (abs_le.mp (fl_div_near B P T hT hP0 hP)).1
  have : fl 53 (A / P) * T < fl 53 (B / P) * T := by nlinarith
  exact lt_of_mul_lt_mul_right this hT.le

theorem N_bound (e : Enc) (hv : e.Valid) (i : ℤ) (h0 : 0 ≤ i) (h1 : i < 2 ^ e.nbits - 1) :
    |((i + e.ref : ℤ) : ℚ)| ≤ 2 ^ 32 + 2 ^ 30 := by
  have hp := two_pow_nbits_le e hv
  have hr := abs_le.mp hv.r
  have : |(i + e.ref : ℤ)| ≤ 2 ^ 32 + 2 ^ 30 := by rw [abs_le]; constructor <;> omega
  exact_mod_cast this

/-- the largest representable scaled value `M = 2^n − 2 + ref`, its bound, and `fmax` in terms of it -/
theorem M_bound (e : Enc) (hv : e.Valid) :
    |((((2:ℤ) ^ e.nbits - 1 - 1 + e.ref : ℤ)) : ℚ)| ≤ 2 ^ 32 + 2 ^ 30 := by
  have hp := two_pow_nbits_le e hv
  have hr := abs_le.mp hv.r
  have h1 : (1:ℤ) ≤ 2 ^ e.nbits := one_le_pow₀ (by norm_num)
  have : |((2:ℤ) ^ e.nbits - 1 - 1 + e.ref : ℤ)| ≤ 2 ^ 32 + 2 ^ 30 := by
    rw [abs_le]; constructor <;> omega
  exact_mod_cast this

theorem dFmax_eq' (e : Enc) (hv : e.Valid) :
    dFmax e = fl 53 ((((2:ℤ) ^ e.nbits - 1 - 1 + e.ref : ℤ) : ℚ) / dP e) := by
  have hp := two_pow_nbits_le e hv
  have hr := abs_le.mp hv.r
  have h1 : (1:ℤ) ≤ 2 ^ e.nbits := one_le_pow₀ (by norm_num)
  rw [dFmax_eq, fl_int 53 _ (by rw [abs_lt]; constructor <;> omega)]

/-- the decoded value of a raw pattern below all-ones is on its grid point -/
theorem decode_onGrid (e : Enc) (hv : e.Valid) (i : ℤ) (h0 : 0 ≤ i) (h1 : i < 2 ^ e.nbits - 1) :
    OnGrid e (cvtI64ToDval e i) (i + e.ref) := by
  have hp := two_pow_nbits_le e hv
  refine ⟨by omega, by omega, ?_⟩
  rw [cvtI64ToDval_eq e hv i h0 h1]
  have h := fl_div_near ((i + e.ref : ℤ) : ℚ) (dP e) (T10 e.scale) (T10_pos _)
    (dP_pos e hv) (dP_err e hv)
  have hN := N_bound e hv i h0 h1
  have : |((i + e.ref : ℤ) : ℚ)| * (3 * u53) ≤ (2 ^ 32 + 2 ^ 30) * (3 * u53) :=
    mul_le_mul_of_nonneg_right hN (by have := u53_pos; positivity)
  have : ((2:ℚ) ^ 32 + 2 ^ 30) * (3 * u53) ≤ 1 / 2 - 1 / 2 ^ 18 := by unfold u53; norm_num
  linarith

/-- order of two scaled-down integers at least one apart -/
theorem scaled_lt (e : Enc) (hv : e.Valid) (A B : ℤ) (hAB : A < B)
    (hA : |(A:ℚ)| ≤ 2 ^ 32 + 2 ^ 30) (hB : |(B:ℚ)| ≤ 2 ^ 32 + 2 ^ 30) :
    fl 53 ((A:ℚ) / dP e) < fl 53 ((B:ℚ) / dP e) := by
  apply fl_div_lt _ _ _ (T10 e.scale) (T10_pos _) (dP_pos e hv) (dP_err e hv)
  have hu := u53_pos
  have : (A:ℚ) + 1 ≤ (B:ℚ) := by
    have : A + 1 ≤ B := by omega
    exact_mod_cast this
  have : (|(A:ℚ)| + |(B:ℚ)|) * (3 * u53) ≤ ((2 ^ 32 + 2 ^ 30) + (2 ^ 32 + 2 ^ 30)) * (3 * u53) :=
    mul_le_mul_of_nonneg_right (by linarith) (by positivity)
  have : (((2:ℚ) ^ 32 + 2 ^ 30) + (2 ^ 32 + 2 ^ 30)) * (3 * u53) < 1 := by unfold u53; norm_num
  linarith

theorem decode_ge_fmin (e : Enc) (hv : e.Valid) (i : ℤ) (h0 : 0 ≤ i) (h1 : i < 2 ^ e.nbits - 1) :
    ¬ cvtI64ToDval e i < dFmin e := by
  rw [cvtI64ToDval_eq e hv i h0 h1, not_lt, dFmin_eq]
  rcases eq_or_lt_of_le h0 with hi | hi
  · rw [← hi]; simp
  · apply le_of_lt
    have hr : |(e.ref:ℚ)| ≤ 2 ^ 32 + 2 ^ 30 := by
      have : |(e.ref:ℚ)| ≤ 2 ^ 30 := by exact_mod_cast hv.r
      linarith
    exact scaled_lt e hv e.ref (i + e.ref) (by omega) hr (N_bound e hv i h0 h1)

theorem decode_le_fmax (e : Enc) (hv : e.Valid) (i : ℤ) (h0 : 0 ≤ i) (h1 : i < 2 ^ e.nbits - 1) :
    ¬ cvtI64ToDval e i > dFmax e := by
  rw [cvtI64ToDval_eq e hv i h0 h1, gt_iff_lt, not_lt, dFmax_eq' e hv]
  rcases eq_or_lt_of_le (show i + e.ref ≤ (2:ℤ) ^ e.nbits - 1 - 1 + e.ref by omega) with hi | hi
  · rw [hi]
  · exact le_of_lt (scaled_lt e hv _ _ hi (N_bound e hv i h0 h1) (M_bound e hv))

/-! ### order, missing, out of range -/

theorem decode_strict_mono (e : Enc) (hv : e.Valid) (i j : ℤ) (h0 : 0 ≤ i) (hij : i < j)
    (hj : j < 2 ^ e.nbits - 1) : cvtI64ToDval e i < cvtI64ToDval e j := by
  rw [cvtI64ToDval_eq e hv i h0 (by omega), cvtI64ToDval_eq e hv j (by omega) hj]
  exact scaled_lt e hv _ _ (by omega) (N_bound e hv i h0 (by omega)) (N_bound e hv j (by omega) hj)

theorem decode_missing (e : Enc) (hv : e.Valid) : cvtI64ToDval e (2 ^ e.nbits - 1) = maxDouble := by
  have hm : missingIvalue (e.nbits:ℤ) = 2 ^ e.nbits - 1 :=
    missingIvalue_eq e.nbits hv.n1 (by have := hv.n32; omega)
  have : (2:ℤ) ^ e.nbits - 1 = ((missingIvalue (e.nbits:ℤ) : ℕ) : ℤ) := by
    rw [hm]
    have : (1:ℕ) ≤ 2 ^ e.nbits := Nat.one_le_two_pow
    push_cast [Nat.cast_sub this]; ring
  unfold cvtI64ToDval
  simp only [this, or_true, if_true]

theorem decode_not_missing (e : Enc) (hv : e.Valid) (i : ℤ) (h0 : 0 ≤ i) (h1 : i < 2 ^ e.nbits - 1) :
    cvtI64ToDval e i ≠ maxDouble :=
  ne_maxDouble_of_scaled e hv _ (le_trans ((decode_onGrid e hv i h0 h1).ybound hv) (by norm_num))

theorem encode_missing (code : Desc) (e : Enc) (hv : e.Valid) (x : FP) (h : isMissingDouble x = true) :
    cvtDvalToI64 code e x = 2 ^ e.nbits - 1 := by
  have hm : missingIvalue (e.nbits:ℤ) = 2 ^ e.nbits - 1 :=
    missingIvalue_eq e.nbits hv.n1 (by have := hv.n32; omega)
  unfold cvtDvalToI64
  rw [if_neg (by have := hv.n32; omega)]
  cases x with
  | nan => simp only [hm]
  | inf b => simp only [hm]
  | fin q =>
    have : q = maxDouble := by simpa [isMissingDouble] using h
    simp only [this, if_true, hm]

/-- `fmin·10^s` and `fmax·10^s` are the exact bounds up to 2^−20 -/
theorem dFmin_scaled (e : Enc) (hv : e.Valid) :
    |dFmin e * T10 e.scale - e.ref| ≤ 1 / 2 ^ 20 := by
  have hu := u53_pos
  have hr : |(e.ref:ℚ)| ≤ 2 ^ 30 := by exact_mod_cast hv.r
  rw [dFmin_eq]
  have a := fl_div_near (e.ref:ℚ) (dP e) (T10 e.scale) (T10_pos _) (dP_pos e hv) (dP_err e hv)
  have : |(e.ref:ℚ)| * (3 * u53) ≤ 2 ^ 30 * (3 * u53) :=
    mul_le_mul_of_nonneg_right hr (by positivity)
  have : (2:ℚ) ^ 30 * (3 * u53) ≤ 1 / 2 ^ 20 := by unfold u53; norm_num
  linarith

theorem dFmax_scaled (e : Enc) (hv : e.Valid) :
    |dFmax e * T10 e.scale - (((2:ℤ) ^ e.nbits - 1 - 1 + e.ref : ℤ) : ℚ)| ≤ 1 / 2 ^ 18 := by
  have hu := u53_pos
  rw [dFmax_eq' e hv]
  have a := fl_div_near ((((2:ℤ) ^ e.nbits - 1 - 1 + e.ref : ℤ)) : ℚ) (dP e) (T10 e.scale)
    (T10_pos _) (dP_pos e hv) (dP_err e hv)
  have : |((((2:ℤ) ^ e.nbits - 1 - 1 + e.ref : ℤ)) : ℚ)| * (3 * u53) ≤ (2 ^ 32 + 2 ^ 30) * (3 * u53) :=
    mul_le_mul_of_nonneg_right (M_bound e hv) (by positivity)
  have : ((2:ℚ) ^ 32 + 2 ^ 30) * (3 * u53) ≤ 1 / 2 ^ 18 := by unfold u53; norm_num
  linarith

/-- below the range by more than half a unit ⇒ below the library's `fmin` -/
theorem below_fmin (e : Enc) (hv : e.Valid) (x : ℚ)
    (h : x * T10 e.scale < (e.ref:ℚ) - 1 / 2) : x < dFmin e := by
  have hT := T10_pos e.scale
  have a := (abs_le.mp (dFmin_scaled e hv)).1
  have : x * T10 e.scale < dFmin e * T10 e.scale := by
    have : (1:ℚ) / 2 ^ 20 < 1 / 2 := by norm_num
    linarith
  exact lt_of_mul_lt_mul_right this hT.le

/-- above the range by more than half a unit ⇒ above the library's `fmax` -/
theorem above_fmax (e : Enc) (hv : e.Valid) (x : ℚ)
    (h : x * T10 e.scale > (((2:ℤ) ^ e.nbits - 2 + e.ref : ℤ) : ℚ) + 1 / 2) : x > dFmax e := by
  have hT := T10_pos e.scale
  have hMM : (2:ℤ) ^ e.nbits - 2 + e.ref = (2:ℤ) ^ e.nbits - 1 - 1 + e.ref := by ring
  rw [hMM] at h
  have a := (abs_le.mp (dFmax_scaled e hv)).2
  have : dFmax e * T10 e.scale < x * T10 e.scale := by
    have : (1:ℚ) / 2 ^ 18 < 1 / 2 := by norm_num
    linarith
  exact lt_of_mul_lt_mul_right this hT.le

/-- at least half a unit above the bottom of the range ⇒ not below the library's `fmin` -/
theorem ge_fmin_of_scaled (e : Enc) (hv : e.Valid) (x : ℚ)
    (h : (e.ref:ℚ) + 1 / 2 ≤ x * T10 e.scale) : ¬ x < dFmin e := by
  have hT := T10_pos e.scale
  have a := (abs_le.mp (dFmin_scaled e hv)).2
  have : dFmin e * T10 e.scale < x * T10 e.scale := by
    have : (1:ℚ) / 2 ^ 20 < 1 / 2 := by norm_num
    linarith
  exact not_lt.mpr (le_of_lt (lt_of_mul_lt_mul_right this hT.le))

/-- at least half a unit below the top of the range ⇒ not above the library's `fmax` -/
theorem le_fmax_of_scaled (e : Enc) (hv : e.Valid) (x : ℚ)
    (h : x * T10 e.scale ≤ (((2:ℤ) ^ e.nbits - 2 + e.ref : ℤ) : ℚ) - 1 / 2) : ¬ x > dFmax e := by
  rw [gt_iff_lt, not_lt]
  have hT := T10_pos e.scale
  have hMM : (2:ℤ) ^ e.nbits - 2 + e.ref = (2:ℤ) ^ e.nbits - 1 - 1 + e.ref := by ring
  rw [hMM] at h
  have a := (abs_le.mp (dFmax_scaled e hv)).1
  have : x * T10 e.scale < dFmax e * T10 e.scale := by
    have : (1:ℚ) / 2 ^ 18 < 1 / 2 := by norm_num
    linarith
  exact le_of_lt (lt_of_mul_lt_mul_right this hT.le)

end Bufr.Scale
