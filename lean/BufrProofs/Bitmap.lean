import BufrModel.Bitmap
import BufrProofs.Expand
/-
  BufrProofs.Bitmap — the bit-map head in front of `applyTables2node` is inert until a bit-map
  operator (2 36 YYY) or a replicated class 33 element is met: the functions of BufrModel.Bitmap
  then coincide with the plain ones of BufrModel.Ops / BufrModel.Decode.  Plus the bounds the C
  indexing relies on.
-/
namespace Bufr

/-- a descriptor that cannot wake the bit-map head up: not 2 36 YYY, and not a class 33 element
(replicated alone it would be flagged `FLAG_CLASS33`) -/
def quietDesc (d : Nat) : Bool := !(Desc.f d = 2 && Desc.x d = 36) && !(Desc.f d = 0 && Desc.x d = 33)

/-- a node the bit-map head ignores while no bit-map is being defined -/
def quietNode (n : Node) : Bool := !n.flags.class33 && quietDesc n.desc

/-- `DDO_BIT_MAP_FOLLOW` is not set -/
def quietDDO (ddo : DDO) : Prop := hasFlag ddo.flags DDO_BIT_MAP_FOLLOW = false

theorem hasFlag_or (a b f : Nat) (h : b &&& f = 0) : hasFlag (a ||| b) f = hasFlag a f := by
  unfold hasFlag; rw [Nat.and_or_distrib_right, h, Nat.or_zero]

theorem hasFlag_and (a m f : Nat) (h : m &&& f = f) : hasFlag (a &&& m) f = hasFlag a f := by
  unfold hasFlag; rw [Nat.and_assoc, h]

theorem quietNode_not236 (n : Node) (h : quietNode n = true) : n.desc ≠ 236000 := by
  intro e
  unfold quietNode quietDesc at h
  rw [e] at h
  simp [Desc.f, Desc.x] at h

theorem bmPre_quiet (bsq : Unit → List Node) (ddo : DDO) (n : Node)
    (hd : quietDDO ddo) (hn : quietNode n = true) : bmPre bsq ddo {} n = .cont ddo {} := by
  have h236 := quietNode_not236 n hn
  have hc : n.flags.class33 = false := by
    unfold quietNode at hn; simp at hn; exact hn.1
  unfold quietDDO at hd
  unfold bmPre
  simp [hc, h236, hd]

/-- **the whole `bufr_apply_tables2node` is the modelled tail** on a quiet node in a quiet state -/
theorem applyTables2nodeB_quiet (T : Tables) (edition : Nat) (bsq : Unit → List Node) (ddo : DDO) (n : Node)
    (hd : quietDDO ddo) (hn : quietNode n = true) :
    applyTables2nodeB T edition bsq ddo {} n =
      ((applyTables2node T edition ddo n).1, {}, (applyTables2node T edition ddo n).2.1,
       (applyTables2node T edition ddo n).2.2) := by
  unfold applyTables2nodeB
  rw [bmPre_quiet bsq ddo n hd hn]

/-! ### the flag is only ever set by 2 36 YYY -/

theorem resolveV2_flags (ddo : DDO) (x y : Nat) : (resolveV2 ddo x y).ddo.flags = ddo.flags := by
  unfold resolveV2
  split <;> (try split) <;> (try split) <;> (try split) <;> rfl

theorem badVersionTail_ddo (r : Resolved) (bad : Bool) (x : Nat) : (badVersionTail r bad x).ddo = r.ddo := by
  unfold badVersionTail; split <;> rfl

theorem rcWrap_ddo (r : Resolved) (x : Nat) :
    (if r.rc < 0 then { r with rc := -1 } else { r with rc := (x : Int) }).ddo = r.ddo := by
  split <;> rfl

theorem resolveV3_flag (ddo : DDO) (x y v : Nat) (hx : x ≠ 36) :
    hasFlag (resolveV3 ddo x y v).ddo.flags DDO_BIT_MAP_FOLLOW = hasFlag ddo.flags DDO_BIT_MAP_FOLLOW := by
  unfold resolveV3
  split
  · rw [badVersionTail_ddo]; split <;> simp [hasFlag_or, DDO_SUBST_VAL_FOLLOW, DDO_BIT_MAP_FOLLOW]
  · rw [badVersionTail_ddo]; split <;> simp [hasFlag_or, DDO_FO_STATS_VAL_FOLLOW, DDO_BIT_MAP_FOLLOW]
  · exact absurd rfl hx
  · rw [badVersionTail_ddo]; simp [hasFlag_or, DDO_USE_PREV_BIT_MAP, DDO_BIT_MAP_FOLLOW]
  · rw [badVersionTail_ddo]; split <;> simp [hasFlag_or, DDO_QUAL_INFO_FOLLOW, DDO_BIT_MAP_FOLLOW]
  · rfl
  · rfl
  · rfl
  · rfl
  · simp only []
    rw [rcWrap_ddo, resolveV2_flags]

theorem resolveV4_flag (ddo : DDO) (x y v : Nat) (hx : x ≠ 36) :
    hasFlag (resolveV4 ddo x y v).ddo.flags DDO_BIT_MAP_FOLLOW = hasFlag ddo.flags DDO_BIT_MAP_FOLLOW := by
  unfold resolveV4
  split
  · rw [badVersionTail_ddo]; split <;> rfl
  · rw [badVersionTail_ddo]; split
    · simp [hasFlag_and, DDO_DEFINE_EVENT, DDO_BIT_MAP_FOLLOW]
    · simp [hasFlag_or, DDO_DEFINE_EVENT, DDO_BIT_MAP_FOLLOW]
  · rw [badVersionTail_ddo]
  · rfl
  · rfl
  · simp only []
    rw [rcWrap_ddo, resolveV3_flag ddo x y v hx]

theorem resolveV5_flag (ddo : DDO) (x y v : Nat) (hx : x ≠ 36) :
    hasFlag (resolveV5 ddo x y v).ddo.flags DDO_BIT_MAP_FOLLOW = hasFlag ddo.flags DDO_BIT_MAP_FOLLOW := by
  unfold resolveV5
  split
  · rw [badVersionTail_ddo]; split
    · rfl
    · split <;> rfl
  · simp only []
    rw [rcWrap_ddo, resolveV4_flag ddo x y v hx]

theorem resolveTableC_flag (ddo : DDO) (x y ed : Nat) (hx : x ≠ 36) :
    hasFlag (resolveTableC ddo x y ed).ddo.flags DDO_BIT_MAP_FOLLOW = hasFlag ddo.flags DDO_BIT_MAP_FOLLOW := by
  unfold resolveTableC
  split
  · split
    · exact resolveV5_flag ddo x y 5 hx
    · exact resolveV4_flag ddo x y 4 hx
    · exact resolveV3_flag ddo x y 3 hx
    · exact resolveV2_flags ddo x y ▸ rfl
  · exact resolveV5_flag ddo x y ed hx

theorem applyNumeric_flags (ddo : DDO) (n : Node) (e : Enc) : (applyNumeric ddo n e).2.1.flags = ddo.flags := by
  unfold applyNumeric
  simp only []
  repeat (first | rfl | split)

theorem applyWidth_flags (ddo : DDO) (n : Node) (c : Bool) (e : Enc) : (applyWidth ddo n c e).2.1.flags = ddo.flags := by
  unfold applyWidth
  split
  · rfl
  · split
    · rfl
    · exact applyNumeric_flags ddo n e
  · rfl

theorem applyTail_flags (ddo : DDO) (n : Node) (e : Enc) (err : Bool) : (applyTail ddo n e err).1.flags = ddo.flags := by
  unfold applyTail
  simp only []
  exact applyWidth_flags _ _ _ _

theorem applyTail_node (ddo : DDO) (n : Node) (e : Enc) (err : Bool) :
    (applyTail ddo n e err).2.1.desc = n.desc ∧ (applyTail ddo n e err).2.1.flags.class33 = n.flags.class33 := by
  unfold applyTail
  simp

/-- a quiet node leaves a quiet state quiet -/
theorem applyTables2node_quietDDO (T : Tables) (edition : Nat) (ddo : DDO) (n : Node)
    (hd : quietDDO ddo) (hn : quietNode n = true) : quietDDO (applyTables2node T edition ddo n).1 := by
  unfold quietDDO at hd ⊢
  unfold applyTables2node
  simp only []
  split
  · rename_i hop
    rw [applyTail_flags]
    have hx : Desc.x n.desc ≠ 36 := by
      intro hx
      unfold quietNode quietDesc at hn
      simp [hop.1, hx] at hn
    rw [resolveTableC_flag ddo _ _ edition hx]
    exact hd
  · rw [applyTail_flags]; exact hd

theorem applyTables2node_quietNode (T : Tables) (edition : Nat) (ddo : DDO) (n : Node) :
    quietNode (applyTables2node T edition ddo n).2.1 = quietNode n := by
  have h : (applyTables2node T edition ddo n).2.1.desc = n.desc ∧
      (applyTables2node T edition ddo n).2.1.flags.class33 = n.flags.class33 := by
    unfold applyTables2node
    simp only []
    split <;> exact applyTail_node _ _ _ _
  unfold quietNode
  rw [h.1, h.2]

theorem applyOpCrefval_flags (T : Tables) (ddo : DDO) (n : Node) : (applyOpCrefval T ddo n).flags = ddo.flags := by
  unfold applyOpCrefval
  split
  · split
    · split <;> rfl
    · rfl
  · rfl

theorem applyOpCrefval_quiet (T : Tables) (ddo : DDO) (n : Node) (hd : quietDDO ddo) : quietDDO (applyOpCrefval T ddo n) := by
  unfold quietDDO at hd ⊢
  rw [applyOpCrefval_flags]; exact hd

/-! ### reading a value changes neither descriptor nor flags -/

theorem mkvalNode_df (n : Node) : (mkvalNode n).desc = n.desc ∧ (mkvalNode n).flags = n.flags := by
  unfold mkvalNode
  split
  · exact ⟨rfl, rfl⟩
  · simp only []; split <;> exact ⟨rfl, rfl⟩

theorem getDescValue_df (r r' : R) (n n' : Node) (h : getDescValue r n = some (r', n')) :
    n'.desc = n.desc ∧ n'.flags = n.flags := by
  unfold getDescValue at h
  have hm := mkvalNode_df n
  split at h
  · simp only [Option.some.injEq, Prod.mk.injEq] at h; rw [← h.2]; exact ⟨rfl, rfl⟩
  · simp only [] at h
    split at h
    · simp only [Option.some.injEq, Prod.mk.injEq] at h; rw [← h.2]; exact hm
    · split at h
      · exact absurd h (by simp)
      · rename_i r1 n2 hafr
        have h2 : n2.desc = n.desc ∧ n2.flags = n.flags := by
          split at hafr
          · split at hafr
            · exact absurd hafr (by simp)
            · simp only [Option.some.injEq, Prod.mk.injEq] at hafr; rw [← hafr.2]; exact hm
          · simp only [Option.some.injEq, Prod.mk.injEq] at hafr; rw [← hafr.2]; exact hm
        have fin : ∀ (o : Option (R × Node)), o = some (r', n') →
            (∀ r'' m, o = some (r'', m) → m.desc = n2.desc ∧ m.flags = n2.flags) →
            n'.desc = n.desc ∧ n'.flags = n.flags := by
          intro o ho hall
          have := hall r' n' ho
          exact ⟨this.1.trans h2.1, this.2.trans h2.2⟩
        refine fin _ h ?_
        intro r'' m hm'
        split at hm'
        · split at hm'
          · exact absurd hm' (by simp)
          · simp only [Option.some.injEq, Prod.mk.injEq] at hm'; rw [← hm'.2]; exact ⟨rfl, rfl⟩
        · split at hm'
          · exact absurd hm' (by simp)
          · split at hm' <;> (simp only [Option.some.injEq, Prod.mk.injEq] at hm'; rw [← hm'.2]; exact ⟨rfl, rfl⟩)
        all_goals first
          | (split at hm'
             · exact absurd hm' (by simp)
             · simp only [Option.some.injEq, Prod.mk.injEq] at hm'; rw [← hm'.2]; exact ⟨rfl, rfl⟩)
          | (simp only [Option.some.injEq, Prod.mk.injEq] at hm'; rw [← hm'.2]; exact ⟨rfl, rfl⟩)

theorem getDescValue_quiet (r r' : R) (n n' : Node) (h : getDescValue r n = some (r', n')) :
    quietNode n' = quietNode n := by
  have := getDescValue_df r r' n n' h
  unfold quietNode; rw [this.1, this.2]

/-- what the decoder's on-the-fly expansion must preserve: proved from the tables in
`expandNodeDecode_quiet` below -/
def QClosed (T : Tables) : Prop :=
  ∀ (f : Nat) (s4 : Option Nat) (n c31 : Node) (rest lst : List Node) (e : Bool),
    (∀ x ∈ n :: c31 :: rest, quietNode x = true) →
    expandNodeDecode T f s4 n c31 rest = .ok (lst, e) → ∀ x ∈ lst, quietNode x = true

def liftB (x : Except XErr (DecSt × List Node × SubsetEnd)) : Except XErr (DecSt × List Node × SubsetEnd × BM) :=
  match x with
  | .ok (a, b, c) => .ok (a, b, c, {})
  | .error e => .error e

/-- **the uncompressed subset loop with the bit-map head is the plain loop** while nothing of the
bit-map machinery is met -/
theorem decodeSubsetLoopB_quiet (T : Tables) (edition s4max : Nat) (hT : QClosed T) :
    ∀ (fuel : Nat) (ddo : DDO) (st : DecSt) (done todo : List Node),
    quietDDO ddo → (∀ x ∈ todo, quietNode x = true) →
    decodeSubsetLoopB T edition s4max fuel ddo {} st done todo =
      liftB (decodeSubsetLoop T edition s4max fuel ddo st done todo) := by
  intro fuel
  induction fuel with
  | zero => intro ddo st done todo _ _; simp [decodeSubsetLoopB, decodeSubsetLoop, liftB]
  | succ f ih =>
    intro ddo st done todo hd hq
    cases todo with
    | nil => simp [decodeSubsetLoopB, decodeSubsetLoop, liftB]
    | cons n rest =>
      have hn : quietNode n = true := hq n (by simp)
      have hrest : ∀ x ∈ rest, quietNode x = true := fun x hx => hq x (by simp [hx])
      unfold decodeSubsetLoopB decodeSubsetLoop
      rw [applyTables2nodeB_quiet T edition _ ddo n hd hn]
      have hd1 := applyTables2node_quietDDO T edition ddo n hd hn
      have hn1 := applyTables2node_quietNode T edition ddo n
      generalize applyTables2node T edition ddo n = a at hd1 hn1
      obtain ⟨ddo1, n1, err⟩ := a
      simp only [] at hd1 hn1 ⊢
      split
      · exact ih ddo1 _ (n1 :: done) rest hd1 hrest
      · cases hg : getDescValue { st with invalid := st.invalid || err }.r n1 with
        | none => simp [liftB]
        | some p =>
          obtain ⟨r2, n2⟩ := p
          have hn2 : quietNode n2 = true := by
            rw [getDescValue_quiet _ _ _ _ hg, hn1]; exact hn
          have hd2 := applyOpCrefval_quiet T ddo1 n2 hd1
          simp only []
          split
          · cases rest with
            | nil => simp [liftB]
            | cons c31 rest' =>
              simp only []
              have hc31 : quietNode c31 = true := hrest c31 (by simp)
              have hrest' : ∀ x ∈ rest', quietNode x = true := fun x hx => hrest x (by simp [hx])
              split
              · cases hg3 : getDescValue { { st with invalid := st.invalid || err } with r := r2 }.r c31 with
                | none => simp [liftB]
                | some p3 =>
                  obtain ⟨r3, c31r⟩ := p3
                  have hc31r : quietNode c31r = true := by
                    rw [getDescValue_quiet _ _ _ _ hg3]; exact hc31
                  simp only []
                  cases hx : expandNodeDecode T f (some s4max) n2 c31r rest' with
                  | error e => cases e <;> simp [liftB]
                  | ok p4 =>
                    obtain ⟨lst, eflag⟩ := p4
                    have hl : ∀ x ∈ lst, quietNode x = true :=
                      hT f (some s4max) n2 c31r rest' lst eflag
                        (by intro x hx'; simp only [List.mem_cons] at hx'
                            rcases hx' with h | h | h
                            · rw [h]; exact hn2
                            · rw [h]; exact hc31r
                            · exact hrest' x h) hx
                    simp only []
                    split
                    · simp [liftB]
                    · cases lst with
                      | nil => simp [liftB]
                      | cons a l2 =>
                        cases l2 with
                        | nil => simp [liftB]
                        | cons b more =>
                          simp only []
                          exact ih _ _ _ more hd2 (fun x hx' => hl x (by simp [hx']))
              · exact ih _ _ _ _ hd2 hrest
          · exact ih _ _ _ _ hd2 hrest

/-! ### the bit-map arrays stay in bounds

`BufrDPBM` holds three C arrays of `nb_codes` entries.  `index[]` is written once by
`bufr_index_dpbm`; `dp[nb_dp++] = i` in `bufr_init_dpbm` is only safe because the bit-map is
evaluated at most once per `BufrDDOp` (`remain_dpi` is −1 afterwards and nothing re-arms it) and
each evaluation looks at `nb_codes` bits at most; `index[dp[idp-1]]` in the marker branch is only
safe because every `dp` entry is below `nb_codes`. -/

/-- what the C relies on -/
def BM.WF (bm : BM) : Prop :=
  match bm.dpbm with
  | none => True
  | some d =>
    (bm.remainDpi ≥ 0 → d.dp = []) ∧ (∀ k ∈ d.dp, k < d.index.length) ∧
    d.dp.length ≤ d.index.length ∧ d.dpOverflow = false

theorem initBits_spec (nb : Nat) : ∀ (ns : List Node) (i : Nat) (d : DPBM),
    d.dp.length ≤ i → i ≤ nb → (∀ k ∈ d.dp, k < nb) → d.dpOverflow = false →
    (initBits nb ns i d).index = d.index ∧
    (∀ k ∈ (initBits nb ns i d).dp, k < nb) ∧
    (initBits nb ns i d).dp.length ≤ nb ∧ (initBits nb ns i d).dpOverflow = false := by
  intro ns
  induction ns with
  | nil => intro i d h1 h2 h3 h4; unfold initBits; exact ⟨rfl, h3, by omega, h4⟩
  | cons n ns ih =>
    intro i d h1 h2 h3 h4
    unfold initBits
    split
    · exact ⟨rfl, h3, by omega, h4⟩
    · rename_i hlt
      have hi : i < nb := by omega
      simp only []
      split
      · have := ih (i + 1) { d with dp := d.dp ++ [i], dpOverflow := d.dpOverflow || decide (d.dp.length ≥ nb) }
          (by simp; omega) (by omega)
          (by intro k hk; simp only [List.mem_append, List.mem_singleton] at hk
              rcases hk with hk | hk
              · exact h3 k hk
              · omega)
          (by simp only [h4, Bool.false_or, decide_eq_false_iff_not]; omega)
        exact this
      · exact ih (i + 1) d (by omega) (by omega) h3 h4

theorem initDpbm_WF (d : DPBM) (bsq : List Node) (start : Option Nat) (hd : d.dp = []) (ho : d.dpOverflow = false) :
    (initDpbm d bsq start).index = d.index ∧
    (∀ k ∈ (initDpbm d bsq start).dp, k < d.index.length) ∧
    (initDpbm d bsq start).dp.length ≤ d.index.length ∧ (initDpbm d bsq start).dpOverflow = false := by
  unfold initDpbm
  split
  · rw [hd]; exact ⟨rfl, by simp, by simp, ho⟩
  · exact initBits_spec d.index.length _ 0 d (by rw [hd]; simp) (by omega) (by rw [hd]; simp) ho

theorem indexDpbm_WF (bsq : List Node) : (indexDpbm bsq).WF := by
  unfold indexDpbm BM.WF
  simp

theorem ensureIndexed_WF (bm : BM) (bsq : Unit → List Node) (h : bm.WF) : (ensureIndexed bm bsq).WF := by
  unfold ensureIndexed
  split
  · exact indexDpbm_WF (bsq ())
  · exact h

/-- the state after the head of `bufr_apply_tables2node` -/
def BMPre.bm : BMPre → BM
  | .ret b _ => b
  | .cont _ b => b

/-- **every step keeps the bit-map arrays in bounds**: no write past `dp[nb_codes-1]`, every `dp`
entry a valid subscript of `index[]` -/
theorem bmPre_WF (bsq : Unit → List Node) (ddo : DDO) (bm : BM) (n : Node) (h : bm.WF) : (bmPre bsq ddo bm n).bm.WF := by
  unfold bmPre
  split
  · -- marker: the state is returned as it is
    split
    · exact h
    · dsimp only
      repeat (first | exact h | split)
  · split
    · exact ensureIndexed_WF bm bsq h
    · split
      · exact ensureIndexed_WF bm bsq h
      · split
        · -- count-down over 0 31 031
          simp only [BMPre.bm]
          split
          · rename_i hpos
            unfold BM.WF at h ⊢
            simp only []
            split at h
            · trivial
            · rename_i d hs
              exact ⟨fun _ => h.1 (by omega), h.2⟩
          · exact h
        · split
          · -- the first descriptor behind the bit-map: evaluate it
            have hw := ensureIndexed_WF bm bsq h
            generalize ensureIndexed bm bsq = bm1 at hw
            dsimp only
            split
            · exact hw
            · rename_i d hs
              unfold BM.WF at hw
              rw [hs] at hw
              simp only [] at hw
              split
              · rename_i h0
                have hdp := hw.1 (by omega)
                obtain ⟨e1, e2, e3, e4⟩ := initDpbm_WF d (bsq ()) (startPos (bsq ())) hdp hw.2.2.2
                simp only [BMPre.bm, BM.WF]
                refine ⟨by intro hc; omega, ?_, ?_, e4⟩
                · rw [e1]; exact e2
                · rw [e1]; exact e3
              · split
                · rename_i hr
                  have hdp := hw.1 (by omega)
                  obtain ⟨e1, e2, e3, e4⟩ := initDpbm_WF d (bsq ()) (startPos (bsq ())) hdp hw.2.2.2
                  simp only [BMPre.bm, BM.WF]
                  refine ⟨by intro hc; omega, ?_, ?_, e4⟩
                  · rw [e1]; exact e2
                  · rw [e1]; exact e3
                · simp only [BMPre.bm, BM.WF, hs]; exact hw
          · exact h

theorem applyTables2nodeB_WF (T : Tables) (edition : Nat) (bsq : Unit → List Node) (ddo : DDO) (bm : BM) (n : Node)
    (h : bm.WF) : (applyTables2nodeB T edition bsq ddo bm n).2.1.WF := by
  have := bmPre_WF bsq ddo bm n h
  unfold applyTables2nodeB
  split
  · rename_i bm1 n1 he; rw [he] at this; exact this
  · rename_i ddo1 bm1 he; rw [he] at this; exact this

/-- the bit-map state a subset's decode ends with is in bounds, whatever the template and the data -/
theorem decodeSubsetLoopB_WF (T : Tables) (edition s4max : Nat) :
    ∀ (fuel : Nat) (ddo : DDO) (bm : BM) (st : DecSt) (done todo : List Node)
      (st' : DecSt) (out : List Node) (fin : SubsetEnd) (bm' : BM),
    bm.WF → decodeSubsetLoopB T edition s4max fuel ddo bm st done todo = .ok (st', out, fin, bm') → bm'.WF := by
  intro fuel
  induction fuel with
  | zero => intro ddo bm st done todo st' out fin bm' _ h; simp [decodeSubsetLoopB] at h
  | succ f ih =>
    intro ddo bm st done todo st' out fin bm' hw h
    cases todo with
    | nil =>
      simp only [decodeSubsetLoopB, Except.ok.injEq, Prod.mk.injEq] at h
      rw [← h.2.2.2]; exact hw
    | cons n rest =>
      unfold decodeSubsetLoopB at h
      have hw1 := applyTables2nodeB_WF T edition (fun _ => done.reverse ++ n :: rest) ddo bm n hw
      generalize applyTables2nodeB T edition (fun _ => done.reverse ++ n :: rest) ddo bm n = a at hw1 h
      obtain ⟨ddo1, bm1, n1, err⟩ := a
      simp only [] at hw1 h
      have fin1 : ∀ (a : DecSt) (b : List Node) (c : SubsetEnd),
          (Except.ok (a, b, c, bm1) : Except XErr (DecSt × List Node × SubsetEnd × BM)) = .ok (st', out, fin, bm') → bm'.WF := by
        intro a b c he
        simp only [Except.ok.injEq, Prod.mk.injEq] at he
        rw [← he.2.2.2]; exact hw1
      split at h
      · exact ih _ _ _ _ _ _ _ _ _ hw1 h
      · split at h
        · exact fin1 _ _ _ h
        · split at h
          · split at h
            · exact absurd h (by simp)
            · split at h
              · split at h
                · exact fin1 _ _ _ h
                · split at h
                  · exact fin1 _ _ _ h
                  · exact absurd h (by simp)
                  · split at h
                    · exact fin1 _ _ _ h
                    · split at h
                      · exact ih _ _ _ _ _ _ _ _ _ hw1 h
                      · exact absurd h (by simp)
              · exact ih _ _ _ _ _ _ _ _ _ hw1 h
          · exact ih _ _ _ _ _ _ _ _ _ hw1 h

/-! ### what a marker operator refers to -/

/-- `dp` after the evaluation: the positions, among the first `nb` bits, of the bits that are 0 -/
def zeroBits (nb : Nat) : List Node → Nat → List Nat
  | [], _ => []
  | n :: ns, i => if i ≥ nb then [] else (if n.ival = 0 then [i] else []) ++ zeroBits nb ns (i + 1)

theorem initBits_dp (nb : Nat) : ∀ (ns : List Node) (i : Nat) (d : DPBM),
    (initBits nb ns i d).dp = d.dp ++ zeroBits nb ns i ∧ (initBits nb ns i d).index = d.index := by
  intro ns
  induction ns with
  | nil => intro i d; simp [initBits, zeroBits]
  | cons n ns ih =>
    intro i d
    unfold initBits zeroBits
    split
    · simp
    · simp only []
      split
      · obtain ⟨a, b⟩ := ih (i + 1) { d with dp := d.dp ++ [i], dpOverflow := d.dpOverflow || decide (d.dp.length ≥ nb) }
        rw [a, b]; simp
      · obtain ⟨a, b⟩ := ih (i + 1) d
        rw [a, b]; simp

/-- the data elements the bit-map is about: the nodes in front of the first start operator that
are neither replication nor sequence descriptors, nor operators (2 05 YYY aside), nor left out by a
replication that occurs zero times — as 1-based positions -/
def dataPositions (bsq : List Node) : List Nat := (indexScan bsq 0 []).1

/-- the bits of the bit-map as the library reads them: the integer views of the nodes from the
first 0 31 031 behind the start operator on -/
def bitmapNodes (bsq : List Node) : List Node :=
  match startPos bsq with
  | none => []
  | some p => (bsq.drop p).dropWhile (fun n => n.desc ≠ 31031)

theorem zeroBits_length (nb : Nat) : ∀ (ns : List Node) (i : Nat), (zeroBits nb ns i).length ≤ nb - i := by
  intro ns
  induction ns with
  | nil => intro i; simp [zeroBits]
  | cons m ms ih =>
    intro i
    unfold zeroBits
    split
    · simp
    · have := ih (i + 1)
      split <;> simp <;> omega

/-- the evaluation of the bit-map over the sequence `bsq0`, from a fresh index -/
theorem initDpbm_eval (bsq0 : List Node) :
    (initDpbm { index := dataPositions bsq0 } bsq0 (startPos bsq0)).dp =
      zeroBits (dataPositions bsq0).length (bitmapNodes bsq0) 0 ∧
    (initDpbm { index := dataPositions bsq0 } bsq0 (startPos bsq0)).index = dataPositions bsq0 := by
  unfold initDpbm bitmapNodes
  cases hs : startPos bsq0 with
  | none => simp [zeroBits]
  | some p =>
    have := initBits_dp (dataPositions bsq0).length ((bsq0.drop p).dropWhile (fun n => n.desc ≠ 31031)) 0
      { index := dataPositions bsq0 }
    simp only [List.nil_append] at this
    exact this

/-- **a marker operator stands for the k-th element flagged present.**  Once the bit-map has been
evaluated over the sequence `bsq0` (`d.dp` = the zero bits among the first `|dataPositions|` bit-map
nodes, `initDpbm_eval`), the `k+1`-th replica of a marker operator (2 23 255, 2 24 255, 2 25 255,
2 32 255) is given the encoding (type, width, scale, reference value, associated-field width) of the
data element at `dataPositions[zeroBits[k]]`, and a value of that element's type — nothing else
changes, and the operator state is not touched. -/
theorem marker_refers (bsq0 : List Node) (bsq : Unit → List Node) (ddo : DDO) (r : Int) (d : DPBM) (n : Node) (k pos q : Nat) (cbm : Node)
    (hd : d.dp = zeroBits (dataPositions bsq0).length (bitmapNodes bsq0) 0 ∧ d.index = dataPositions bsq0)
    (hm : isMarkerDpbm n.desc = true) (hk : n.replRank = k + 1)
    (hz : (zeroBits (dataPositions bsq0).length (bitmapNodes bsq0) 0)[k]? = some pos)
    (hq1 : (dataPositions bsq0)[pos]? = some (q + 1)) (hq2 : (bsq ())[q]? = some cbm) :
    bmPre bsq ddo { dpbm := some d, remainDpi := r } n =
      .ret { dpbm := some d, remainDpi := r }
        { n with enc := cbm.enc, val := (markerVal cbm).1, afW := (markerVal cbm).2.1, afBits := (markerVal cbm).2.2 } := by
  have h2 := zeroBits_length (dataPositions bsq0).length (bitmapNodes bsq0) 0
  have h3 : k < (zeroBits (dataPositions bsq0).length (bitmapNodes bsq0) 0).length := by
    rcases Nat.lt_or_ge k (zeroBits (dataPositions bsq0).length (bitmapNodes bsq0) 0).length with h | h
    · exact h
    · rw [List.getElem?_eq_none h] at hz; exact absurd hz (by simp)
  have hcond : ¬ (k + 1 = 0 ∨ k + 1 > d.index.length) := by rw [hd.2]; omega
  unfold bmPre
  simp only [Option.isSome_some, hm, and_self, if_true]
  rw [hk]
  simp only [if_false, Nat.add_sub_cancel, hd.1, hz, hd.2, hq1, Nat.add_one_ne_zero, hq2]
  have hc2 : ¬ (False ∨ k + 1 > (dataPositions bsq0).length) := by
    intro hc; rcases hc with hc | hc
    · exact hc
    · omega
  rw [if_neg hc2]

/-! ### the template-level pass, the subset loop and the decoder's data part -/

theorem applyTablesAllB_quiet (T : Tables) (edition : Nat) :
    ∀ (ns : List Node) (ddo : DDO) (doneRev : List Node), quietDDO ddo → (∀ x ∈ ns, quietNode x = true) →
    applyTablesAllB T edition ddo {} doneRev ns =
      ((applyTablesAll T edition ddo ns).1, (applyTablesAll T edition ddo ns).2.1, {}, (applyTablesAll T edition ddo ns).2.2) ∧
    (∀ x ∈ (applyTablesAll T edition ddo ns).1, quietNode x = true) := by
  intro ns
  induction ns with
  | nil => intro ddo doneRev _ _; simp [applyTablesAllB, applyTablesAll]
  | cons n ns ih =>
    intro ddo doneRev hd hq
    have hn : quietNode n = true := hq n (by simp)
    have hrest : ∀ x ∈ ns, quietNode x = true := fun x hx => hq x (by simp [hx])
    unfold applyTablesAllB applyTablesAll
    rw [applyTables2nodeB_quiet T edition _ ddo n hd hn]
    have hd1 := applyTables2node_quietDDO T edition ddo n hd hn
    have hn1 := applyTables2node_quietNode T edition ddo n
    generalize applyTables2node T edition ddo n = a at hd1 hn1
    obtain ⟨ddo1, n1, err⟩ := a
    simp only [] at hd1 hn1 ⊢
    obtain ⟨e1, e2⟩ := ih ddo1 (n1 :: doneRev) hd1 hrest
    rw [e1]
    refine ⟨rfl, ?_⟩
    intro x hx
    simp only [List.mem_cons] at hx
    rcases hx with hx | hx
    · rw [hx, hn1]; exact hn
    · exact e2 x hx

theorem quietDDO_fresh (enforce : Enforce) : quietDDO { enforce := enforce } := by
  unfold quietDDO hasFlag DDO_BIT_MAP_FOLLOW; simp

theorem decodeUncompressedB_quiet (T : Tables) (edition : Nat) (enforce : Enforce) (fuel s4max : Nat)
    (bsq : List Node) (nbitsSeq : Int) (lenConst : Bool) (from_ to : Int) (hT : QClosed T)
    (hq : ∀ x ∈ bsq, quietNode x = true) :
    ∀ (k j : Nat) (st : DecSt) (acc : List (List Node)),
    decodeUncompressedB T edition enforce fuel s4max bsq nbitsSeq lenConst from_ to k j st acc =
      decodeUncompressed T edition enforce fuel s4max bsq nbitsSeq lenConst from_ to k j st acc := by
  intro k
  induction k with
  | zero => intro j st acc; simp [decodeUncompressedB, decodeUncompressed]
  | succ k ih =>
    intro j st acc
    unfold decodeUncompressedB decodeUncompressed
    rw [decodeSubsetLoopB_quiet T edition s4max hT fuel _ st [] bsq (quietDDO_fresh enforce) hq]
    cases decodeSubsetLoop T edition s4max fuel { enforce := enforce } st [] bsq with
    | error e => simp [liftB]
    | ok p =>
      obtain ⟨st1, nodes, fin⟩ := p
      simp only [liftB]
      cases fin with
      | complete => simp only []; exact ih _ _ _
      | shortRead => rfl
      | tooLong => rfl

/-- **the decoder's data part with the bit-map head is the plain one** for uncompressed data, as
long as the expanded template holds no 2 36 YYY operator and no replicated class 33 element -/
theorem decodeDataB_quiet_uncompressed (T : Tables) (fuel : Nat) (t : Template) (enforce : Enforce) (nsub : Nat)
    (s4max : Nat) (data : List Nat) (from0 to0 : Int) (hT : QClosed T)
    (hE : ∀ bsq0, expandSequence T fuel (OP_EXPAND_DELAY_REPL ||| OP_ZDRC_SKIP) t.gabarit = .ok bsq0 →
            ∀ x ∈ bsq0, quietNode x = true) :
    decodeDataB T fuel t enforce nsub false s4max data from0 to0 =
      decodeData T fuel t enforce nsub false s4max data from0 to0 := by
  unfold decodeDataB decodeData
  split
  · rfl
  · split
    · rfl
    · simp only []
      cases hx : expandSequence T fuel (OP_EXPAND_DELAY_REPL ||| OP_ZDRC_SKIP) t.gabarit with
      | error e => cases e <;> rfl
      | ok bsq0 =>
        have hq0 := hE bsq0 hx
        obtain ⟨e1, e2⟩ := applyTablesAllB_quiet T t.edition bsq0 { enforce := enforce } [] (quietDDO_fresh enforce) hq0
        simp only []
        rw [e1]
        generalize applyTablesAll T t.edition { enforce := enforce } bsq0 = a at e2
        obtain ⟨bsq, ddoF, err⟩ := a
        simp only [] at e2 ⊢
        split
        · rfl
        · simp only [Bool.not_false, if_true]
          rw [decodeUncompressedB_quiet T t.edition enforce fuel s4max bsq _ _ _ _ hT e2]
          rfl

/-! ### quiet nodes are closed under expansion when the tables are quiet -/

/-- no Table D sequence holds a 2 36 YYY operator or a class 33 element -/
def QuietTables (T : Tables) : Prop :=
  ∀ d e, T.fetchD d = some e → ∀ m ∈ e.members, quietDesc m = true

theorem quietNode_congr (a b : Node) (hd : a.desc = b.desc) (hf : a.flags.class33 = b.flags.class33) :
    quietNode a = quietNode b := by
  unfold quietNode; rw [hd, hf]

theorem quietNode_of (a b : Node) (hd : a.desc = b.desc) (hf : a.flags.class33 = b.flags.class33)
    (hb : quietNode b = true) : quietNode a = true := by
  rw [quietNode_congr a b hd hf]; exact hb

theorem dropPlaceholder_df (n : Node) : (dropPlaceholder n).desc = n.desc ∧ (dropPlaceholder n).flags = n.flags := by
  unfold dropPlaceholder; split <;> exact ⟨rfl, rfl⟩

theorem quiet_body_extra (body : List Node) (h : ∀ n ∈ body, quietNode n = true) :
    (match body with
      | [b] => decide (Desc.f b.desc = 0 ∧ Desc.x b.desc = 33)
      | _ => false) = false := by
  match body, h with
  | [], _ => rfl
  | [b], h =>
    have hb := h b (by simp)
    unfold quietNode quietDesc at hb
    simp only [Bool.and_eq_true, Bool.not_eq_true', Bool.and_eq_false_imp, decide_eq_true_eq, decide_eq_false_iff_not] at hb
    simp only [decide_eq_false_iff_not, not_and]
    exact hb.2.2
  | _ :: _ :: _, _ => rfl

theorem replicaOf_quiet (T : Tables) (body : List Node) (j : Nat) (h : ∀ n ∈ body, quietNode n = true) :
    ∀ x ∈ replicaOf T false body j, quietNode x = true := by
  intro x hx
  unfold replicaOf at hx
  simp only [List.mem_map] at hx
  obtain ⟨n, hn, rfl⟩ := hx
  refine quietNode_of _ n ?_ ?_ (h n hn)
  · simp only []
    rw [(dropPlaceholder_df _).1, resolveUnknown_desc]
  · simp only [Bool.or_false]
    rw [(dropPlaceholder_df _).2, resolveUnknown_flags]

theorem replicas_quiet (T : Tables) (body : List Node) (count : Nat) (h : ∀ n ∈ body, quietNode n = true) :
    ∀ x ∈ replicas T false body count, quietNode x = true := by
  intro x hx
  unfold replicas at hx
  simp only [List.mem_flatMap] at hx
  obtain ⟨j, _, hj⟩ := hx
  exact replicaOf_quiet T body j h x hj

theorem assignDescriptors_quiet (T : Tables) (flags : Nat) (body : List Node) (h : ∀ n ∈ body, quietNode n = true) :
    ∀ x ∈ assignDescriptors T flags body, quietNode x = true := by
  intro x hx
  unfold assignDescriptors at hx
  simp only [List.mem_map] at hx
  obtain ⟨n, hn, rfl⟩ := hx
  split
  · exact quietNode_of _ n rfl rfl (h n hn)
  · exact quietNode_of _ n (resolveUnknown_desc T n) (by rw [resolveUnknown_flags]) (h n hn)

theorem memberNodes_quiet (T : Tables) : ∀ (ms : List Nat) (prev : Option Nat) (ns : List Node),
    (∀ m ∈ ms, quietDesc m = true) → memberNodes T prev ms = some ns → ∀ x ∈ ns, quietNode x = true := by
  intro ms
  induction ms with
  | nil => intro prev ns _ h; simp [memberNodes] at h; subst h; simp
  | cons c cs ih =>
    intro prev ns hq h
    unfold memberNodes at h
    simp only [] at h
    split at h
    · cases hr : memberNodes T (some c) cs with
      | none => simp [hr] at h
      | some r =>
        simp only [hr, Option.map_some, Option.some.injEq] at h
        subst h
        intro x hx
        simp only [List.mem_cons] at hx
        rcases hx with hx | hx
        · subst hx
          unfold quietNode
          rw [mkNode_desc]
          have hf : (mkNode T c).flags.class33 = false := by
            unfold mkNode; split <;> rfl
          rw [hf]; simp; exact hq c (by simp)
        · exact ih (some c) r (fun m hm => hq m (by simp [hm])) hr x hx
    · exact absurd h (by simp)

theorem ite_err_ok {α : Type} (c : Bool) (x : Except XErr α) (v : α)
    (h : (if c = true then Except.error XErr.null else x) = .ok v) : x = .ok v := by
  cases c
  · simpa using h
  · simp at h

def QuietOK (T : Tables) (f : Nat) : Prop :=
  (∀ flags s4 ns r e, (∀ n ∈ ns, quietNode n = true) → expandList T f flags s4 ns = .ok (r, e) →
      ∀ x ∈ r, quietNode x = true) ∧
  (∀ flags s4 body count r e, (∀ n ∈ body, quietNode n = true) → replDescriptors T f flags s4 body count = .ok (r, e) →
      ∀ x ∈ r, quietNode x = true) ∧
  (∀ flags s4 d r e, expandDesc T f flags s4 d = .ok (r, e) → ∀ x ∈ r, quietNode x = true)

theorem mem_take_of {ns : List Node} (h : ∀ n ∈ ns, quietNode n = true) (k : Nat) : ∀ n ∈ ns.take k, quietNode n = true :=
  fun n hn => h n (List.mem_of_mem_take hn)
theorem mem_drop_of {ns : List Node} (h : ∀ n ∈ ns, quietNode n = true) (k : Nat) : ∀ n ∈ ns.drop k, quietNode n = true :=
  fun n hn => h n (List.mem_of_mem_drop hn)

theorem quiet_ok (T : Tables) (hT : QuietTables T) : ∀ f, QuietOK T f := by
  intro f
  induction f with
  | zero =>
    refine ⟨?_, ?_, ?_⟩
    · intro fl s4 ns r e _ h; simp [expandList] at h
    · intro fl s4 b c r e _ h; simp [replDescriptors] at h
    · intro fl s4 d r e h; simp [expandDesc] at h
  | succ f ih =>
    obtain ⟨ihL, ihR, ihD⟩ := ih
    refine ⟨?_, ?_, ?_⟩
    · intro flags s4 ns r e hq h
      cases ns with
      | nil => simp [expandList] at h; obtain ⟨rfl, _⟩ := h; simp
      | cons n rest =>
        have hn : quietNode n = true := hq n (by simp)
        have hrest : ∀ m ∈ rest, quietNode m = true := fun m hm => hq m (by simp [hm])
        have hdone : quietNode { n with flags := { n.flags with expanded := true, skipped := true } } = true :=
          quietNode_of _ n rfl rfl hn
        have hn' : ∀ c : Bool, quietNode { n with flags := { n.flags with class31 := c } } = true :=
          fun c => quietNode_of _ n rfl rfl hn
        have hc31q : ∀ (c31 : Node) (fl : Flags) (v : Val), quietNode c31 = true → fl.class33 = c31.flags.class33 →
            quietNode { c31 with flags := fl, val := v } = true :=
          fun c31 fl v hc hf => quietNode_of _ c31 rfl hf hc
        unfold expandList at h
        cases rest with
        | nil =>
          simp only [List.length_nil, List.take_nil, List.drop_nil] at h
          repeat' (first | contradiction | split at h)
          all_goals first
            | (obtain ⟨⟨r2, e2⟩, hr, h⟩ := except_map_ok _ _ _ h
               simp only [Prod.mk.injEq] at h
               obtain ⟨rfl, _⟩ := h
               have := ihL _ _ _ _ _ (fun m hm => by simp at hm) hr
               simp only [List.forall_mem_cons]
               repeat' constructor
               all_goals first | exact hn | exact hdone | exact hn' _ | exact this)
            | (obtain ⟨⟨sub, e1⟩, hs, h⟩ := except_bind_ok _ _ _ h
               obtain ⟨⟨r2, e2⟩, hr, h⟩ := except_bind_ok _ _ _ h
               simp only [pure, Except.pure, Except.ok.injEq, Prod.mk.injEq] at h
               obtain ⟨rfl, _⟩ := h
               have h1 := ihL _ _ _ _ _ (fun m hm => by simp at hm) hr
               simp only [List.cons_append, List.forall_mem_cons, List.forall_mem_append]
               repeat' constructor
               all_goals first | exact hdone | exact h1 | exact ihD _ _ _ _ _ hs
                               | exact ihR _ _ _ _ _ _ (fun m hm => by simp at hm) hs)
            | (simp only [Except.ok.injEq, Prod.mk.injEq] at h
               obtain ⟨rfl, _⟩ := h
               simp only [List.forall_mem_cons]
               repeat' constructor
               all_goals first | exact hdone | (intro x hx; simp at hx))
        | cons c31 rest' =>
          have hc31 : quietNode c31 = true := hrest c31 (by simp)
          have hrest' : ∀ m ∈ rest', quietNode m = true := fun m hm => hrest m (by simp [hm])
          simp only [] at h
          repeat' (first | contradiction | split at h)
          all_goals first
            | (obtain ⟨⟨r2, e2⟩, hr, h⟩ := except_map_ok _ _ _ h
               simp only [Prod.mk.injEq] at h
               obtain ⟨rfl, _⟩ := h
               have := ihL _ _ _ _ _ hrest hr
               first
                 | exact this
                 | (simp only [List.forall_mem_cons]
                    repeat' constructor
                    all_goals first | exact hn | exact hdone | exact hn' _ | exact this))
            | (obtain ⟨⟨sub, e1⟩, hs, h⟩ := except_bind_ok _ _ _ h
               obtain ⟨⟨r2, e2⟩, hr, h⟩ := except_bind_ok _ _ _ h
               simp only [pure, Except.pure, Except.ok.injEq, Prod.mk.injEq] at h
               obtain ⟨rfl, _⟩ := h
               simp only [List.cons_append, List.forall_mem_cons, List.forall_mem_append]
               repeat' constructor
               all_goals first
                 | exact hdone
                 | exact hc31q c31 _ _ hc31 rfl
                 | exact ihD _ _ _ _ _ hs
                 | exact ihL _ _ _ _ _ hrest hr
                 | exact ihR _ _ _ _ _ _ (mem_take_of hrest _) hs
                 | exact ihL _ _ _ _ _ (mem_drop_of hrest _) hr
                 | exact ihR _ _ _ _ _ _ (mem_take_of hrest' _) hs
                 | exact ihL _ _ _ _ _ (mem_drop_of hrest' _) hr)
            | (obtain ⟨⟨r2, e2⟩, hr, h⟩ := except_bind_ok _ _ _ h
               simp only [pure, Except.pure, Except.ok.injEq, Prod.mk.injEq] at h
               obtain ⟨rfl, _⟩ := h
               simp only [List.cons_append, List.forall_mem_cons, List.forall_mem_append]
               repeat' constructor
               all_goals first
                 | exact hn
                 | exact hc31q c31 _ _ hc31 rfl
                 | exact assignDescriptors_quiet T flags _ (mem_take_of hrest' _)
                 | exact ihL _ _ _ _ _ (mem_drop_of hrest' _) hr)
    · intro flags s4 body count r e hq h
      unfold replDescriptors at h
      rcases body with _ | ⟨b, _ | ⟨b2, tl⟩⟩
      · simp only [] at h
        exact ihL _ _ _ _ _ (replicas_quiet T [] count hq) (ite_err_ok _ _ _ h)
      · have hb : decide (Desc.f b.desc = 0 ∧ Desc.x b.desc = 33) = false := by
          have := quiet_body_extra [b] hq
          simpa using this
        simp only [hb] at h
        exact ihL _ _ _ _ _ (replicas_quiet T [b] count hq) (ite_err_ok _ _ _ h)
      · simp only [] at h
        exact ihL _ _ _ _ _ (replicas_quiet T (b :: b2 :: tl) count hq) (ite_err_ok _ _ _ h)
    · intro flags s4 d r e h
      unfold expandDesc at h
      split at h
      · exact absurd h (by simp)
      · cases hfd : T.fetchD d with
        | none => simp [hfd] at h
        | some ent =>
          simp only [hfd] at h
          split at h
          · exact absurd h (by simp)
          · split at h
            · exact absurd h (by simp)
            · cases hm : memberNodes T none ent.members with
              | none => simp [hm] at h
              | some nodes =>
                simp only [hm] at h
                exact ihL _ _ _ _ _ (memberNodes_quiet T _ _ _ (hT d ent hfd) hm) h

/-- the closure `decodeSubsetLoopB_quiet` asks for -/
theorem qclosed_of_quietTables (T : Tables) (hT : QuietTables T) : QClosed T := by
  intro f s4 n c31 rest lst e hq h
  have hn : quietNode n = true := hq n (by simp)
  have hc31 : quietNode c31 = true := hq c31 (by simp)
  have hrest : ∀ m ∈ rest, quietNode m = true := fun m hm => hq m (by simp [hm])
  unfold expandNodeDecode at h
  simp only [] at h
  repeat' (first | contradiction | split at h)
  all_goals (
    simp only [Except.ok.injEq, Prod.mk.injEq] at h
    obtain ⟨rfl, _⟩ := h
    simp only [List.cons_append, List.forall_mem_cons, List.forall_mem_append]
    repeat' constructor
    all_goals first
      | exact hn | exact quietNode_of _ n rfl rfl hn | exact hc31 | exact quietNode_of _ c31 rfl rfl hc31
      | exact hrest | exact mem_drop_of hrest _
      | exact assignDescriptors_quiet T _ _ (mem_take_of hrest _)
      | exact (quiet_ok T hT f).2.1 _ _ _ _ _ _ (mem_take_of hrest _) (by assumption))

/-- the expanded template is quiet when the template and the tables are -/
theorem expandSequence_quiet (T : Tables) (hT : QuietTables T) (fuel flags : Nat) (ns bsq0 : List Node)
    (hq : ∀ n ∈ ns, quietNode n = true) (h : expandSequence T fuel flags ns = .ok bsq0) :
    ∀ x ∈ bsq0, quietNode x = true := by
  unfold expandSequence at h
  split at h
  · rename_i r hr
    simp only [Except.ok.injEq] at h
    subst h
    exact (quiet_ok T hT fuel).1 _ _ _ _ _ hq hr
  · exact absurd h (by simp)
  · exact absurd h (by simp)

/-! ### the dataset-building side -/

theorem createDatasubsetB_quiet (T : Tables) (hT : QuietTables T) (fuel : Nat) (t : Template)
    (ht : ∀ n ∈ t.gabarit, quietNode n = true) : createDatasubsetB T fuel t = createDatasubset T fuel t := by
  unfold createDatasubsetB createDatasubset
  have key : ∀ ns, (∀ x ∈ ns, quietNode x = true) →
      (let (ns', _, _, err) := applyTablesAllB T t.edition { enforce := .strict } {} [] ns
       if afAbort ns' then (.error .abort : Except XErr (Subset × Bool)) else .ok ({ nodes := mkvalAll ns' }, err)) =
      (let (ns', _, err) := applyTablesAll T t.edition { enforce := .strict } ns
       if afAbort ns' then .error .abort else .ok ({ nodes := mkvalAll ns' }, err)) := by
    intro ns hq
    rw [(applyTablesAllB_quiet T t.edition ns { enforce := .strict } [] (quietDDO_fresh .strict) hq).1]
  split
  · cases hx : expandSequence T fuel (OP_EXPAND_DELAY_REPL ||| OP_ZDRC_SKIP) t.gabarit with
    | error e => rfl
    | ok ns => exact key ns (expandSequence_quiet T hT fuel _ t.gabarit ns ht hx)
  · exact key t.gabarit ht

theorem expandDatasubsetB_quiet (T : Tables) (hT : QuietTables T) (fuel : Nat) (t : Template) (s : Subset)
    (hs : ∀ n ∈ s.nodes, quietNode n = true) : expandDatasubsetB T fuel t s = expandDatasubset T fuel t s := by
  unfold expandDatasubsetB expandDatasubset
  cases hx : expandSequence T fuel (OP_EXPAND_DELAY_REPL ||| OP_ZDRC_SKIP) s.nodes with
  | error e => rfl
  | ok ns =>
    have hq := expandSequence_quiet T hT fuel _ s.nodes ns hs hx
    simp only []
    rw [(applyTablesAllB_quiet T t.edition ns { enforce := .strict } [] (quietDDO_fresh .strict) hq).1]

/-! ### what the index and the evaluated bits are -/


/-- FM 94 reading used by the library: the data entities a bit-map may refer to are the nodes in
front of the first operator that opens a bit-map section, leaving out what a zero-count replication
left out, and every replication, sequence and operator descriptor other than 2 05 YYY -/
def isDataEntity (n : Node) : Bool := !isDdForDpbm n

/-- positions (1-based, counted from `i+1`) of the data entities of `l` up to the first start operator -/
def dataPositionsSpec : List Node → Nat → List Nat
  | [], _ => []
  | n :: ns, i =>
    if isStartDpbm n.desc then []
    else (if isDataEntity n then [i + 1] else []) ++ dataPositionsSpec ns (i + 1)

theorem indexScan_spec : ∀ (l : List Node) (i : Nat) (acc : List Nat),
    (indexScan l i acc).1 = acc.reverse ++ dataPositionsSpec l i
  | [], i, acc => by simp [indexScan, dataPositionsSpec]
  | n :: ns, i, acc => by
    unfold indexScan dataPositionsSpec isDataEntity
    split
    · simp
    · split
      · rw [indexScan_spec ns (i + 1) acc]; simp [*]
      · rw [indexScan_spec ns (i + 1) ((i + 1) :: acc)]; simp [*]

theorem dataPositions_spec (bsq : List Node) : dataPositions bsq = dataPositionsSpec bsq 0 := by
  unfold dataPositions
  rw [indexScan_spec]; simp

/-- every indexed position names a data entity of the sequence, in front of the first start operator -/
theorem dataPositionsSpec_mem : ∀ (l : List Node) (i p : Nat), p ∈ dataPositionsSpec l i →
    i < p ∧ p ≤ i + l.length ∧ ∃ n, l[p - i - 1]? = some n ∧ isDataEntity n = true ∧
      ∀ k, k < p - i - 1 → ∀ m, l[k]? = some m → isStartDpbm m.desc = false
  | [], i, p, h => by simp [dataPositionsSpec] at h
  | n :: ns, i, p, h => by
    unfold dataPositionsSpec at h
    split at h
    · simp at h
    · rename_i hs
      have hs' : isStartDpbm n.desc = false := by simpa using hs
      simp only [List.mem_append] at h
      rcases h with h | h
      · split at h
        · rename_i hd
          simp only [List.mem_singleton] at h
          subst h
          refine ⟨by omega, by simp, n, by simp, hd, ?_⟩
          intro k hk; omega
        · simp at h
      · obtain ⟨a, b, m, c, d, e⟩ := dataPositionsSpec_mem ns (i + 1) p h
        refine ⟨by omega, by simp; omega, m, ?_, d, ?_⟩
        · have : p - i - 1 = (p - (i + 1) - 1) + 1 := by omega
          rw [this, List.getElem?_cons_succ]; exact c
        · intro k hk m' hm'
          cases k with
          | zero => simp at hm'; rw [← hm']; exact hs'
          | succ k' =>
            rw [List.getElem?_cons_succ] at hm'
            exact e k' (by omega) m' hm'



theorem mem_zeroBits (nb : Nat) : ∀ (ns : List Node) (i k : Nat),
    k ∈ zeroBits nb ns i ↔ i ≤ k ∧ k < nb ∧ ∃ n, ns[k - i]? = some n ∧ n.ival = 0
  | [], i, k => by simp [zeroBits]
  | n :: ns, i, k => by
    unfold zeroBits
    split
    · rename_i h
      simp only [List.not_mem_nil, false_iff, not_and]
      intro h1 h2; omega
    · rename_i h
      have hi : i < nb := by omega
      simp only [List.mem_append]
      rw [mem_zeroBits nb ns (i + 1) k]
      constructor
      · intro hh
        rcases hh with hh | hh
        · split at hh
          · rename_i hz
            simp only [List.mem_singleton] at hh
            subst hh
            exact ⟨Nat.le_refl _, hi, n, by simp, hz⟩
          · simp at hh
        · obtain ⟨a, b, m, c, d⟩ := hh
          refine ⟨by omega, b, m, ?_, d⟩
          have : k - i = (k - (i + 1)) + 1 := by omega
          rw [this, List.getElem?_cons_succ]; exact c
      · intro ⟨a, b, m, c, d⟩
        by_cases hk : k = i
        · subst hk
          simp only [Nat.sub_self, List.getElem?_cons_zero, Option.some.injEq] at c
          subst c
          left; simp [d]
        · right
          refine ⟨by omega, b, m, ?_, d⟩
          have : k - i = (k - (i + 1)) + 1 := by omega
          rw [this, List.getElem?_cons_succ] at c; exact c

/-- the zero bits come out in increasing order (so the k-th marker stands for the k-th element flagged present) -/
theorem zeroBits_sorted (nb : Nat) : ∀ (ns : List Node) (i : Nat), (zeroBits nb ns i).Pairwise (· < ·)
  | [], i => by simp [zeroBits]
  | n :: ns, i => by
    unfold zeroBits
    split
    · simp
    · have ih := zeroBits_sorted nb ns (i + 1)
      split
      · simp only [List.singleton_append, List.pairwise_cons]
        refine ⟨?_, ih⟩
        intro k hk
        have := (mem_zeroBits nb ns (i + 1) k).mp hk
        omega
      · simpa using ih


end Bufr
