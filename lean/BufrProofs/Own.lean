import BufrModel.Own
/-
  BufrProofs.Own — C16: the six primitive steps of the ownership heap preserve well-formedness, freeing
  every root newest-first empties the heap, and the live counts move by exactly what a step allocates and
  releases.
-/
namespace Bufr.Own

/-! ### small list facts -/

theorem find?_mem {α} (p : α → Bool) (l : List α) (a : α) (h : l.find? p = some a) : a ∈ l ∧ p a = true :=
  ⟨List.mem_of_find?_eq_some h, List.find?_some h⟩

theorem State.find?_spec (s : State) (i : Nat) (n : Node) (h : s.find? i = some n) : n ∈ s.nodes ∧ n.id = i := by
  obtain ⟨h1, h2⟩ := find?_mem _ _ _ h
  exact ⟨h1, by simpa using h2⟩

theorem State.slot?_spec (s : State) (k r : Nat) (h : s.slot? k = some r) : ∃ hd ∈ s.handles, hd.1 = k ∧ hd.2 = r := by
  unfold State.slot? at h
  cases hf : s.handles.find? (fun h => h.1 = k) with
  | none => simp [hf] at h
  | some hd =>
    simp [hf] at h
    obtain ⟨h1, h2⟩ := find?_mem _ _ _ hf
    exact ⟨hd, h1, by simpa using h2, h⟩

/-- distinct ids: two live nodes with the same id are the same node -/
theorem id_inj_list : ∀ (l : List Node), l.Pairwise (fun a b => b.id < a.id) →
    ∀ a ∈ l, ∀ b ∈ l, a.id = b.id → a = b := by
  intro l
  induction l with
  | nil => intro _ a ha; cases ha
  | cons x xs ih =>
    intro hp a ha b hb hab
    rw [List.pairwise_cons] at hp
    rcases List.mem_cons.mp ha with rfl | ha' <;> rcases List.mem_cons.mp hb with rfl | hb'
    · rfl
    · have := hp.1 b hb'; omega
    · have := hp.1 a ha'; omega
    · exact ih hp.2 a ha' b hb' hab

theorem id_inj {s : State} (h : idsOK s) {a b : Node} (ha : a ∈ s.nodes) (hb : b ∈ s.nodes) (hab : a.id = b.id) : a = b :=
  id_inj_list s.nodes h.1 a ha b hb hab

theorem wf_empty : WF {} := by
  refine ⟨⟨List.Pairwise.nil, ?_⟩, ?_, ?_, ⟨?_, List.Pairwise.nil⟩, ?_⟩ <;> intro n hn <;> cases hn

/-! ### the primitives preserve `WF` -/

theorem allocRoot_wf (s s' : State) (slot : Nat) (kind : Kind) (pay : Pay) (refs : List (Nat × Nat))
    (hw : WF s) (h : (Prim.allocRoot slot kind pay refs).exec s = some s') : WF s' := by
  obtain ⟨hid, hown, hroot, hhand, href⟩ := hw
  simp only [Prim.exec] at h
  split at h
  · next hg =>
    obtain ⟨hslot, hrefs⟩ := hg
    injection h with h; subst h
    rw [List.all_eq_true] at hslot hrefs
    refine ⟨⟨?_, ?_⟩, ?_, ?_, ⟨?_, ?_⟩, ?_⟩
    · simp only [List.pairwise_cons]
      exact ⟨fun b hb => hid.2 b hb, hid.1⟩
    · intro n hn
      rcases List.mem_cons.mp hn with rfl | hn'
      · simp
      · have := hid.2 n hn'; simp only; omega
    · intro n hn
      rcases List.mem_cons.mp hn with rfl | hn'
      · simp
      · have := hown n hn'
        cases ho : n.owner with
        | none => simpa [ho] using this
        | some o =>
          simp only [ho] at this ⊢
          obtain ⟨h1, p, hp, h2⟩ := this
          exact ⟨h1, p, List.mem_cons_of_mem _ hp, h2⟩
    · intro n hn
      rcases List.mem_cons.mp hn with rfl | hn'
      · exact ⟨(slot, s.next), List.mem_cons_self, rfl⟩
      · obtain ⟨hd, hh, he⟩ := hroot n hn'
        exact ⟨hd, List.mem_cons_of_mem _ hh, he⟩
    · intro hd hh
      rcases List.mem_cons.mp hh with rfl | hh'
      · exact ⟨_, List.mem_cons_self, rfl, rfl⟩
      · obtain ⟨n, hn, h1, h2⟩ := hhand.1 hd hh'
        exact ⟨n, List.mem_cons_of_mem _ hn, h1, h2⟩
    · simp only [List.pairwise_cons]
      refine ⟨?_, hhand.2⟩
      intro hd hh
      have h1 := hslot hd hh
      obtain ⟨n, hn, hn1, _⟩ := hhand.1 hd hh
      have := hid.2 n hn
      constructor
      · have h2 : hd.1 ≠ slot := by simpa using h1
        show slot ≠ hd.1
        exact fun e => h2 e.symm
      · show s.next ≠ hd.2
        omega
    · intro n hn r hr
      rcases List.mem_cons.mp hn with rfl | hn'
      · have := hrefs r hr
        unfold refOK at this
        rw [List.any_eq_true] at this
        obtain ⟨t, ht, hc⟩ := this
        simp only [Bool.decide_and, Bool.and_eq_true, decide_eq_true_eq] at hc
        exact ⟨t, List.mem_cons_of_mem _ ht, hc.1, hc.2⟩
      · obtain ⟨t, ht, h1, h2⟩ := href n hn' r hr
        exact ⟨t, List.mem_cons_of_mem _ ht, h1, h2⟩
  · cases h

theorem allocChild_wf (s s' : State) (owner role : Nat) (kind : Kind) (pay : Pay) (refs : List (Nat × Nat))
    (hw : WF s) (h : (Prim.allocChild owner role kind pay refs).exec s = some s') : WF s' := by
  obtain ⟨hid, hown, hroot, hhand, href⟩ := hw
  simp only [Prim.exec] at h
  split at h
  · cases h
  · next p hf =>
    obtain ⟨hp, hpid⟩ := s.find?_spec owner p hf
    split at h
    · next hrefs =>
      injection h with h; subst h
      rw [List.all_eq_true] at hrefs
      refine ⟨⟨?_, ?_⟩, ?_, ?_, ⟨?_, ?_⟩, ?_⟩
      · simp only [List.pairwise_cons]
        exact ⟨fun b hb => hid.2 b hb, hid.1⟩
      · intro n hn
        rcases List.mem_cons.mp hn with rfl | hn'
        · simp
        · have := hid.2 n hn'; simp only; omega
      · intro n hn
        rcases List.mem_cons.mp hn with rfl | hn'
        · simp only
          have := hid.2 p hp
          exact ⟨by omega, p, List.mem_cons_of_mem _ hp, hpid, rfl⟩
        · have := hown n hn'
          cases ho : n.owner with
          | none => simpa [ho] using this
          | some o =>
            simp only [ho] at this ⊢
            obtain ⟨h1, q, hq, h2⟩ := this
            exact ⟨h1, q, List.mem_cons_of_mem _ hq, h2⟩
      · intro n hn
        rcases List.mem_cons.mp hn with rfl | hn'
        · exact hroot p hp
        · exact hroot n hn'
      · intro hd hh
        obtain ⟨n, hn, h1, h2⟩ := hhand.1 hd hh
        exact ⟨n, List.mem_cons_of_mem _ hn, h1, h2⟩
      · exact hhand.2
      · intro n hn r hr
        rcases List.mem_cons.mp hn with rfl | hn'
        · have := hrefs r hr
          unfold refOK at this
          rw [List.any_eq_true] at this
          obtain ⟨t, ht, hc⟩ := this
          simp only [Bool.decide_and, Bool.and_eq_true, decide_eq_true_eq] at hc
          exact ⟨t, List.mem_cons_of_mem _ ht, hc.1, hc.2⟩
        · obtain ⟨t, ht, h1, h2⟩ := href n hn' r hr
          exact ⟨t, List.mem_cons_of_mem _ ht, h1, h2⟩
    · cases h

theorem noRefInto_spec (s : State) (r : Nat) (h : noRefInto s r = true) :
    ∀ n ∈ s.nodes, n.root ≠ r → ∀ x ∈ n.refs, ∀ t ∈ s.nodes, t.id = x.2 → t.root ≠ r := by
  unfold noRefInto at h
  rw [List.all_eq_true] at h
  intro n hn hnr x hx t ht htx
  have h1 := h n hn
  simp only [Bool.or_eq_true, decide_eq_true_eq, List.all_eq_true] at h1
  rcases h1 with h1 | h1
  · exact absurd h1 hnr
  · have h2 := h1 x hx t ht
    simp only [ne_eq] at h2
    rcases h2 with h2 | h2
    · exact absurd htx h2
    · exact h2

theorem freeRoot_wf (s s' : State) (slot : Nat)
    (hw : WF s) (h : (Prim.freeRoot slot).exec s = some s') : WF s' := by
  obtain ⟨hid, hown, hroot, hhand, href⟩ := hw
  simp only [Prim.exec] at h
  split at h
  · cases h
  · next r hs =>
    split at h
    · next hg =>
      injection h with h; subst h
      have hno := noRefInto_spec s r hg
      refine ⟨⟨?_, ?_⟩, ?_, ?_, ⟨?_, ?_⟩, ?_⟩
      · exact hid.1.filter _
      · intro n hn; exact hid.2 n (List.mem_filter.mp hn).1
      · intro n hn
        obtain ⟨hn1, hn2⟩ := List.mem_filter.mp hn
        simp only [ne_eq, decide_not, Bool.not_eq_eq_eq_not, Bool.not_true, decide_eq_false_iff_not] at hn2
        have := hown n hn1
        cases ho : n.owner with
        | none => simpa [ho] using this
        | some o =>
          simp only [ho] at this ⊢
          obtain ⟨h1, p, hp, h2, h3⟩ := this
          refine ⟨h1, p, List.mem_filter.mpr ⟨hp, ?_⟩, h2, h3⟩
          simp only [ne_eq, decide_not, Bool.not_eq_eq_eq_not, Bool.not_true, decide_eq_false_iff_not]
          rw [h3]; exact hn2
      · intro n hn
        obtain ⟨hn1, hn2⟩ := List.mem_filter.mp hn
        simp only [ne_eq, decide_not, Bool.not_eq_eq_eq_not, Bool.not_true, decide_eq_false_iff_not] at hn2
        obtain ⟨hd, hh, he⟩ := hroot n hn1
        refine ⟨hd, List.mem_filter.mpr ⟨hh, ?_⟩, he⟩
        simp only [ne_eq, decide_not, Bool.not_eq_eq_eq_not, Bool.not_true, decide_eq_false_iff_not]
        rw [he]; exact hn2
      · intro hd hh
        obtain ⟨hh1, hh2⟩ := List.mem_filter.mp hh
        simp only [ne_eq, decide_not, Bool.not_eq_eq_eq_not, Bool.not_true, decide_eq_false_iff_not] at hh2
        obtain ⟨n, hn, h1, h2⟩ := hhand.1 hd hh1
        refine ⟨n, List.mem_filter.mpr ⟨hn, ?_⟩, h1, h2⟩
        have := hown n hn
        simp only [h2] at this
        simp only [ne_eq, decide_not, Bool.not_eq_eq_eq_not, Bool.not_true, decide_eq_false_iff_not]
        rw [this, h1]; exact hh2
      · exact hhand.2.filter _
      · intro n hn x hx
        obtain ⟨hn1, hn2⟩ := List.mem_filter.mp hn
        simp only [ne_eq, decide_not, Bool.not_eq_eq_eq_not, Bool.not_true, decide_eq_false_iff_not] at hn2
        obtain ⟨t, ht, h1, h2⟩ := href n hn1 x hx
        refine ⟨t, List.mem_filter.mpr ⟨ht, ?_⟩, h1, h2⟩
        simp only [ne_eq, decide_not, Bool.not_eq_eq_eq_not, Bool.not_true, decide_eq_false_iff_not]
        exact hno n hn1 hn2 x hx t ht h1
    · cases h

theorem freeLeaf_wf (s s' : State) (i : Nat)
    (hw : WF s) (h : (Prim.freeLeaf i).exec s = some s') : WF s' := by
  obtain ⟨hid, hown, hroot, hhand, href⟩ := hw
  simp only [Prim.exec] at h
  split at h
  · next hg =>
    obtain ⟨hex, hnoown, hnoref⟩ := hg
    injection h with h; subst h
    rw [List.any_eq_true] at hex
    rw [List.all_eq_true] at hnoown hnoref
    obtain ⟨m, hm, hmc⟩ := hex
    simp only [ne_eq, Bool.decide_and, decide_not, Bool.and_eq_true, decide_eq_true_eq, Bool.not_eq_eq_eq_not,
      Bool.not_true, decide_eq_false_iff_not] at hmc
    have keep : ∀ n ∈ s.nodes, n.id ≠ i → n ∈ s.nodes.filter (fun n => decide (n.id ≠ i)) := by
      intro n hn hne
      exact List.mem_filter.mpr ⟨hn, by simpa using hne⟩
    refine ⟨⟨?_, ?_⟩, ?_, ?_, ⟨?_, ?_⟩, ?_⟩
    · exact hid.1.filter _
    · intro n hn; exact hid.2 n (List.mem_filter.mp hn).1
    · intro n hn
      obtain ⟨hn1, _⟩ := List.mem_filter.mp hn
      have := hown n hn1
      cases ho : n.owner with
      | none => simpa [ho] using this
      | some o =>
        simp only [ho] at this ⊢
        obtain ⟨h1, p, hp, h2, h3⟩ := this
        have hoi : o ≠ i := by
          have := hnoown n hn1
          simp only [ho, ne_eq, Option.some.injEq, decide_not, Bool.not_eq_eq_eq_not, Bool.not_true,
            decide_eq_false_iff_not] at this
          exact this
        exact ⟨h1, p, keep p hp (by rw [h2]; exact hoi), h2, h3⟩
    · intro n hn
      exact hroot n (List.mem_filter.mp hn).1
    · intro hd hh
      obtain ⟨n, hn, h1, h2⟩ := hhand.1 hd hh
      refine ⟨n, keep n hn ?_, h1, h2⟩
      intro hni
      have : n = m := id_inj hid hn hm (by rw [hni, hmc.1])
      subst this
      exact hmc.2 h2
    · exact hhand.2
    · intro n hn x hx
      obtain ⟨hn1, hn2⟩ := List.mem_filter.mp hn
      simp only [ne_eq, decide_not, Bool.not_eq_eq_eq_not, Bool.not_true, decide_eq_false_iff_not] at hn2
      obtain ⟨t, ht, h1, h2⟩ := href n hn1 x hx
      refine ⟨t, keep t ht ?_, h1, h2⟩
      have := hnoref n hn1
      simp only [ne_eq, decide_not, Bool.or_eq_true, decide_eq_true_eq, List.all_eq_true, Bool.not_eq_eq_eq_not,
        Bool.not_true, decide_eq_false_iff_not] at this
      rcases this with this | this
      · exact absurd this hn2
      · rw [h1]; exact this x hx
  · cases h

/-- rewriting nodes in place without touching id, owner or root keeps the heap well-formed as long as the
new references are good -/
theorem map_wf (s : State) (g : Node → Node) (hw : WF s)
    (hsk : ∀ n, (g n).id = n.id ∧ (g n).owner = n.owner ∧ (g n).root = n.root)
    (hrf : ∀ n ∈ s.nodes, ∀ r ∈ (g n).refs, ∃ t ∈ s.nodes, t.id = r.2 ∧ t.root ≤ n.root) :
    WF { s with nodes := s.nodes.map g } := by
  obtain ⟨hid, hown, hroot, hhand, href⟩ := hw
  refine ⟨⟨?_, ?_⟩, ?_, ?_, ⟨?_, ?_⟩, ?_⟩
  · simp only [List.pairwise_map]
    exact hid.1.imp (fun {a b} hab => by rw [(hsk a).1, (hsk b).1]; exact hab)
  · intro n hn
    obtain ⟨m, hm, rfl⟩ := List.mem_map.mp hn
    rw [(hsk m).1]; exact hid.2 m hm
  · intro n hn
    obtain ⟨m, hm, rfl⟩ := List.mem_map.mp hn
    have := hown m hm
    rw [(hsk m).2.1, (hsk m).2.2, (hsk m).1]
    cases ho : m.owner with
    | none => simpa [ho] using this
    | some o =>
      simp only [ho] at this ⊢
      obtain ⟨h1, p, hp, h2, h3⟩ := this
      exact ⟨h1, g p, List.mem_map.mpr ⟨p, hp, rfl⟩, by rw [(hsk p).1]; exact h2, by rw [(hsk p).2.2]; exact h3⟩
  · intro n hn
    obtain ⟨m, hm, rfl⟩ := List.mem_map.mp hn
    rw [(hsk m).2.2]; exact hroot m hm
  · intro hd hh
    obtain ⟨n, hn, h1, h2⟩ := hhand.1 hd hh
    exact ⟨g n, List.mem_map.mpr ⟨n, hn, rfl⟩, by rw [(hsk n).1]; exact h1, by rw [(hsk n).2.1]; exact h2⟩
  · exact hhand.2
  · intro n hn r hr
    obtain ⟨m, hm, rfl⟩ := List.mem_map.mp hn
    obtain ⟨t, ht, h1, h2⟩ := hrf m hm r hr
    exact ⟨g t, List.mem_map.mpr ⟨t, ht, rfl⟩, by rw [(hsk t).1]; exact h1, by rw [(hsk t).2.2, (hsk m).2.2]; exact h2⟩

theorem setPay_wf (s s' : State) (i : Nat) (pay : Pay)
    (hw : WF s) (h : (Prim.setPay i pay).exec s = some s') : WF s' := by
  simp only [Prim.exec] at h
  split at h
  · injection h with h; subst h
    apply map_wf s _ hw
    · intro n; split <;> simp
    · intro n hn r hr
      have : r ∈ n.refs := by
        split at hr <;> simpa using hr
      exact hw.2.2.2.2 n hn r this
  · cases h

theorem setExt_wf (s s' : State) (i : Nat) (ext : List (Nat × Nat))
    (hw : WF s) (h : (Prim.setExt i ext).exec s = some s') : WF s' := by
  simp only [Prim.exec] at h
  split at h
  · injection h with h; subst h
    apply map_wf s _ hw
    · intro n; split <;> simp
    · intro n hn r hr
      have : r ∈ n.refs := by
        split at hr <;> simpa using hr
      exact hw.2.2.2.2 n hn r this
  · cases h

theorem setRefs_wf (s s' : State) (i : Nat) (refs : List (Nat × Nat))
    (hw : WF s) (h : (Prim.setRefs i refs).exec s = some s') : WF s' := by
  simp only [Prim.exec] at h
  split at h
  · cases h
  · next n0 hf =>
    obtain ⟨hn0, hn0id⟩ := s.find?_spec i n0 hf
    split at h
    · next hrefs =>
      injection h with h; subst h
      rw [List.all_eq_true] at hrefs
      apply map_wf s _ hw
      · intro n; split <;> simp
      · intro n hn r hr
        split at hr
        · next hni =>
          have hnn : n = n0 := id_inj hw.1 hn hn0 (by rw [hni, hn0id])
          subst hnn
          have := hrefs r (by simpa using hr)
          unfold refOK at this
          rw [List.any_eq_true] at this
          obtain ⟨t, ht, hc⟩ := this
          simp only [Bool.decide_and, Bool.and_eq_true, decide_eq_true_eq] at hc
          exact ⟨t, ht, hc.1, hc.2⟩
        · exact hw.2.2.2.2 n hn r hr
    · cases h

theorem exec_wf (s s' : State) (p : Prim) (hw : WF s) (h : p.exec s = some s') : WF s' := by
  cases p with
  | allocRoot slot kind pay refs => exact allocRoot_wf s s' slot kind pay refs hw h
  | allocChild owner role kind pay refs => exact allocChild_wf s s' owner role kind pay refs hw h
  | freeRoot slot => exact freeRoot_wf s s' slot hw h
  | freeLeaf i => exact freeLeaf_wf s s' i hw h
  | setPay i pay => exact setPay_wf s s' i pay hw h
  | setRefs i refs => exact setRefs_wf s s' i refs hw h
  | setExt i ext => exact setExt_wf s s' i ext hw h

theorem execAll_wf : ∀ (ps : List Prim) (s s' : State), WF s → execAll s ps = some s' → WF s' := by
  intro ps
  induction ps with
  | nil => intro s s' hw h; simp [execAll] at h; subst h; exact hw
  | cons p ps ih =>
    intro s s' hw h
    unfold execAll at h
    split at h
    · cases h
    · next s1 h1 => exact ih s1 s' (exec_wf s s1 p hw h1) h

theorem step_wf (s s' : State) (op : Op) (hw : WF s) (h : step s op = some s') : WF s' := by
  unfold step at h
  split at h
  · cases h
  · next ps _ => exact execAll_wf ps s s' hw h

theorem run_wf : ∀ (ops : List Op) (s s' : State), WF s → run s ops = some s' → WF s' := by
  intro ops
  induction ops with
  | nil => intro s s' hw h; simp [run] at h; subst h; exact hw
  | cons op ops ih =>
    intro s s' hw h
    unfold run at h
    split at h
    · cases h
    · next s1 h1 => exact ih s1 s' (step_wf s s1 op hw h1) h

/-! ### freeing every root, newest first -/

theorem maxHandle_spec : ∀ (hs : List (Nat × Nat)), hs ≠ [] →
    ∃ h, maxHandle hs = some h ∧ h ∈ hs ∧ ∀ g ∈ hs, g.2 ≤ h.2 := by
  intro hs
  induction hs with
  | nil => intro h; exact absurd rfl h
  | cons x xs ih =>
    intro _
    unfold maxHandle
    by_cases hx : xs = []
    · subst hx
      simp only [maxHandle]
      exact ⟨x, rfl, List.mem_cons_self, fun g hg => by simp at hg; subst hg; exact Nat.le_refl _⟩
    · obtain ⟨m, hm, hmem, hmax⟩ := ih hx
      rw [hm]
      simp only
      by_cases hlt : m.2 < x.2
      · rw [if_pos hlt]
        refine ⟨x, rfl, List.mem_cons_self, ?_⟩
        intro g hg
        rcases List.mem_cons.mp hg with rfl | hg'
        · exact Nat.le_refl _
        · have := hmax g hg'; omega
      · rw [if_neg hlt]
        refine ⟨m, rfl, List.mem_cons_of_mem _ hmem, ?_⟩
        intro g hg
        rcases List.mem_cons.mp hg with rfl | hg'
        · omega
        · exact hmax g hg'

theorem maxHandle_none (hs : List (Nat × Nat)) (h : maxHandle hs = none) : hs = [] := by
  cases hs with
  | nil => rfl
  | cons x xs =>
    obtain ⟨m, hm, _⟩ := maxHandle_spec (x :: xs) (by simp)
    rw [h] at hm; cases hm

theorem find?_slot_unique : ∀ (hs : List (Nat × Nat)), hs.Pairwise (fun a b => a.1 ≠ b.1 ∧ a.2 ≠ b.2) →
    ∀ h ∈ hs, hs.find? (fun g => g.1 = h.1) = some h := by
  intro hs
  induction hs with
  | nil => intro _ h hh; cases hh
  | cons x xs ih =>
    intro hp h hh
    rw [List.pairwise_cons] at hp
    rcases List.mem_cons.mp hh with rfl | hh'
    · simp
    · have hne := (hp.1 h hh').1
      rw [List.find?_cons_of_neg (by simpa using hne)]
      exact ih hp.2 h hh'

theorem length_filter_lt {α} (p : α → Bool) : ∀ (l : List α) (a : α), a ∈ l → p a = false → (l.filter p).length < l.length := by
  intro l
  induction l with
  | nil => intro a ha; cases ha
  | cons x xs ih =>
    intro a ha hpa
    rcases List.mem_cons.mp ha with rfl | ha'
    · rw [List.filter_cons_of_neg (by simp [hpa])]
      have := List.length_filter_le p xs
      simp only [List.length_cons]; omega
    · have := ih a ha' hpa
      by_cases hx : p x = true
      · rw [List.filter_cons_of_pos hx]; simp only [List.length_cons]; omega
      · rw [List.filter_cons_of_neg hx]; simp only [List.length_cons]; omega

/-- the newest root can always be released: nothing older can point into it -/
theorem freeRoot_newest (s : State) (hw : WF s) (h : Nat × Nat) (hm : maxHandle s.handles = some h) :
    ∃ s', (Prim.freeRoot h.1).exec s = some s' ∧ WF s' ∧ s'.handles.length < s.handles.length := by
  obtain ⟨hid, hown, hroot, hhand, href⟩ := hw
  have hne : s.handles ≠ [] := by intro he; rw [he] at hm; simp [maxHandle] at hm
  obtain ⟨m, hm', hmem, hmax⟩ := maxHandle_spec s.handles hne
  rw [hm] at hm'; injection hm' with hm'; subst hm'
  have hslot : s.slot? h.1 = some h.2 := by
    unfold State.slot?
    rw [find?_slot_unique s.handles hhand.2 h hmem]; rfl
  have hno : noRefInto s h.2 = true := by
    unfold noRefInto
    rw [List.all_eq_true]
    intro n hn
    simp only [Bool.or_eq_true, decide_eq_true_eq, List.all_eq_true]
    by_cases hnr : n.root = h.2
    · exact Or.inl hnr
    · right
      intro x hx t ht
      simp only [ne_eq]
      by_cases htx : t.id = x.2
      · right
        intro htr
        obtain ⟨t', ht', h1, h2⟩ := href n hn x hx
        have : t' = t := id_inj hid ht' ht (by rw [h1, htx])
        subst this
        obtain ⟨g, hg, hge⟩ := hroot n hn
        have := hmax g hg
        omega
      · exact Or.inl htx
  have hex : (Prim.freeRoot h.1).exec s =
      some { s with nodes := s.nodes.filter (fun n => n.root ≠ h.2), handles := s.handles.filter (fun g => g.2 ≠ h.2) } := by
    simp only [Prim.exec, hslot, hno, if_true]
  refine ⟨_, hex, freeRoot_wf s _ h.1 ⟨hid, hown, hroot, hhand, href⟩ hex, ?_⟩
  simp only
  exact length_filter_lt _ s.handles h hmem (by simp)

theorem freeAllF_spec : ∀ (f : Nat) (s : State), WF s → s.handles.length ≤ f →
    ∃ s', freeAllF f s = some s' ∧ s'.nodes = [] ∧ s'.handles = [] := by
  intro f
  induction f with
  | zero =>
    intro s hw hl
    have hh : s.handles = [] := List.eq_nil_of_length_eq_zero (by omega)
    refine ⟨s, rfl, ?_, hh⟩
    cases hn : s.nodes with
    | nil => rfl
    | cons n ns =>
      obtain ⟨g, hg, _⟩ := hw.2.2.1 n (by rw [hn]; exact List.mem_cons_self)
      rw [hh] at hg; cases hg
  | succ f ih =>
    intro s hw hl
    unfold freeAllF
    cases hm : maxHandle s.handles with
    | none =>
      have hh := maxHandle_none _ hm
      refine ⟨s, rfl, ?_, hh⟩
      cases hn : s.nodes with
      | nil => rfl
      | cons n ns =>
        obtain ⟨g, hg, _⟩ := hw.2.2.1 n (by rw [hn]; exact List.mem_cons_self)
        rw [hh] at hg; cases hg
    | some h =>
      obtain ⟨s1, h1, hw1, hlt⟩ := freeRoot_newest s hw h hm
      simp only [h1]
      exact ih s1 hw1 (by omega)

theorem freeAll_spec (s : State) (hw : WF s) : ∃ s', freeAll s = some s' ∧ s'.nodes = [] ∧ s'.handles = [] :=
  freeAllF_spec s.handles.length s hw (Nat.le_refl _)

/-! ### counting -/

theorem countNodes_cons (n : Node) (ns : List Node) (k : Kind) : countNodes (n :: ns) k = n.count k + countNodes ns k := by
  simp [countNodes]

theorem countNodes_nil (k : Kind) : countNodes [] k = 0 := rfl

theorem countNodes_filter_split (p : Node → Bool) : ∀ (ns : List Node) (k : Kind),
    countNodes (ns.filter p) k + countNodes (ns.filter (fun n => !p n)) k = countNodes ns k := by
  intro ns k
  induction ns with
  | nil => rfl
  | cons n ns ih =>
    by_cases hp : p n = true
    · rw [List.filter_cons_of_pos hp, List.filter_cons_of_neg (by simp [hp]), countNodes_cons, countNodes_cons]; omega
    · rw [List.filter_cons_of_neg hp, List.filter_cons_of_pos (by simpa using hp), countNodes_cons, countNodes_cons]; omega

/-- what a primitive allocates, per kind, in state `s` -/
def Prim.allocated (s : State) (k : Kind) : Prim → Nat
  | .allocRoot _ kind pay _ => (if kind = k then 1 else 0) + pay.count k
  | .allocChild _ _ kind pay _ => (if kind = k then 1 else 0) + pay.count k
  | .setPay i pay => (s.nodes.filter (fun n => n.id = i)).length * pay.count k
  | _ => 0

/-- what a primitive releases, per kind, in state `s` -/
def Prim.freed (s : State) (k : Kind) : Prim → Nat
  | .freeRoot slot => match s.slot? slot with
    | some r => countNodes (s.nodes.filter (fun n => n.root = r)) k
    | none => 0
  | .freeLeaf i => countNodes (s.nodes.filter (fun n => n.id = i)) k
  | .setPay i _ => ((s.nodes.filter (fun n => n.id = i)).map (fun n => n.pay.count k)).sum
  | _ => 0

theorem countNodes_map_same (g : Node → Node) (k : Kind) (h : ∀ n, (g n).count k = n.count k) :
    ∀ ns : List Node, countNodes (ns.map g) k = countNodes ns k := by
  intro ns
  induction ns with
  | nil => rfl
  | cons n ns ih => rw [List.map_cons, countNodes_cons, countNodes_cons, ih, h]

theorem countNodes_setPay (i : Nat) (pay : Pay) (k : Kind) : ∀ ns : List Node,
    countNodes (ns.map fun n => if n.id = i then { n with pay := pay } else n) k +
      ((ns.filter (fun n => n.id = i)).map (fun n => n.pay.count k)).sum =
    countNodes ns k + (ns.filter (fun n => n.id = i)).length * pay.count k := by
  intro ns
  induction ns with
  | nil => simp [countNodes]
  | cons n ns ih =>
    rw [List.map_cons, countNodes_cons, countNodes_cons]
    by_cases hn : n.id = i
    · rw [List.filter_cons_of_pos (by simpa using hn), if_pos hn]
      simp only [List.map_cons, List.sum_cons, List.length_cons, Node.count]
      rw [Nat.succ_mul]
      omega
    · rw [List.filter_cons_of_neg (by simpa using hn), if_neg hn]
      omega

/-- every primitive moves the live counts by exactly what it allocates and releases -/
theorem exec_count (s s' : State) (p : Prim) (k : Kind) (h : p.exec s = some s') :
    s'.count k + p.freed s k = s.count k + p.allocated s k := by
  cases p with
  | allocRoot slot kind pay refs =>
    simp only [Prim.exec] at h
    split at h
    · injection h with h; subst h
      simp [State.count, countNodes_cons, Node.count, Prim.freed, Prim.allocated]; omega
    · cases h
  | allocChild owner role kind pay refs =>
    simp only [Prim.exec] at h
    split at h
    · cases h
    · split at h
      · injection h with h; subst h
        simp [State.count, countNodes_cons, Node.count, Prim.freed, Prim.allocated]; omega
      · cases h
  | freeRoot slot =>
    simp only [Prim.exec] at h
    split at h
    · cases h
    · next r hs =>
      split at h
      · injection h with h; subst h
        simp only [State.count, Prim.freed, Prim.allocated, hs]
        have := countNodes_filter_split (fun n => decide (n.root = r)) s.nodes k
        have he : (s.nodes.filter (fun n => !decide (n.root = r))) = s.nodes.filter (fun n => decide (n.root ≠ r)) := by
          congr 1; funext n; simp
        rw [he] at this
        omega
      · cases h
  | freeLeaf i =>
    simp only [Prim.exec] at h
    split at h
    · injection h with h; subst h
      simp only [State.count, Prim.freed, Prim.allocated]
      have := countNodes_filter_split (fun n => decide (n.id = i)) s.nodes k
      have he : (s.nodes.filter (fun n => !decide (n.id = i))) = s.nodes.filter (fun n => decide (n.id ≠ i)) := by
        congr 1; funext n; simp
      rw [he] at this
      omega
    · cases h
  | setPay i pay =>
    simp only [Prim.exec] at h
    split at h
    · injection h with h; subst h
      simp only [State.count, Prim.freed, Prim.allocated]
      exact countNodes_setPay i pay k s.nodes
    · cases h
  | setRefs i refs =>
    simp only [Prim.exec] at h
    split at h
    · cases h
    · split at h
      · injection h with h; subst h
        simp only [State.count, Prim.freed, Prim.allocated, Nat.add_zero]
        apply countNodes_map_same
        intro n; split <;> rfl
      · cases h
  | setExt i ext =>
    simp only [Prim.exec] at h
    split at h
    · injection h with h; subst h
      simp only [State.count, Prim.freed, Prim.allocated, Nat.add_zero]
      apply countNodes_map_same
      intro n; split <;> rfl
    · cases h

/-- allocations and releases of a plan, summed along its execution -/
def planAllocated (k : Kind) : State → List Prim → Nat
  | _, [] => 0
  | s, p :: ps => p.allocated s k + (match p.exec s with | some s' => planAllocated k s' ps | none => 0)
def planFreed (k : Kind) : State → List Prim → Nat
  | _, [] => 0
  | s, p :: ps => p.freed s k + (match p.exec s with | some s' => planFreed k s' ps | none => 0)

theorem execAll_count (k : Kind) : ∀ (ps : List Prim) (s s' : State), execAll s ps = some s' →
    s'.count k + planFreed k s ps = s.count k + planAllocated k s ps := by
  intro ps
  induction ps with
  | nil => intro s s' h; simp [execAll] at h; subst h; simp [planFreed, planAllocated]
  | cons p ps ih =>
    intro s s' h
    unfold execAll at h
    split at h
    · cases h
    · next s1 h1 =>
      have e1 := exec_count s s1 p k h1
      have e2 := ih s1 s' h
      simp only [planFreed, planAllocated, h1]
      omega

theorem count_of_nodes_nil (s : State) (h : s.nodes = []) (k : Kind) : s.count k = 0 := by
  simp [State.count, h, countNodes]

end Bufr.Own
