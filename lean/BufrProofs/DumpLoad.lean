import BufrProofs.Dump
/-
  C13, dataset level: the header block, one dataset (`bufr_read_dataset_dump`), several datasets
  one after the other (`bufr_genmsgs_from_dump`), on the text `Dump.print` writes.
-/
namespace Bufr.Dump
open Bufr Bufr.SF Bufr.Printf

/-! ### the header -/

theorem B_dsl11 : B "DATASUBSET " = [68, 65, 84, 65, 83, 85, 66, 83, 69, 84, 32] := by decide

/-- the `DATASUBSET` line ends the header: it is not a key, and it is left in the stream -/
theorem loadHeader_stop (f : Nat) (h : Hdr) (i n : Nat) (hi : i < 10 ^ 9) (hn : n < 10 ^ 9) (s : List Nat) :
    loadHeader (f + 1) h (B "DATASUBSET " ++ decNat i ++ B " : " ++ decNat n ++ B " codes\n" ++ s) =
      (h, B "DATASUBSET " ++ decNat i ++ B " : " ++ decNat n ++ B " codes\n" ++ s, true) := by
  set b := B "DATASUBSET " ++ (decNat i ++ [32, 58, 32] ++ decNat n ++ [32, 99, 111, 100, 101, 115]) with hbd
  have htxt : B "DATASUBSET " ++ decNat i ++ B " : " ++ decNat n ++ B " codes\n" ++ s = b ++ 10 :: s := by
    rw [B_col, B_codes, hbd]; simp
  have hdig : ∀ (k : Nat), ∀ x ∈ decNat k, x ≠ 10 ∧ x ≠ 0 := by
    intro k x hx; have := decNat_digits k x hx; unfold isDigit at this; simp at this; omega
  have hb : ∀ x ∈ b, x ≠ 10 ∧ x ≠ 0 := by
    intro x hx
    rw [hbd, B_dsl11] at hx
    simp only [List.mem_append, List.mem_cons] at hx
    rcases hx with h | h
    · simp at h; omega
    · rcases h with ((h | h) | h) | h
      · exact hdig i x h
      · simp at h; omega
      · exact hdig n x h
      · simp at h; omega
  have hlen : b.length + 1 ≤ 2047 := by
    have h1 := decNat_length i 9 (by norm_num) hi
    have h2 := decNat_length n 9 (by norm_num) hn
    rw [hbd, B_dsl11]; simp; omega
  rw [htxt, loadHeader, fgets_line b s (fun x hx => (hb x hx).1) hlen]
  have hnn : ∀ x ∈ b ++ [10], x ≠ 0 := by
    intro x hx; rcases List.mem_append.mp hx with h | h
    · exact (hb x h).2
    · simp at h; subst h; decide
  have hcs : cstr (b ++ [10]) = b ++ [10] := cstr_of_no_nul _ hnn
  simp only [hcs]
  have hh : (b ++ [10]).head? = some 68 := by rw [hbd, B_dsl11]; rfl
  have h1 : ¬ ((b ++ [10]).head? = some 35 ∨ (b ++ [10]).head? = some 42) := by rw [hh]; simp
  rw [if_neg h1]
  have hkey : hdrLine h (b ++ [10]) = none := by
    unfold hdrLine
    have : b ++ [10] = B "DATASUBSET " ++ ((decNat i ++ [32, 58, 32] ++ decNat n ++ [32, 99, 111, 100, 101, 115]) ++ [10]) := by
      rw [hbd]; simp
    rw [this, findKey_lit _ _ (by decide)]
    have : (hkeys.find? fun p => swLit (B p.2) (B "DATASUBSET ") = some true) = none := by decide
    rw [this]; rfl
  rw [hkey]
  simp only
  have hun : unread (b ++ [10]) s = b ++ 10 :: s := by
    unfold unread; rw [hcs]; simp
  rw [hun]
  have hsw : startsWith (B "DATASUBSE") (b ++ [10]) = true := by
    have : b ++ [10] = B "DATASUBSE" ++ ([84, 32] ++ (decNat i ++ [32, 58, 32] ++ decNat n ++ [32, 99, 111, 100, 101, 115]) ++ [10]) := by
      rw [hbd, B_dsl11, show B "DATASUBSE" = [68, 65, 84, 65, 83, 85, 66, 83, 69] by decide]; simp
    rw [this]; exact startsWith_self_append _ _
  rw [hsw]

theorem B_hs1 : B "HEADER_STRING=\"" = B "HEADER_STRING" ++ [61, 34] := by decide
theorem B_hs2 : B "\"\n" = [34, 10] := by decide
theorem B_hs13 : (B "HEADER_STRING").length = 13 := by decide

/-- the `HEADER_STRING="…"` line: everything between the first and the last quote -/
theorem loadHeader_hstr (f : Nat) (h : Hdr) (cs s : List Nat) (hcs : ∀ x ∈ cs, x ≠ 10 ∧ x ≠ 0)
    (hl : cs.length ≤ 2000) :
    loadHeader (f + 1) h (B "HEADER_STRING=\"" ++ cs ++ B "\"\n" ++ s) =
      loadHeader f { h with headerString := some cs } s := by
  set b := B "HEADER_STRING" ++ 61 :: 34 :: (cs ++ [34]) with hbd
  have htxt : B "HEADER_STRING=\"" ++ cs ++ B "\"\n" ++ s = b ++ 10 :: s := by
    rw [B_hs1, B_hs2, hbd]; simp
  have hb : ∀ x ∈ b, x ≠ 10 ∧ x ≠ 0 := by
    intro x hx
    rw [hbd] at hx
    rcases List.mem_append.mp hx with h1 | h1
    · exact keyLit_headerString.chars x h1
    · simp only [List.mem_cons, List.mem_append] at h1
      rcases h1 with rfl | rfl | h1 | h1
      · decide
      · decide
      · exact hcs x h1
      · simp at h1; subst h1; decide
  have hlen : b.length + 1 ≤ 2047 := by
    rw [hbd]; simp [B_hs13]; omega
  rw [htxt, loadHeader, fgets_line b s (fun x hx => (hb x hx).1) hlen]
  have hnn : ∀ x ∈ b ++ [10], x ≠ 0 := by
    intro x hx; rcases List.mem_append.mp hx with h1 | h1
    · exact (hb x h1).2
    · simp at h1; subst h1; decide
  simp only [cstr_of_no_nul _ hnn]
  have hh : (b ++ [10]).head? = some 72 := by
    rw [hbd, show B "HEADER_STRING" = [72, 69, 65, 68, 69, 82, 95, 83, 84, 82, 73, 78, 71] by decide]; rfl
  have h1 : ¬ ((b ++ [10]).head? = some 35 ∨ (b ++ [10]).head? = some 42) := by rw [hh]; simp
  rw [if_neg h1]
  have hform : b ++ [10] = B "HEADER_STRING" ++ 61 :: (34 :: (cs ++ [34, 10])) := by rw [hbd]; simp
  rw [hform]
  unfold hdrLine
  rw [findKey_key .headerString "HEADER_STRING" keyLit_headerString]
  simp only [Option.map_some, applyKey]
  -- the string between the quotes
  have hstr : hdrString (B "HEADER_STRING" ++ 61 :: (34 :: (cs ++ [34, 10]))) = some cs := by
    unfold hdrString
    have hd : (B "HEADER_STRING" ++ 61 :: (34 :: (cs ++ [34, 10]))).drop 13 = 61 :: 34 :: (cs ++ [34, 10]) := by
      rw [← B_hs13]; simp
    rw [hd]
    have htw : (61 :: 34 :: (cs ++ [34, 10])).takeWhile (· ≠ 34) = [61] := by simp [List.takeWhile]
    simp only [htw, List.length_singleton]
    have hlt : 1 < (61 :: 34 :: (cs ++ [34, 10])).length := by simp
    rw [if_pos hlt]
    have hafter : (61 :: 34 :: (cs ++ [34, 10])).drop (1 + 1) = cs ++ [34, 10] := by simp
    simp only [hafter]
    have hrev : (cs ++ [34, 10]).reverse.dropWhile (· ≠ 34) = 34 :: cs.reverse := by
      simp [List.dropWhile]
    simp only [hrev, List.length_cons, List.length_reverse]
    rw [if_neg (by omega)]
    simp
  rw [hstr]

/-- the header the loader holds after reading the block `printHeader ed h` into a dataset whose
header was `h0` (the sub-centre is only written for edition 3 and later) -/
def hdrLoaded (ed : Nat) (h0 h : Hdr) : Hdr :=
  { h with subCentre := if ed ≥ 3 then h.subCentre else h0.subCentre,
           headerString := match h.headerString with | some s => some (cstr s) | none => h0.headerString,
           s1data := h0.s1data }

/-- header fields in the range of their C type; the data flag non-negative -/
structure HdrOK (h : Hdr) : Prop where
  mt : -32768 ≤ h.masterTable ∧ h.masterTable ≤ 32767
  ce : -(2:Int) ^ 31 ≤ h.centre ∧ h.centre < 2 ^ 31
  sc : -32768 ≤ h.subCentre ∧ h.subCentre ≤ 32767
  us : -32768 ≤ h.updSeq ∧ h.updSeq ≤ 32767
  ty : -32768 ≤ h.msgType ∧ h.msgType ≤ 32767
  is : -32768 ≤ h.interSub ∧ h.interSub ≤ 32767
  ls : -32768 ≤ h.localSub ∧ h.localSub ≤ 32767
  mv : -32768 ≤ h.masterVer ∧ h.masterVer ≤ 32767
  lv : -32768 ≤ h.localVer ∧ h.localVer ≤ 32767
  ye : -32768 ≤ h.year ∧ h.year ≤ 32767
  mo : -32768 ≤ h.month ∧ h.month ≤ 32767
  da : -32768 ≤ h.day ∧ h.day ≤ 32767
  ho : -32768 ≤ h.hour ∧ h.hour ≤ 32767
  mi : -32768 ≤ h.minute ∧ h.minute ≤ 32767
  se : -32768 ≤ h.second ∧ h.second ≤ 32767
  fl : 0 ≤ h.dataFlag ∧ h.dataFlag < 2 ^ 31
  hs : ∀ s, h.headerString = some s → (∀ x ∈ cstr s, x ≠ 10) ∧ (cstr s).length ≤ 2000

theorem wrapI16_id (v : Int) (h : -32768 ≤ v ∧ v ≤ 32767) : wrapI16 v = v := by
  unfold wrapI16
  simp only
  split_ifs <;> omega

theorem testBit_64 (i : Nat) : (64:Nat).testBit i = decide (i = 6) := by
  have h64 : (64:Nat) = 2 ^ 6 := by norm_num
  rw [h64, Nat.testBit_two_pow]
  by_cases h : i = 6 <;> simp [h, eq_comm]

theorem orI32_64_id (v : Int) (h0 : 0 ≤ v) (h1 : v < 2 ^ 31) (hb : wrapU32 v &&& 64 ≠ 0) : orI32 v 64 = v := by
  unfold orI32
  have hw : wrapU32 v = v.toNat := wrapU32_of_range v h0 (by omega)
  rw [hw] at hb ⊢
  have hbit : v.toNat.testBit 6 = true := by
    by_contra hc
    apply hb
    apply Nat.eq_of_testBit_eq
    intro i
    rw [Nat.testBit_and, testBit_64]
    by_cases hi : i = 6
    · subst hi; simp at hc; simp [hc]
    · simp [hi]
  have hor : v.toNat ||| 64 = v.toNat := by
    apply Nat.eq_of_testBit_eq
    intro i
    rw [Nat.testBit_or, testBit_64]
    by_cases hi : i = 6
    · subst hi; simp [hbit]
    · simp [hi]
  rw [hor]
  have : ((v.toNat : Nat) : Int) = v := Int.toNat_of_nonneg h0
  rw [this]
  exact wrapI32_of_range v (by omega) h1

/-- `loadHeader_kv` for any fuel ≥ 1 -/
theorem loadHeader_kv' (k : HKey) (K : String) (hK : KeyLit k K) (v : Int) (hv : v.natAbs < 10 ^ 10)
    (F : Nat) (hF : 1 ≤ F) (h : Hdr) (s : List Nat) :
    loadHeader F h (kv K v ++ s) = loadHeader (F - 1) (applyKey h k K.length (B K ++ 61 :: (fmtInt v ++ [10]))) s := by
  obtain ⟨f, rfl⟩ : ∃ f, F = f + 1 := ⟨F - 1, by omega⟩
  exact loadHeader_kv k K hK v hv f h s

theorem hdrInt_key (k : HKey) (K : String) (hK : KeyLit k K) (v : Int) (h0 : -(2:Int) ^ 31 ≤ v) (h1 : v < 2 ^ 31) :
    hdrInt (B K ++ 61 :: (fmtInt v ++ [10])) K.length = some v := by
  rw [← hK.blen]; exact hdrInt_kv (B K) v h0 h1

theorem applyKey_masterTable (h : Hdr) (v : Int) (h0 : -(2:Int) ^ 31 ≤ v) (h1 : v < 2 ^ 31) :
    applyKey h .masterTable "BUFR_MASTER_TABLE".length (B "BUFR_MASTER_TABLE" ++ 61 :: (fmtInt v ++ [10])) = { h with masterTable := wrapI16 v } := by
  simp only [applyKey, hdrInt_key .masterTable "BUFR_MASTER_TABLE" keyLit_masterTable v h0 h1]
theorem applyKey_centre (h : Hdr) (v : Int) (h0 : -(2:Int) ^ 31 ≤ v) (h1 : v < 2 ^ 31) :
    applyKey h .centre "ORIG_CENTER".length (B "ORIG_CENTER" ++ 61 :: (fmtInt v ++ [10])) = { h with centre := v } := by
  simp only [applyKey, hdrInt_key .centre "ORIG_CENTER" keyLit_centre v h0 h1]
theorem applyKey_subCentre (h : Hdr) (v : Int) (h0 : -(2:Int) ^ 31 ≤ v) (h1 : v < 2 ^ 31) :
    applyKey h .subCentre "ORIG_SUB_CENTER".length (B "ORIG_SUB_CENTER" ++ 61 :: (fmtInt v ++ [10])) = { h with subCentre := wrapI16 v } := by
  simp only [applyKey, hdrInt_key .subCentre "ORIG_SUB_CENTER" keyLit_subCentre v h0 h1]
theorem applyKey_updSeq (h : Hdr) (v : Int) (h0 : -(2:Int) ^ 31 ≤ v) (h1 : v < 2 ^ 31) :
    applyKey h .updSeq "UPDATE_SEQUENCE".length (B "UPDATE_SEQUENCE" ++ 61 :: (fmtInt v ++ [10])) = { h with updSeq := wrapI16 v } := by
  simp only [applyKey, hdrInt_key .updSeq "UPDATE_SEQUENCE" keyLit_updSeq v h0 h1]
theorem applyKey_msgType (h : Hdr) (v : Int) (h0 : -(2:Int) ^ 31 ≤ v) (h1 : v < 2 ^ 31) :
    applyKey h .msgType "DATA_CATEGORY".length (B "DATA_CATEGORY" ++ 61 :: (fmtInt v ++ [10])) = { h with msgType := wrapI16 v } := by
  simp only [applyKey, hdrInt_key .msgType "DATA_CATEGORY" keyLit_msgType v h0 h1]
theorem applyKey_interSub (h : Hdr) (v : Int) (h0 : -(2:Int) ^ 31 ≤ v) (h1 : v < 2 ^ 31) :
    applyKey h .interSub "INTERN_SUB_CATEGORY".length (B "INTERN_SUB_CATEGORY" ++ 61 :: (fmtInt v ++ [10])) = { h with interSub := wrapI16 v } := by
  simp only [applyKey, hdrInt_key .interSub "INTERN_SUB_CATEGORY" keyLit_interSub v h0 h1]
theorem applyKey_localSub (h : Hdr) (v : Int) (h0 : -(2:Int) ^ 31 ≤ v) (h1 : v < 2 ^ 31) :
    applyKey h .localSub "LOCAL_SUB_CATEGORY".length (B "LOCAL_SUB_CATEGORY" ++ 61 :: (fmtInt v ++ [10])) = { h with localSub := wrapI16 v } := by
  simp only [applyKey, hdrInt_key .localSub "LOCAL_SUB_CATEGORY" keyLit_localSub v h0 h1]
theorem applyKey_masterVer (h : Hdr) (v : Int) (h0 : -(2:Int) ^ 31 ≤ v) (h1 : v < 2 ^ 31) :
    applyKey h .masterVer "MASTER_TABLE_VERSION".length (B "MASTER_TABLE_VERSION" ++ 61 :: (fmtInt v ++ [10])) = { h with masterVer := wrapI16 v } := by
  simp only [applyKey, hdrInt_key .masterVer "MASTER_TABLE_VERSION" keyLit_masterVer v h0 h1]
theorem applyKey_localVer (h : Hdr) (v : Int) (h0 : -(2:Int) ^ 31 ≤ v) (h1 : v < 2 ^ 31) :
    applyKey h .localVer "LOCAL_TABLE_VERSION".length (B "LOCAL_TABLE_VERSION" ++ 61 :: (fmtInt v ++ [10])) = { h with localVer := wrapI16 v } := by
  simp only [applyKey, hdrInt_key .localVer "LOCAL_TABLE_VERSION" keyLit_localVer v h0 h1]
theorem applyKey_year (h : Hdr) (v : Int) (h0 : -(2:Int) ^ 31 ≤ v) (h1 : v < 2 ^ 31) :
    applyKey h .year "YEAR".length (B "YEAR" ++ 61 :: (fmtInt v ++ [10])) = { h with year := wrapI16 v } := by
  simp only [applyKey, hdrInt_key .year "YEAR" keyLit_year v h0 h1]
theorem applyKey_month (h : Hdr) (v : Int) (h0 : -(2:Int) ^ 31 ≤ v) (h1 : v < 2 ^ 31) :
    applyKey h .month "MONTH".length (B "MONTH" ++ 61 :: (fmtInt v ++ [10])) = { h with month := wrapI16 v } := by
  simp only [applyKey, hdrInt_key .month "MONTH" keyLit_month v h0 h1]
theorem applyKey_day (h : Hdr) (v : Int) (h0 : -(2:Int) ^ 31 ≤ v) (h1 : v < 2 ^ 31) :
    applyKey h .day "DAY".length (B "DAY" ++ 61 :: (fmtInt v ++ [10])) = { h with day := wrapI16 v } := by
  simp only [applyKey, hdrInt_key .day "DAY" keyLit_day v h0 h1]
theorem applyKey_hour (h : Hdr) (v : Int) (h0 : -(2:Int) ^ 31 ≤ v) (h1 : v < 2 ^ 31) :
    applyKey h .hour "HOUR".length (B "HOUR" ++ 61 :: (fmtInt v ++ [10])) = { h with hour := wrapI16 v } := by
  simp only [applyKey, hdrInt_key .hour "HOUR" keyLit_hour v h0 h1]
theorem applyKey_minute (h : Hdr) (v : Int) (h0 : -(2:Int) ^ 31 ≤ v) (h1 : v < 2 ^ 31) :
    applyKey h .minute "MINUTE".length (B "MINUTE" ++ 61 :: (fmtInt v ++ [10])) = { h with minute := wrapI16 v } := by
  simp only [applyKey, hdrInt_key .minute "MINUTE" keyLit_minute v h0 h1]
theorem applyKey_second (h : Hdr) (v : Int) (h0 : -(2:Int) ^ 31 ≤ v) (h1 : v < 2 ^ 31) :
    applyKey h .second "SECOND".length (B "SECOND" ++ 61 :: (fmtInt v ++ [10])) = { h with second := wrapI16 v } := by
  simp only [applyKey, hdrInt_key .second "SECOND" keyLit_second v h0 h1]
theorem applyKey_dataFlag (h : Hdr) (v : Int) (h0 : -(2:Int) ^ 31 ≤ v) (h1 : v < 2 ^ 31) :
    applyKey h .dataFlag "DATA_FLAG".length (B "DATA_FLAG" ++ 61 :: (fmtInt v ++ [10])) = { h with dataFlag := v } := by
  simp only [applyKey, hdrInt_key .dataFlag "DATA_FLAG" keyLit_dataFlag v h0 h1]
theorem applyKey_edition (h : Hdr) (v : Int) :
    applyKey h .edition "BUFR_EDITION".length (B "BUFR_EDITION" ++ 61 :: (fmtInt v ++ [10])) = h := by
  simp only [applyKey]
theorem applyKey_compressed (h : Hdr) (v : Int) (h0 : -(2:Int) ^ 31 ≤ v) (h1 : v < 2 ^ 31) :
    applyKey h .compressed "COMPRESSED".length (B "COMPRESSED" ++ 61 :: (fmtInt v ++ [10])) =
      (if v ≠ 0 then { h with dataFlag := orI32 h.dataFlag 64 } else h) := by
  simp only [applyKey, hdrInt_key .compressed "COMPRESSED" keyLit_compressed v h0 h1]

theorem loadHeader_stop' (F : Nat) (hF : 1 ≤ F) (h : Hdr) (i n : Nat) (hi : i < 10 ^ 9) (hn : n < 10 ^ 9) (s : List Nat) :
    loadHeader F h (B "DATASUBSET " ++ decNat i ++ B " : " ++ decNat n ++ B " codes\n" ++ s) =
      (h, B "DATASUBSET " ++ decNat i ++ B " : " ++ decNat n ++ B " codes\n" ++ s, true) := by
  obtain ⟨f, rfl⟩ : ∃ f, F = f + 1 := ⟨F - 1, by omega⟩
  exact loadHeader_stop f h i n hi hn s

theorem loadHeader_hstr' (F : Nat) (hF : 1 ≤ F) (h : Hdr) (cs s : List Nat) (hcs : ∀ x ∈ cs, x ≠ 10 ∧ x ≠ 0)
    (hl : cs.length ≤ 2000) :
    loadHeader F h (B "HEADER_STRING=\"" ++ cs ++ B "\"\n" ++ s) =
      loadHeader (F - 1) { h with headerString := some cs } s := by
  obtain ⟨f, rfl⟩ : ∃ f, F = f + 1 := ⟨F - 1, by omega⟩
  exact loadHeader_hstr f h cs s hcs hl

theorem cstr_no_nul (s : List Nat) : ∀ x ∈ cstr s, x ≠ 0 := by
  intro x hx
  unfold cstr at hx
  induction s with
  | nil => simp at hx
  | cons a t ih =>
    simp only [List.takeWhile_cons] at hx
    split_ifs at hx with ha
    · simp only [List.mem_cons] at hx
      rcases hx with rfl | hx
      · simpa using ha
      · exact ih hx
    · simp at hx

/-- the header lines after the optional header string -/
def hdrTail (ed : Nat) (h : Hdr) (tail : List Nat) : List Nat :=
  kv "BUFR_MASTER_TABLE" h.masterTable ++ (kv "ORIG_CENTER" h.centre ++
  ((if ed ≥ 3 then kv "ORIG_SUB_CENTER" h.subCentre else []) ++ (kv "UPDATE_SEQUENCE" h.updSeq ++
  (kv "DATA_CATEGORY" h.msgType ++ (kv "INTERN_SUB_CATEGORY" h.interSub ++ (kv "LOCAL_SUB_CATEGORY" h.localSub ++
  (kv "MASTER_TABLE_VERSION" h.masterVer ++ (kv "LOCAL_TABLE_VERSION" h.localVer ++ (kv "YEAR" h.year ++
  (kv "MONTH" h.month ++ (kv "DAY" h.day ++ (kv "HOUR" h.hour ++ (kv "MINUTE" h.minute ++ (kv "SECOND" h.second ++
  (kv "DATA_FLAG" h.dataFlag ++ (kv "COMPRESSED" (if wrapU32 h.dataFlag &&& 64 ≠ 0 then 1 else 0) ++ tail))))))))))))))))

def hsLine (h : Hdr) : List Nat :=
  match h.headerString with
  | some s => B "HEADER_STRING=\"" ++ cstr s ++ B "\"\n"
  | none => []

theorem printHeader_split (ed : Nat) (h : Hdr) (tail : List Nat) :
    printHeader ed h ++ tail = kv "BUFR_EDITION" ed ++ (hsLine h ++ hdrTail ed h tail) := by
  unfold printHeader hdrTail hsLine
  simp only [List.append_assoc]
  cases h.headerString <;> rfl

def dsLine (i n : Nat) : List Nat := B "DATASUBSET " ++ decNat i ++ B " : " ++ decNat n ++ B " codes\n"


theorem loadHeader_hdrTail (ed : Nat) (h : Hdr) (hok : HdrOK h) (i n : Nat) (hi : i < 10 ^ 9) (hn : n < 10 ^ 9)
    (s : List Nat) (F1 : Nat) (hF1 : 19 ≤ F1) (h1 : Hdr) :
    loadHeader F1 h1 (hdrTail ed h (dsLine i n ++ s)) =
      ({ h with subCentre := if ed ≥ 3 then h.subCentre else h1.subCentre, headerString := h1.headerString,
                s1data := h1.s1data },
        dsLine i n ++ s, true) := by
  have b16 : ∀ v : Int, -32768 ≤ v ∧ v ≤ 32767 → v.natAbs < 10 ^ 10 ∧ -(2:Int) ^ 31 ≤ v ∧ v < 2 ^ 31 := by
    intro v hv; omega
  have b32 : ∀ v : Int, -(2:Int) ^ 31 ≤ v ∧ v < 2 ^ 31 → v.natAbs < 10 ^ 10 := by
    intro v hv; omega
  have hcomp : ((if wrapU32 h.dataFlag &&& 64 ≠ 0 then 1 else 0 : Int)).natAbs < 10 ^ 10 ∧
      -(2:Int) ^ 31 ≤ (if wrapU32 h.dataFlag &&& 64 ≠ 0 then 1 else 0 : Int) ∧
      (if wrapU32 h.dataFlag &&& 64 ≠ 0 then 1 else 0 : Int) < 2 ^ 31 := by
    split_ifs <;> simp
  unfold hdrTail
  rw [loadHeader_kv' .masterTable _ keyLit_masterTable _ (b16 _ hok.mt).1 _ (by omega),
    applyKey_masterTable _ _ (b16 _ hok.mt).2.1 (b16 _ hok.mt).2.2, wrapI16_id _ hok.mt]
  try dsimp only
  rw [loadHeader_kv' .centre _ keyLit_centre _ (b32 _ hok.ce) _ (by omega),
    applyKey_centre _ _ hok.ce.1 hok.ce.2]
  try dsimp only
  have hsub : ∀ (F2 : Nat) (hF2 : 17 ≤ F2) (h2 : Hdr) (rest : List Nat),
      loadHeader F2 h2 ((if ed ≥ 3 then kv "ORIG_SUB_CENTER" h.subCentre else []) ++ rest) =
        loadHeader (if ed ≥ 3 then F2 - 1 else F2) (if ed ≥ 3 then { h2 with subCentre := h.subCentre } else h2) rest := by
    intro F2 hF2 h2 rest
    by_cases h3 : ed ≥ 3
    · simp only [h3, if_true]
      rw [loadHeader_kv' .subCentre _ keyLit_subCentre _ (b16 _ hok.sc).1 _ (by omega),
        applyKey_subCentre _ _ (b16 _ hok.sc).2.1 (b16 _ hok.sc).2.2, wrapI16_id _ hok.sc]
    · simp only [h3, if_false, List.nil_append]
  rw [hsub _ (by omega)]
  have hF3 : 16 ≤ (if ed ≥ 3 then F1 - 1 - 1 - 1 else F1 - 1 - 1) := by split_ifs <;> omega
  generalize (if ed ≥ 3 then F1 - 1 - 1 - 1 else F1 - 1 - 1) = F3 at hF3
  have hh2 : (if ed ≥ 3 then ({ masterTable := h.masterTable, centre := h.centre, subCentre := h.subCentre, updSeq := h1.updSeq, msgType := h1.msgType, interSub := h1.interSub, localSub := h1.localSub, masterVer := h1.masterVer, localVer := h1.localVer, year := h1.year, month := h1.month, day := h1.day, hour := h1.hour, minute := h1.minute, second := h1.second, dataFlag := h1.dataFlag, headerString := h1.headerString, s1data := h1.s1data } : Hdr)
      else { masterTable := h.masterTable, centre := h.centre, subCentre := h1.subCentre, updSeq := h1.updSeq, msgType := h1.msgType, interSub := h1.interSub, localSub := h1.localSub, masterVer := h1.masterVer, localVer := h1.localVer, year := h1.year, month := h1.month, day := h1.day, hour := h1.hour, minute := h1.minute, second := h1.second, dataFlag := h1.dataFlag, headerString := h1.headerString, s1data := h1.s1data }) =
      { masterTable := h.masterTable, centre := h.centre, subCentre := (if ed ≥ 3 then h.subCentre else h1.subCentre), updSeq := h1.updSeq, msgType := h1.msgType, interSub := h1.interSub, localSub := h1.localSub, masterVer := h1.masterVer, localVer := h1.localVer, year := h1.year, month := h1.month, day := h1.day, hour := h1.hour, minute := h1.minute, second := h1.second, dataFlag := h1.dataFlag, headerString := h1.headerString, s1data := h1.s1data } := by split_ifs <;> rfl
  dsimp only at hh2 ⊢
  rw [hh2]
  rw [loadHeader_kv' .updSeq _ keyLit_updSeq _ (b16 _ hok.us).1 _ (by omega),
    applyKey_updSeq _ _ (b16 _ hok.us).2.1 (b16 _ hok.us).2.2, wrapI16_id _ hok.us]
  try dsimp only
  rw [loadHeader_kv' .msgType _ keyLit_msgType _ (b16 _ hok.ty).1 _ (by omega),
    applyKey_msgType _ _ (b16 _ hok.ty).2.1 (b16 _ hok.ty).2.2, wrapI16_id _ hok.ty]
  try dsimp only
  rw [loadHeader_kv' .interSub _ keyLit_interSub _ (b16 _ hok.is).1 _ (by omega),
    applyKey_interSub _ _ (b16 _ hok.is).2.1 (b16 _ hok.is).2.2, wrapI16_id _ hok.is]
  try dsimp only
  rw [loadHeader_kv' .localSub _ keyLit_localSub _ (b16 _ hok.ls).1 _ (by omega),
    applyKey_localSub _ _ (b16 _ hok.ls).2.1 (b16 _ hok.ls).2.2, wrapI16_id _ hok.ls]
  try dsimp only
  rw [loadHeader_kv' .masterVer _ keyLit_masterVer _ (b16 _ hok.mv).1 _ (by omega),
    applyKey_masterVer _ _ (b16 _ hok.mv).2.1 (b16 _ hok.mv).2.2, wrapI16_id _ hok.mv]
  try dsimp only
  rw [loadHeader_kv' .localVer _ keyLit_localVer _ (b16 _ hok.lv).1 _ (by omega),
    applyKey_localVer _ _ (b16 _ hok.lv).2.1 (b16 _ hok.lv).2.2, wrapI16_id _ hok.lv]
  try dsimp only
  rw [loadHeader_kv' .year _ keyLit_year _ (b16 _ hok.ye).1 _ (by omega),
    applyKey_year _ _ (b16 _ hok.ye).2.1 (b16 _ hok.ye).2.2, wrapI16_id _ hok.ye]
  try dsimp only
  rw [loadHeader_kv' .month _ keyLit_month _ (b16 _ hok.mo).1 _ (by omega),
    applyKey_month _ _ (b16 _ hok.mo).2.1 (b16 _ hok.mo).2.2, wrapI16_id _ hok.mo]
  try dsimp only
  rw [loadHeader_kv' .day _ keyLit_day _ (b16 _ hok.da).1 _ (by omega),
    applyKey_day _ _ (b16 _ hok.da).2.1 (b16 _ hok.da).2.2, wrapI16_id _ hok.da]
  try dsimp only
  rw [loadHeader_kv' .hour _ keyLit_hour _ (b16 _ hok.ho).1 _ (by omega),
    applyKey_hour _ _ (b16 _ hok.ho).2.1 (b16 _ hok.ho).2.2, wrapI16_id _ hok.ho]
  try dsimp only
  rw [loadHeader_kv' .minute _ keyLit_minute _ (b16 _ hok.mi).1 _ (by omega),
    applyKey_minute _ _ (b16 _ hok.mi).2.1 (b16 _ hok.mi).2.2, wrapI16_id _ hok.mi]
  try dsimp only
  rw [loadHeader_kv' .second _ keyLit_second _ (b16 _ hok.se).1 _ (by omega),
    applyKey_second _ _ (b16 _ hok.se).2.1 (b16 _ hok.se).2.2, wrapI16_id _ hok.se]
  try dsimp only
  rw [loadHeader_kv' .dataFlag _ keyLit_dataFlag _ (b32 _ ⟨by have := hok.fl.1; omega, hok.fl.2⟩) _ (by omega),
    applyKey_dataFlag _ _ (by have := hok.fl.1; omega) hok.fl.2]
  try dsimp only
  rw [loadHeader_kv' .compressed _ keyLit_compressed _ hcomp.1 _ (by omega),
    applyKey_compressed _ _ hcomp.2.1 hcomp.2.2]
  try dsimp only
  unfold dsLine
  rw [loadHeader_stop' _ (by omega) _ i n hi hn s]
  congr 1
  by_cases hb : wrapU32 h.dataFlag &&& 64 ≠ 0
  · simp [hb, orI32_64_id h.dataFlag hok.fl.1 hok.fl.2 hb]
  · simp [hb]

/-- **the header block reads back**: Section 1 fields, data flag, header string -/
theorem loadHeader_printHeader (ed : Nat) (hed : ed < 2 ^ 31) (h0 h : Hdr) (hok : HdrOK h)
    (i n : Nat) (hi : i < 10 ^ 9) (hn : n < 10 ^ 9) (s : List Nat) (F : Nat) (hF : 21 ≤ F) :
    loadHeader F h0 (printHeader ed h ++ (dsLine i n ++ s)) = (hdrLoaded ed h0 h, dsLine i n ++ s, true) := by
  rw [printHeader_split, loadHeader_kv' .edition "BUFR_EDITION" keyLit_edition ed (by omega) F (by omega), applyKey_edition]
  unfold hsLine
  cases hhs : h.headerString with
  | none =>
    simp only [List.nil_append]
    rw [loadHeader_hdrTail ed h hok i n hi hn s _ (by omega)]
    simp [hdrLoaded, hhs]
  | some str =>
    simp only []
    have hs := hok.hs str hhs
    rw [loadHeader_hstr' (F - 1) (by omega) h0 (cstr str) _ (fun x hx => ⟨hs.1 x hx, cstr_no_nul str x hx⟩) hs.2,
      loadHeader_hdrTail ed h hok i n hi hn s _ (by omega)]
    simp [hdrLoaded, hhs]

/-! ### one dataset -/

theorem kv_length (K : String) (v : Int) : 3 ≤ (kv K v).length := by
  unfold kv
  have := List.length_pos_of_ne_nil (fmtInt_ne_nil v)
  simp [show B "=" = [61] by decide]; omega

theorem printHeader_length (ed : Nat) (h : Hdr) : 21 ≤ (printHeader ed h).length := by
  unfold printHeader
  simp only [List.length_append]
  have k := kv_length
  have h1 := k "BUFR_EDITION" ed; have h2 := k "BUFR_MASTER_TABLE" h.masterTable
  have h3 := k "ORIG_CENTER" h.centre; have h4 := k "UPDATE_SEQUENCE" h.updSeq
  have h5 := k "DATA_CATEGORY" h.msgType; have h6 := k "INTERN_SUB_CATEGORY" h.interSub
  have h7 := k "LOCAL_SUB_CATEGORY" h.localSub
  omega

theorem printNode_length (trim : Bool) (mt : List Nat) (n : Node) : 1 ≤ (printNode trim mt n).length := by
  unfold printNode; simp

theorem flatMap_length_ge {α} (l : List α) (f : α → List Nat) (h : ∀ x ∈ l, 1 ≤ (f x).length) :
    l.length ≤ (l.flatMap f).length := by
  induction l with
  | nil => simp
  | cons a t ih =>
    simp only [List.flatMap_cons, List.length_append, List.length_cons]
    have := h a (by simp)
    have := ih (fun x hx => h x (by simp [hx]))
    omega

theorem printSubsets_length (trim : Bool) (i : Nat) (subs : List (List Node × List (List Nat))) :
    linesOf subs ≤ (printSubsets trim i subs).length := by
  induction subs generalizing i with
  | nil => simp [linesOf]
  | cons p r ih =>
    obtain ⟨ns, ms⟩ := p
    have h1 := ih (i + 1)
    have h2 := flatMap_length_ge (zipMeta ns ms) (fun p => printNode trim p.2 p.1)
      (fun x _ => printNode_length trim x.2 x.1)
    rw [zipMeta_length] at h2
    have h3 : 1 ≤ (B "DATASUBSET ").length := by decide
    simp only [linesOf, List.map_cons, List.sum_cons, printSubsets, printSubset, List.length_append,
      List.length_cons, List.length_nil] at h1 ⊢
    omega

theorem zipMetas_map_fst (ss : List (List Node)) (ms : List (List (List Nat))) : (zipMetas ss ms).map (·.1) = ss := by
  induction ss generalizing ms with
  | nil => rfl
  | cons n t ih => cases ms <;> simp [zipMetas, ih]

theorem finishSubset_blankAdj (T : Tables) (fuel : Nat) (st : LdSt) :
    finishSubset T fuel (blankAdj st) = finishSubset T fuel st := rfl

theorem accum_some (T : Tables) (fuel : Nat) (st : LdSt) (acc : List (List Node)) (inv : Bool) (sts : List LdSt) :
    (accum T fuel (some st) acc inv sts).1.reverse = acc.reverse ++ (finishSubset T fuel st :: sts.map (finishSubset T fuel)) ∧
    (accum T fuel (some st) acc inv sts).2 = (inv || st.invalid || sts.any (·.invalid)) := by
  induction sts generalizing st acc inv with
  | nil => simp [accum, finCur]
  | cons s r ih =>
    have := ih (blankAdj s) (finishSubset T fuel st :: acc) (inv || st.invalid)
    simp only [accum, finCur]
    rw [this.1, this.2, finishSubset_blankAdj]
    simp [blankAdj, Bool.or_assoc]

theorem accum_none (T : Tables) (fuel : Nat) (inv : Bool) (sts : List LdSt) :
    (accum T fuel none [] inv sts).1.reverse = sts.map (finishSubset T fuel) ∧
    (accum T fuel none [] inv sts).2 = (inv || sts.any (·.invalid)) := by
  cases sts with
  | nil => simp [accum, finCur]
  | cons s r =>
    have := accum_some T fuel (blankAdj s) [] inv r
    simp only [accum, finCur]
    rw [this.1, this.2, finishSubset_blankAdj]
    simp [blankAdj, Bool.or_assoc]

/-- the template copy the loader starts every subset from -/
def bsqOf (T : Tables) (t : Template) : List Node := (applyTablesAll T t.edition { enforce := .strict } t.gabarit).1
def bsqErr (T : Tables) (t : Template) : Bool := (applyTablesAll T t.edition { enforce := .strict } t.gabarit).2.2

/-- the text of a dataset is one the reader takes in whole -/
structure TextOK (trim : Bool) (metas : List (List (List Nat))) (ds : Dataset) : Prop where
  hdr : HdrOK ds.hdr
  ne : ds.subsets ≠ []
  nsub : ds.subsets.length + 1 < 10 ^ 9
  nnodes : ∀ ns ∈ ds.subsets, ns.length < 10 ^ 9
  lines : ∀ p ∈ zipMetas ds.subsets metas, ∀ q ∈ zipMeta p.1 p.2, LineOK trim q.2 q.1

/-- the header of the dataset loaded from the text of `ds` into a dataset whose header was `h0` -/
def loadedHdr (ed : Nat) (h0 : Hdr) (ds : Dataset) (invalid : Bool) : Hdr :=
  let h1 := hdrLoaded ed { h0 with headerString := none } ds.hdr
  { h1 with dataFlag := if invalid then orI32 h1.dataFlag 256 else h1.dataFlag }

/-- **reading one printed dataset is walking its records**: `bufr_read_dataset_dump` on the text
`bufr_fdump_dataset` wrote, followed by nothing or by the next dataset -/
theorem readDataset_print (T : Tables) (t : Template) (fuel : Nat) (trim : Bool) (metas : List (List (List Nat)))
    (ds : Dataset) (hok : TextOK trim metas ds) (hed : t.edition < 2 ^ 31) (sts : List LdSt)
    (hw : List.Forall₂ (fun ns st => walk T t.edition fuel trim { todo := bsqOf T t } ns = some st) ds.subsets sts)
    (h0 : Hdr) (tail : List Nat) (ht : Tail tail) :
    readDataset T t fuel h0 (print trim t.edition metas ds ++ tail) =
      (1, { hdr := loadedHdr t.edition h0 ds (bsqErr T t || sts.any (·.invalid)),
            subsets := sts.map (finishSubset T fuel) }, tail) := by
  obtain ⟨ns0, rest0, hss⟩ := List.exists_cons_of_ne_nil hok.ne
  -- the zipped subsets
  have hz : ∃ m0 zr, zipMetas ds.subsets metas = (ns0, m0) :: zr := by
    rw [hss]; cases metas with
    | nil => exact ⟨[], _, rfl⟩
    | cons m ms => exact ⟨m, _, rfl⟩
  obtain ⟨m0, zr, hz⟩ := hz
  have hzlen : (zipMetas ds.subsets metas).length = ds.subsets.length := by
    have := congrArg List.length (zipMetas_map_fst ds.subsets metas); simpa using this
  have hw' : List.Forall₂ (fun (p : List Node × List (List Nat)) st =>
      walk T t.edition fuel trim { todo := bsqOf T t } p.1 = some st) (zipMetas ds.subsets metas) sts := by
    have := hw
    rw [← zipMetas_map_fst ds.subsets metas] at this
    exact List.forall₂_map_left_iff.mp this
  have hstart : printSubsets trim 0 (zipMetas ds.subsets metas) ++ tail =
      dsLine 1 ns0.length ++ ((zipMeta ns0 m0).flatMap (fun p => printNode trim p.2 p.1) ++ [10] ++ printSubsets trim 1 zr ++ tail) := by
    rw [hz]; simp [printSubsets, printSubset, dsLine]
  unfold readDataset print
  simp only [List.append_assoc]
  have hn0 : ns0.length < 10 ^ 9 := hok.nnodes ns0 (by rw [hss]; simp)
  have hhdr : loadHeader ((printHeader t.edition ds.hdr ++ (printSubsets trim 0 (zipMetas ds.subsets metas) ++ tail)).length + 1)
      { h0 with headerString := none } (printHeader t.edition ds.hdr ++ (printSubsets trim 0 (zipMetas ds.subsets metas) ++ tail)) =
      (hdrLoaded t.edition { h0 with headerString := none } ds.hdr, printSubsets trim 0 (zipMetas ds.subsets metas) ++ tail, true) := by
    rw [hstart]
    exact loadHeader_printHeader t.edition hed _ ds.hdr hok.hdr 1 ns0.length (by norm_num) hn0 _ _
      (by have := printHeader_length t.edition ds.hdr; simp only [List.length_append]; omega)
  rw [hhdr]
  simp only [Bool.not_true, Bool.false_eq_true, if_false]
  have hsub := loadSubsets_printSubsets T t.edition fuel (bsqOf T t) trim (zipMetas ds.subsets metas) sts hw'
    hok.lines 0 (by rw [hzlen]; have := hok.nsub; omega)
    (by intro p hp
        have : p.1 ∈ ds.subsets := by
          rw [← zipMetas_map_fst ds.subsets metas]; exact List.mem_map_of_mem hp
        exact hok.nnodes p.1 this)
    tail ht ((printSubsets trim 0 (zipMetas ds.subsets metas) ++ tail).length + 1)
    (by have := printSubsets_length trim 0 (zipMetas ds.subsets metas); simp only [List.length_append]; omega)
    none [] (bsqErr T t)
  have hne : zipMetas ds.subsets metas ≠ [] := by rw [hz]; simp
  unfold bsqOf bsqErr at hsub
  simp only [bsqErr] at *
  rw [hsub]
  have ha := accum_none T fuel (applyTablesAll T t.edition { enforce := .strict } t.gabarit).2.2 sts
  simp only [hne, ne_eq, not_false_eq_true, true_or, or_true, if_true, ha.1, ha.2, loadedHdr]

/-! ### several datasets in one text -/

theorem print_is_tail (trim : Bool) (ed : Nat) (hed : ed < 2 ^ 31) (metas : List (List (List Nat))) (ds : Dataset)
    (rest : List Nat) : Tail (print trim ed metas ds ++ rest) := by
  have hform : print trim ed metas ds ++ rest =
      B "BUFR_EDITION=" ++ fmtInt (ed : Int) ++ 10 :: ((hsLine ds.hdr ++ hdrTail ed ds.hdr (printSubsets trim 0 (zipMetas ds.subsets metas))) ++ rest) := by
    unfold print
    rw [printHeader_split]
    unfold kv
    rw [show B "BUFR_EDITION=" = B "BUFR_EDITION" ++ B "=" by decide]
    simp
  rw [hform]
  apply Tail.next
  · intro x hx
    have := fmtInt_chars (ed : Int) x hx
    exact ⟨this.2.2, this.2.1⟩
  · have := fmtInt_length (ed : Int) (by omega)
    rw [B_be]; simp; omega

/-- one dataset of a dump file: how it was printed, and where the walks of its subsets end -/
structure Item where
  trim : Bool
  metas : List (List (List Nat))
  ds : Dataset
  sts : List LdSt

/-- the text of the item is readable and its subsets walk to `sts` -/
structure Item.OK (T : Tables) (t : Template) (fuel : Nat) (it : Item) : Prop where
  text : TextOK it.trim it.metas it.ds
  walks : List.Forall₂ (fun ns st => walk T t.edition fuel it.trim { todo := bsqOf T t } ns = some st) it.ds.subsets it.sts

/-- the dataset loaded from the item's text into a dataset whose header was `h0` -/
def Item.loaded (T : Tables) (t : Template) (fuel : Nat) (h0 : Hdr) (it : Item) : Dataset :=
  { hdr := loadedHdr t.edition h0 it.ds (bsqErr T t || it.sts.any (·.invalid)),
    subsets := it.sts.map (finishSubset T fuel) }

/-- the datasets `bufr_genmsgs_from_dump` gets from the items' texts, in order (one dataset object:
the header of each is what the next one starts from) -/
def loadedList (T : Tables) (t : Template) (fuel : Nat) : Hdr → List Item → List Dataset
  | _, [] => []
  | h0, it :: r => it.loaded T t fuel h0 :: loadedList T t fuel (it.loaded T t fuel h0).hdr r

theorem loadAll_nil (T : Tables) (t : Template) (fuel : Nat) (f : Nat) (h : Hdr) :
    loadAll T t fuel (f + 1) h [] = ([], 0) := by
  simp [loadAll, readDataset, loadHeader, fgets]

/-- **several datasets printed one after the other are loaded one by one, in order** -/
theorem loadAll_prints (T : Tables) (t : Template) (fuel : Nat) (hed : t.edition < 2 ^ 31) (items : List Item)
    (hok : ∀ it ∈ items, it.OK T t fuel) (F : Nat) (hF : items.length < F) (h0 : Hdr) :
    loadAll T t fuel F h0 ((items.map fun it => print it.trim t.edition it.metas it.ds).flatten) =
      (loadedList T t fuel h0 items, 0) := by
  induction items generalizing F h0 with
  | nil =>
    obtain ⟨f, rfl⟩ : ∃ f, F = f + 1 := ⟨F - 1, by simp at hF; omega⟩
    simp [loadAll_nil, loadedList]
  | cons it r ih =>
    obtain ⟨f, rfl⟩ : ∃ f, F = f + 1 := ⟨F - 1, by simp at hF; omega⟩
    have hit := hok it (by simp)
    simp only [List.map_cons, List.flatten_cons]
    have htail : Tail ((r.map fun it => print it.trim t.edition it.metas it.ds).flatten) := by
      cases r with
      | nil => exact Tail.eof
      | cons b r' =>
        simp only [List.map_cons, List.flatten_cons]
        exact print_is_tail b.trim t.edition hed b.metas b.ds _
    rw [loadAll, readDataset_print T t fuel it.trim it.metas it.ds hit.text hed it.sts hit.walks h0 _ htail]
    simp only [show ((1:Int) > 0) from by decide, if_true]
    rw [ih (fun x hx => hok x (by simp [hx])) f (by simp at hF; omega)]
    simp [loadedList, Item.loaded]

end Bufr.Dump
