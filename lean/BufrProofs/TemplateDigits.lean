import BufrModel.TemplateText
import Mathlib.Tactic.Ring
import Mathlib.Tactic.Linarith
/-
  Decimal digits (C18): `natDigits` (what `%d` prints) and `digitsVal` (what `atoi`/`strtod` read).
-/
namespace Bufr
namespace TT

/-! ### decimal digits -/

theorem digitsAux_acc (f n : Nat) (acc : List Nat) : digitsAux f n acc = digitsAux f n [] ++ acc := by
  induction f generalizing n acc with
  | zero => simp [digitsAux]
  | succ f ih =>
    unfold digitsAux
    split
    · simp
    · rw [ih, ih (n / 10) [48 + n % 10]]; simp

theorem digitsAux_fuel (f g n : Nat) (acc : List Nat) (hf : n < f) (hg : n < g) :
    digitsAux f n acc = digitsAux g n acc := by
  induction f generalizing g n acc with
  | zero => omega
  | succ f ih =>
    cases g with
    | zero => omega
    | succ g =>
      unfold digitsAux
      split
      · rfl
      · apply ih <;> omega

theorem natDigits_small (n : Nat) (h : n < 10) : natDigits n = [48 + n] := by
  unfold natDigits digitsAux; simp [h]

theorem natDigits_step (n : Nat) (h : 10 ≤ n) : natDigits n = natDigits (n / 10) ++ [48 + n % 10] := by
  unfold natDigits
  conv => lhs; unfold digitsAux
  rw [if_neg (by omega), digitsAux_acc]
  congr 1
  apply digitsAux_fuel <;> omega

theorem natDigits_isDigit (n : Nat) : ∀ c ∈ natDigits n, isDigit c = true := by
  induction n using Nat.strong_induction_on with
  | _ n ih =>
    by_cases h : n < 10
    · rw [natDigits_small n h]; intro c hc; simp at hc; subst hc; simp [isDigit]; omega
    · rw [natDigits_step n (by omega)]
      intro c hc
      rcases List.mem_append.mp hc with hc | hc
      · exact ih (n / 10) (by omega) c hc
      · simp at hc; subst hc; simp [isDigit]; omega

theorem natDigits_ne_nil (n : Nat) : natDigits n ≠ [] := by
  by_cases h : n < 10
  · rw [natDigits_small n h]; simp
  · rw [natDigits_step n (by omega)]; simp

/-- value of an all-digit prefix -/
theorem digitsVal_append (l rest : List Nat) (a : Nat) (hl : ∀ c ∈ l, isDigit c = true) :
    digitsVal (l ++ rest) a = digitsVal rest (l.foldl (fun a c => a * 10 + (c - 48)) a) := by
  induction l generalizing a with
  | nil => rfl
  | cons c l ih =>
    simp only [List.cons_append, digitsVal, List.foldl_cons]
    rw [if_pos (hl c (by simp))]
    exact ih _ (fun c hc => hl c (by simp [hc]))

theorem natDigits_foldl (n a : Nat) :
    (natDigits n).foldl (fun a c => a * 10 + (c - 48)) a = a * 10 ^ (natDigits n).length + n := by
  induction n using Nat.strong_induction_on generalizing a with
  | _ n ih =>
    by_cases h : n < 10
    · rw [natDigits_small n h]; simp
    · rw [natDigits_step n (by omega), List.foldl_append, ih (n / 10) (by omega)]
      simp only [List.foldl_cons, List.foldl_nil, List.length_append, List.length_cons, List.length_nil]
      have : 48 + n % 10 - 48 = n % 10 := by omega
      rw [this, pow_succ]
      have := Nat.div_add_mod n 10
      nlinarith [Nat.div_add_mod n 10]

/-- reading back the digits of `n`, whatever non-digit follows -/
theorem digitsVal_natDigits (n : Nat) (rest : List Nat) (hr : ∀ c, rest.head? = some c → isDigit c = false) :
    digitsVal (natDigits n ++ rest) 0 = n := by
  rw [digitsVal_append _ _ _ (natDigits_isDigit n), natDigits_foldl]
  simp only [Nat.zero_mul, Nat.zero_add]
  cases rest with
  | nil => rfl
  | cons c r => simp [digitsVal, hr c rfl]



theorem natDigits_head (n : Nat) : ∃ c r, natDigits n = c :: r ∧ isDigit c = true := by
  have h := natDigits_ne_nil n
  cases hd : natDigits n with
  | nil => exact absurd hd h
  | cons c r => exact ⟨c, r, rfl, natDigits_isDigit n c (by simp [hd])⟩

theorem takeSign_other (l : List Nat) (h45 : l.head? ≠ some 45) (h43 : l.head? ≠ some 43) : takeSign l = (false, l) := by
  unfold takeSign
  split
  · simp at h45
  · simp at h43
  · rfl

theorem dropWhile_head (p : Nat → Bool) (c : Nat) (r : List Nat) (h : p c = false) : (c :: r).dropWhile p = c :: r := by
  simp [List.dropWhile, h]

theorem isDigit_not_space (c : Nat) (h : isDigit c = true) : isSpace c = false := by
  simp [isDigit, isSpace] at *; omega

/-- value of a string of digits -/
def dv (l : List Nat) : Nat := l.foldl (fun a c => a * 10 + (c - 48)) 0

theorem dv_natDigits (n : Nat) : dv (natDigits n) = n := by
  unfold dv; rw [natDigits_foldl]; simp

theorem foldl_dv_acc (l : List Nat) (a : Nat) :
    l.foldl (fun a c => a * 10 + (c - 48)) a = a * 10 ^ l.length + dv l := by
  induction l generalizing a with
  | nil => simp [dv]
  | cons c l ih =>
    simp only [List.foldl_cons, List.length_cons, dv]
    rw [ih, ih (0 * 10 + (c - 48))]
    ring

theorem dv_append (l1 l2 : List Nat) : dv (l1 ++ l2) = dv l1 * 10 ^ l2.length + dv l2 := by
  unfold dv
  rw [List.foldl_append, foldl_dv_acc]
  rfl

theorem dv_zeros (k : Nat) : dv (zeros k) = 0 := by
  induction k with
  | zero => rfl
  | succ k ih =>
    have : zeros (k + 1) = zeros k ++ [48] := by simp [zeros, List.replicate_succ']
    rw [this, dv_append, ih]; simp [dv]

theorem zeros_isDigit (k : Nat) : ∀ c ∈ zeros k, isDigit c = true := by
  intro c hc; simp [zeros] at hc; rw [hc.2]; decide

theorem digitsVal_all (l : List Nat) (h : ∀ c ∈ l, isDigit c = true) : digitsVal l 0 = dv l := by
  have := digitsVal_append l [] 0 h
  simpa [digitsVal, dv] using this

/-- a number below `10^k` has at most `k` digits -/
theorem natDigits_length_le (n k : Nat) (hk : 0 < k) (h : n < 10 ^ k) : (natDigits n).length ≤ k := by
  induction k generalizing n with
  | zero => omega
  | succ k ih =>
    by_cases hn : n < 10
    · rw [natDigits_small n hn]; simp
    · rw [natDigits_step n (by omega)]
      simp only [List.length_append, List.length_cons, List.length_nil]
      have hk' : 0 < k := by
        rcases Nat.eq_zero_or_pos k with h0 | h0
        · subst h0; simp at h; omega
        · exact h0
      have := ih (n / 10) hk' (by rw [pow_succ] at h; omega)
      omega

end TT
end Bufr
