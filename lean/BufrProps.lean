import BufrProps.C11
import BufrProps.C10
import BufrProps.C09
import BufrProps.C19
import BufrProps.C01
import BufrProps.C12
import BufrProps.C02
