import BufrProps.C11
import BufrProps.C10
