import BufrProps.C11
