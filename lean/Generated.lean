import Generated.ShippedD
import Generated.SwitchSites
import Generated.StaticState
import Generated.SprintfSites
