import Generated.ShippedD
