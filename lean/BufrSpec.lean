import BufrSpec.Expand
import BufrSpec.Ops
import BufrSpec.Ieee
import BufrSpec.RefDecode
import BufrSpec.RefEncode
import BufrSpec.Find
