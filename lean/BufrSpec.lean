import BufrSpec.Expand
import BufrSpec.Ops
import BufrSpec.Ieee
