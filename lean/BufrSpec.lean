import BufrSpec.Expand
