import BufrSpec.Expand
import BufrSpec.Ops
