import Driver.OpsTemplate
import BufrModel.SetValue
import BufrModel.Decode
import BufrModel.Bitmap
import BufrModel.Merge
import BufrModel.Frame
import BufrSpec.RefDecode
import BufrSpec.RefEncode
/- driver ops for values, Section 4 encoding and decoding (C01–C04, C07, C14) -/
open Bufr
namespace Drv

def hex16 (n : Nat) : String := String.join ((List.range 8).reverse.map fun i => hexByte ((n >>> (8 * i)) % 256))
def hex8 (n : Nat) : String := String.join ((List.range 4).reverse.map fun i => hexByte ((n >>> (8 * i)) % 256))

def fmtVal (n : Node) : String :=
  let v := match n.val with
    | .none => "-"
    | .i32 v => s!"i:{v}"
    | .i64 v => s!"l:{v}"
    | .f32 x => s!"f:{hex8 (SF.toFloatBits x)}"
    | .f64 x => s!"d:{hex16 (SF.toDoubleBits x)}"
    | .str bs => s!"s:{toHex bs}"
  if n.val.isSome && n.afW > 0 then s!"{v}@{n.afW}:{n.afBits}" else v

def fmtVals (ns : List Node) : String :=
  if ns.isEmpty then "-" else " ".intercalate (ns.map fmtVal)

def bytesToBits (bs : List Nat) : List Bool := bs.flatMap (bitsMSB 8)

def fmtItem (it : Spec.Item) : String :=
  let body := if it.kind = .ccitt then s!"{it.desc}:s:{toHex it.str}" else s!"{it.desc}:{it.width}:{it.raw}"
  if it.afW > 0 then s!"{body}@{it.afW}:{it.af}" else body

structure CodecSt where
  decoded : Array (List Node) := #[]
  decInvalid : Bool := false
  decTmpl : Option Template := none                -- template the decoded dataset was built with
  decFlag : Nat := 0                               -- Section 3 flag of the decoded message (`dts->data_flag |= s3.flag`)
  last : Option (Nat × Nat × List Nat) := none     -- flag, nsub, Section 4 bytes of the last ds.encode

/-- deterministic pseudo-random 64-bit word from (seed, index), same formula in the harness -/
def mix (seed idx : Nat) : Nat :=
  let m := 2^64
  let x := (seed * 6364136223846793005 + idx * 1442695040888963407 + 1013904223) % m
  let y := (x ^^^ (x >>> 29)) * 2685821657736338717 % m
  y ^^^ (y >>> 32)

/-- raw pattern chosen for a field of `nb` bits: mode 0 mixed, 1 random non-missing, 2 zero,
3 largest non-missing, 4 missing -/
def pickRaw (mode seed idx nb : Nat) : Nat :=
  if nb = 0 then 0 else
  let x := mix seed idx
  let all := 2^nb - 1
  let rnd := (x >>> 4) % 2^nb
  match mode with
  | 2 => 0
  | 3 => all - 1
  | 4 => all
  | 1 => if all = 0 then 0 else (x >>> 4) % all
  | _ => let k := x % 16
         if k < 2 then 0 else if k < 4 then all - 1 else if k < 6 then all else rnd

def pickStr (mode seed idx len : Nat) : List Nat :=
  let x := mix seed idx
  if mode = 4 then [] else
  let n := if mode = 0 ∧ x % 8 = 0 then 0 else len - (x >>> 3) % (min len 3 + 1)
  (List.range n).map fun j => 32 + (mix seed (idx * 131 + j + 7)) % 95

def fillNode (mode seed idx : Nat) (n : Node) : Node :=
  if n.flags.skipped || !n.val.isSome || n.flags.class31 || Desc.x n.desc = 31 then n
  else
    let n1 :=
      match n.enc.type with
      | .ccitt => (setSvalue n (pickStr mode seed idx (n.enc.nbits / 8).toNat)).1
      | .numeric | .codetable | .flagtable | .chngRef =>
        if n.enc.nbits ≤ 0 ∨ n.enc.nbits > 64 then n else
        let raw := pickRaw mode seed idx n.enc.nbits.toNat
        -- a new reference value of -1 cannot be told from "missing" (known limitation): avoid it
        -- a 64-bit field with its top bit set does not fit the library's int64 storage (known limitation)
        let raw := if n.enc.nbits = 64 ∧ raw ≠ missingIvalue 64 then raw % 2^62 else raw
        let raw := if n.enc.type = .chngRef ∧ (raw = missingIvalue n.enc.nbits ∨ cvtIvalue raw n.enc.nbits = -1) then 0 else raw
        (setRaw n raw).1
      | _ => n
    if n1.afW > 0 ∧ n1.afW ≤ 64 then { n1 with afBits := mix seed (idx + 100003) % 2 ^ n1.afW } else n1

def parseEnforce : String → Option Enforce
  | "0" => some .lax | "1" => some .warnAllow | "2" => some .strict | _ => none

def updNode (st : TmplSt) (p i : Nat) (f : Node → Node × Int) : TmplSt × String :=
  match st.subsets[p]? with
  | some s =>
    match s.nodes[i]? with
    | some n =>
      let (n', rc) := f n
      ({ st with subsets := st.subsets.set! p { nodes := s.nodes.set i n' } }, s!"{rc}")
    | none => (st, "none")
  | none => (st, "none")

partial def stepCodec (st : TmplSt) (cs : CodecSt) (toks : List String) : Option (TmplSt × CodecSt × String) :=
  let T := st.cur.toTables
  match toks with
  | ["ss.vals", p] =>
    match p.toNat? with
    | some p => match st.subsets[p]? with
      | some s => some (st, cs, fmtVals s.nodes)
      | none => some (st, cs, "none")
    | none => some (st, cs, "bad-op")
  | "ss.setraw" :: p :: i :: raw :: rest =>
    match p.toNat?, i.toNat?, raw.toNat?, rest.mapM (·.toNat?) with
    | some p, some i, some raw, some afl =>
      let (st', o) := updNode st p i fun n =>
        if n.flags.skipped || !n.val.isSome then (n, 0) else
        let (n1, rc) := setRaw n raw
        match afl with
        | [a] => (if n1.afW > 0 then { n1 with afBits := a % 2 ^ n1.afW } else n1, rc)
        | _ => (n1, rc)
      some (st', cs, o)
    | _, _, _, _ => some (st, cs, "bad-op")
  | ["ss.fill", p, seed, mode] =>
    match p.toNat?, seed.toNat?, mode.toNat? with
    | some p, some seed, some mode =>
      match st.subsets[p]? with
      | some sub =>
        let ns := (List.zip (List.range sub.nodes.length) sub.nodes).map fun (i, n) => fillNode mode seed i n
        some ({ st with subsets := st.subsets.set! p { nodes := ns } }, cs, s!"{ns.length}")
      | none => some (st, cs, "none")
    | _, _, _ => some (st, cs, "bad-op")
  | ["ss.setstr", p, i, h] =>
    match p.toNat?, i.toNat?, parseHex h with
    | some p, some i, some bs =>
      let (st', o) := updNode st p i fun n => if n.flags.skipped then (n, 0) else setSvalue n bs
      some (st', cs, o)
    | _, _, _ => some (st, cs, "bad-op")
  | ["ss.setd", p, i, h] =>
    match p.toNat?, i.toNat?, parseHex (if h.length % 2 = 1 then "0" ++ h else h) with
    | some p, some i, some bs =>
      let bits := bs.foldl (fun a b => a * 256 + b) 0
      let (st', o) := updNode st p i (fun n => setDvalue n (SF.ofDoubleBits bits))
      some (st', cs, o)
    | _, _, _ => some (st, cs, "bad-op")
  | ["ss.setf", p, i, h] =>
    match p.toNat?, i.toNat?, parseHex (if h.length % 2 = 1 then "0" ++ h else h) with
    | some p, some i, some bs =>
      let bits := bs.foldl (fun a b => a * 256 + b) 0
      let (st', o) := updNode st p i (fun n => setFvalue n (SF.ofFloatBits bits))
      some (st', cs, o)
    | _, _, _ => some (st, cs, "bad-op")
  | ["ds.encode", c] =>
    match c.toInt?, (if st.hasDts then st.tmpl else none) with   -- no dataset object yet: the harness answers `none`
    | some c, some t =>
      let settled := st.subsets.toList.map fun s => settleNewRefs T t.edition s.nodes
      let ss := settled.map (·.1)
      let st := { st with subsets := (ss.map fun ns => ({ nodes := ns } : Subset)).toArray,
                          invalid := st.invalid || settled.any (·.2) }
      let (flag, w0) := encodeData ss st.dataFlag c
      let w := padSection4 t.edition w0
      some (st, { cs with last := some (flag, ss.length, w.bytes) }, s!"{flag} {ss.length} {toHex w.bytes}")
    | _, _ => some (st, cs, "none")
  | ["ds.decode", ed, enf, flag, nsub, fr, to, descs, h] =>
    if !st.haveTables then some (st, cs, "bad-op") else
    match ed.toNat?, parseEnforce enf, flag.toNat?, nsub.toNat?, fr.toInt?, to.toInt?,
          ((descs.splitOn ",").filter (· ≠ "")).mapM (·.toNat?), parseHex h with
    | some ed, some enf, some flag, some nsub, some fr, some to, some ds, some bytes =>
      match createTemplate T defaultFuel ed ds with
      | .error .fuel => some (st, cs, "diverge")
      | .error _ => some (st, { cs with decoded := #[] }, "null")
      | .ok t =>
        match decodeDataC T defaultFuel t enf nsub (flag &&& 64 ≠ 0) (4 + bytes.length) bytes fr to with
        | .error .fuel => some (st, cs, "diverge")
        | .error .abort => some (st, cs, "abort")
        | .error .null => some (st, cs, "crash")
        | .ok none => some (st, { cs with decoded := #[] }, "null")
        | .ok (some out) =>
          some (st, { decoded := out.subsets.toArray, decInvalid := out.invalid, decTmpl := some t, last := cs.last, decFlag := flag },
            s!"ok {if out.invalid then 1 else 0} {out.subsets.length}")
    | _, _, _, _, _, _, _, _ => some (st, cs, "bad-op")
  | ["ds.decodelast", enf, fr, to] =>
    match st.tmpl, cs.last with
    | some t, some (flag, nsub, bytes) =>
      stepCodec st cs ["ds.decode", toString t.edition, enf, toString flag, toString nsub, fr, to,
        ",".intercalate (t.descs.map toString), toHex bytes]
    | _, _ => some (st, cs, "none")
  | ["spec.decode", ed, flag, nsub, descs, h, strict] =>
    -- the *reference decoder* (BufrSpec.RefDecode) on the given data section
    match ed.toNat?, flag.toNat?, nsub.toNat?, ((descs.splitOn ",").filter (· ≠ "")).mapM (·.toNat?), parseHex h with
    | some ed, some flag, some nsub, some ds, some bytes =>
      match Spec.refDecode T 100000 ed ds nsub (flag &&& 64 ≠ 0) (strict = "1") (bytesToBits bytes) with
      | none => some (st, cs, "none")
      | some subs => some (st, cs, "S " ++ " | ".intercalate (subs.map fun its => " ".intercalate (its.map fmtItem)))
    | _, _, _, _, _ => some (st, cs, "bad-op")
  | ["spec.reencode", ed, flag, nsub, descs, h, seed] =>
    -- decode with the reference decoder, encode again with the reference encoder using the legal
    -- freedoms chosen by `seed`, and make sure the reference decoder reads its own output back
    match ed.toNat?, flag.toNat?, nsub.toNat?, ((descs.splitOn ",").filter (· ≠ "")).mapM (·.toNat?), parseHex h, seed.toNat? with
    | some ed, some flag, some nsub, some ds, some bytes, some seed =>
      let comp := flag &&& 64 ≠ 0
      match Spec.refDecode T 100000 ed ds nsub comp false (bytesToBits bytes) with
      | none => some (st, cs, "none")
      | some subs =>
        let shapes := subs.map fun its => its.map fun (it : Spec.Item) => (it.desc, it.width, it.afW)
        let sameShape := match shapes with | [] => false | s0 :: rest => rest.all (· == s0)
        -- factors and new reference values must agree for compressed form
        let sameFactors := (Spec.transposeItems subs).all fun col =>
          match col with
          | [] => true
          | (it : Spec.Item) :: rest => !((Desc.f it.desc = 0 ∧ Desc.x it.desc = 31) ∨ it.kind = .newRef) || rest.all (·.raw = it.raw)
        -- character columns wider than 63 octets cannot list their values (NBINC has 6 bits)
        let stringsFit := (Spec.transposeItems subs).all fun col =>
          match col with
          | [] => true
          | (it : Spec.Item) :: rest => !(it.kind = .ccitt ∧ it.width / 8 > 63) || rest.all (·.str = it.str)
        let comp' : Bool := if decide (nsub ≥ 1) && sameShape && sameFactors && stringsFit then (Spec.choice seed 999) % 3 ≠ 0 else false
        let pad := 0   -- the octet fill is the only padding FM 94 allows
        let bits := Spec.refEncode seed comp' subs pad
        let bits := if ed ≤ 3 ∧ (bits.length / 8) % 2 = 1 then bits ++ List.replicate 8 false else bits
        let flag' := if comp' then flag ||| 64 else flag &&& 191
        match Spec.refDecode T 100000 ed ds nsub comp' true bits with
        | some subs' => if subs' = subs then some (st, cs, s!"{flag'} {toHex (Spec.bitsToBytes bits)}") else some (st, cs, "spec-mismatch")
        | none => some (st, cs, "spec-reject")
    | _, _, _, _, _, _ => some (st, cs, "bad-op")
  | ["ds.decodemsg", h] =>
    -- `bufr_memread_message` then `bufr_decode_message` (default enforcement of a message read: warn)
    match (if st.haveTables then parseHex h else none) with
    | none => some (st, cs, "bad-op")
    | some bytes =>
      match Frame.readMessage bytes with
      | .err => some (st, { cs with decoded := #[], decTmpl := none }, "noread")
      | .ok (m, consumed) =>
        let pre := s!"read {consumed} "
        match createTemplate T defaultFuel m.edition m.descs with
        | .error .fuel => some (st, cs, "diverge")
        | .error _ => some (st, { cs with decoded := #[], decTmpl := none }, pre ++ "null")
        | .ok t =>
          match decodeDataC T defaultFuel t .warnAllow m.nSubsets (m.s3Flag &&& 64 ≠ 0) m.s4Len m.s4Data 0 0 with
          | .error .fuel => some (st, cs, "diverge")
          | .error .abort => some (st, cs, "abort")
          | .error .null => some (st, cs, "crash")
          | .ok none => some (st, { cs with decoded := #[], decTmpl := none }, pre ++ "null")
          | .ok (some out) =>
            some (st, { decoded := out.subsets.toArray, decInvalid := out.invalid, decTmpl := some t, last := cs.last, decFlag := m.s3Flag },
              pre ++ s!"ok {if out.invalid then 1 else 0} {out.subsets.length}")
  | ["dd.tocur"] =>
    -- the decoded dataset becomes the current one
    match cs.decTmpl with
    | some t =>
      some ({ st with tmpl := some t, subsets := cs.decoded.map (fun ns => ({ nodes := ns } : Subset)), invalid := cs.decInvalid,
                      dataFlag := cs.decFlag, hasDts := true },
            { cs with decoded := #[], decTmpl := none }, s!"ok {cs.decoded.size}")
    | none => some (st, cs, "none")
  | ["dd.merge", dp, sp, nb] =>
    -- `bufr_merge_dataset(current, dest_pos, decoded, src_pos, nb)`
    match dp.toInt?, sp.toInt?, nb.toInt?, st.tmpl, cs.decTmpl with
    | some dp, some sp, some nb, some td, some tsrc =>
      if dp < 0 ∨ sp < 0 then some (st, cs, "neg")      -- outside the model (and the property)
      else
        match createDatasubsetB T defaultFuel td with
        | .error _ => some (st, cs, "diverge")
        | .ok (blank, _) =>
          let (rc, subs) := mergeDataset (sameTemplate td tsrc) blank.nodes (st.subsets.toList.map (·.nodes))
            cs.decoded.toList dp.toNat sp.toNat nb
          some ({ st with subsets := (subs.map fun ns => ({ nodes := ns } : Subset)).toArray }, cs, s!"{rc} {subs.length}")
    | _, _, _, _, _ => some (st, cs, "none")
  | ["dd.list", k] =>
    match k.toNat? with
    | some k => match cs.decoded[k]? with
      | some [] => some (st, cs, "none")       -- allocated, never filled
      | some ns => some (st, cs, fmtNodes ns)
      | none => some (st, cs, "none")
    | none => some (st, cs, "bad-op")
  | ["dd.vals", k] =>
    match k.toNat? with
    | some k => match cs.decoded[k]? with
      | some [] => some (st, cs, "none")
      | some ns => some (st, cs, fmtVals ns)
      | none => some (st, cs, "none")
    | none => some (st, cs, "bad-op")
  | _ => none

end Drv
