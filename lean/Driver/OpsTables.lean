import BufrModel.Basic
import BufrModel.TableTypes
import BufrModel.Tables
/- driver ops for C12 (tbl.*): same protocol as harness/ops_tables.c, computed by the model.
   File IO happens here only; the parsers are pure functions of the file bytes. -/
open Bufr Bufr.Tbl
namespace Drv

structure TblSt where
  heap     : Heap := #[]
  objs     : List BTables := List.replicate 8 {}
  consumed : List Bool := List.replicate 8 false
  cur      : Nat := 0
  vlist    : List Int := []
  files    : List (String × Bytes) := []      -- in-line files (`tbl.file name hex`), newest first

def fmtEntryB (e : EntryB) : String :=
  s!"{e.desc} {e.scale} {e.ref} {e.nbits} {typeCode e.typ} {toHex (bytesOfStr e.unit)} {toHex (bytesOfStr e.descr)}"

def fmtEntryD (e : EntryD) : String :=
  String.intercalate " " (toString e.desc :: e.members.map toString)

/-- sorted by descriptor, stable: entries with the same descriptor keep their array order -/
def fmtDump (ls : List (Nat × String)) : String :=
  let a := isort (·.1) ls
  if a.isEmpty then "0" else s!"{a.length} " ++ String.intercalate ";" (a.map (·.2))

def readFileBytes (st : TblSt) (path : String) : IO (Option Bytes) := do
  if path.startsWith "@" then
    return (st.files.find? (·.1 == (path.drop 1).toString)).map (·.2)
  try
    let b ← IO.FS.readBinFile path
    return some (b.toList.map UInt8.toNat)
  catch _ => return none

def TblSt.T (st : TblSt) : BTables := st.objs.getD st.cur {}
def TblSt.setT (st : TblSt) (t : BTables) : TblSt := { st with objs := st.objs.set st.cur t }

def whichOf (s : String) : Which := if s.startsWith "l" then .loc else .master

def natList (ts : List String) : Option (List Nat) := ts.mapM (·.toNat?)

/-- `none` = not one of my ops -/
def stepTables (st : TblSt) (toks : List String) : IO (Option (TblSt × String)) := do
  let L := glibc
  let dead := st.consumed.getD st.cur false
  match toks with
  | "tbl.new" :: rest =>
    let k := (rest.head?.bind (·.toNat?)).getD 0
    if k ≥ 8 then return some (st, "bad-op") else
    return some ({ st with objs := st.objs.set k {}, consumed := st.consumed.set k false, cur := k }, "ok")
  | ["tbl.sel", k] =>
    match k.toNat? with
    | some k => if k ≥ 8 then return some (st, "bad-op") else return some ({ st with cur := k }, "ok")
    | none => return some (st, "bad-op")
  | [op, path] =>
    if op == "tbl.load_m_b" || op == "tbl.load_l_b" then
      if dead then return some (st, "consumed") else
      let f ← readFileBytes st path
      let w := if op == "tbl.load_l_b" then Which.loc else Which.master
      let (h, t, rc) := loadTableB L st.heap st.T w f
      return some ({ st.setT t with heap := h }, toString rc)
    else if op == "tbl.load_m_d" || op == "tbl.load_l_d" then
      if dead then return some (st, "consumed") else
      let f ← readFileBytes st path
      let w := if op == "tbl.load_l_d" then Which.loc else Which.master
      let (t, rc) := loadTableD L st.T w f
      return some (st.setT t, toString rc)
    else if op == "tbl.load_csv_b" then
      if dead then return some (st, "consumed") else
      let f ← readFileBytes st path
      let (h, t, rc) := loadCsvB L st.heap st.T f
      return some ({ st.setT t with heap := h }, toString rc)
    else if op == "tbl.load_csv_d" then
      if dead then return some (st, "consumed") else
      let f ← readFileBytes st path
      let (t, rc) := loadCsvD L st.T f
      return some (st.setT t, toString rc)
    else if op == "tbl.merge" then
      match path.toNat? with
      | some k =>
        if k ≥ 8 || k == st.cur then return some (st, "bad-op")
        else if dead || st.consumed.getD k false then return some (st, "consumed")
        else
          let (h, t) := mergeTables L st.heap st.T (st.objs.getD k {})
          return some ({ st.setT t with heap := h, consumed := st.consumed.set k true }, "ok")
      | none => return some (st, "bad-op")
    else if op == "tbl.fetchB" || op == "tbl.fetchD" || op == "tbl.match" then
      return stepPure st toks
    else if op == "tbl.dumpB" then
      if dead then return some (st, "consumed") else
      match (st.T.get (whichOf path)).tableB with
      | none => return some (st, "null")
      | some ids => return some (st, fmtDump ((ids.filterMap (deref st.heap)).map (fun e => (e.desc, fmtEntryB e))))
    else if op == "tbl.dumpD" then
      if dead then return some (st, "consumed") else
      match (st.T.get (whichOf path)).tableD with
      | none => return some (st, "null")
      | some es => return some (st, fmtDump (es.map (fun e => (e.desc, fmtEntryD e))))
    else if op == "tbl.checkloop" then
      if dead then return some (st, "consumed") else
      let (t, rc) := loadDEntries L st.T (whichOf path) (some [])
      return some (st.setT t, toString rc)
    else if op == "tbl.list_addv" then
      match path.toInt? with
      | some v => return some ({ st with vlist := st.vlist ++ [v] }, "ok")
      | none => return some (st, "bad-op")
    else if op == "tbl.use" then
      match path.toInt? with
      | some v =>
        match useTablesList st.vlist v with
        | some i => return some (st, s!"{i} {st.vlist.getD i 0}")
        | none => return some (st, "none")
      | none => return some (st, "bad-op")
    else return none
  | ["tbl.file", name, hex] =>
    match parseHex hex with
    | some b => return some ({ st with files := (name, b) :: st.files }, "ok")
    | none => return some (st, "bad-op")
  | ["tbl.version"] =>
    if dead then return some (st, "consumed") else
    return some (st, s!"{st.T.master.version} {st.T.loc.version}")
  | ["tbl.list_add", pb, pd] =>
    let fb ← readFileBytes st pb
    let fd ← readFileBytes st pd
    let (_, t, rb) := loadTableB L #[] {} .master fb
    let (t, rd) := loadTableD L t .master fd
    return some ({ st with vlist := st.vlist ++ [t.master.version] }, s!"{rb} {rd} {t.master.version}")
  | _ => return stepPure st toks
where
  stepPure (st : TblSt) (toks : List String) : Option (TblSt × String) :=
    let L := glibc
    let dead := st.consumed.getD st.cur false
    match toks with
    | "tbl.fetchB" :: d :: _ =>
      if dead then some (st, "consumed") else
      match d.toNat? with
      | some d =>
        let (r, t) := fetchB L st.heap st.T d
        some (st.setT t, match r with
          | none => "fault"
          | some none => "none"
          | some (some e) => fmtEntryB e)
      | none => some (st, "bad-op")
    | "tbl.fetchD" :: d :: _ =>
      if dead then some (st, "consumed") else
      match d.toNat? with
      | some d => some (st, match fetchD L st.T d with | none => "none" | some e => fmtEntryD e)
      | none => some (st, "bad-op")
    | "tbl.match" :: ds =>
      if dead then some (st, "consumed") else
      match natList ds with
      | some ds => some (st, match matchSeq st.T ds with | none => "none" | some e => toString e.desc)
      | none => some (st, "bad-op")
    | ["tbl.ingestB", w, d, sc, rf, nb, ty, u, ds] =>
      if dead then some (st, "consumed") else
      match d.toNat?, sc.toInt?, rf.toInt?, nb.toNat?, ty.toNat?.bind typeOfCode, parseHex u, parseHex ds with
      | some d, some sc, some rf, some nb, some ty, some u, some ds =>
        let e : EntryB := { desc := d, scale := sc, ref := rf, nbits := nb, typ := ty,
                            unit := strOfBytes u, descr := strOfBytes ds }
        let s := st.T.get (whichOf w)
        let arr := if s.ownsB then s.tableB.getD [] else []
        let h := st.heap.push (some e)
        let arr := sortB L h (arr ++ [st.heap.size])
        some ({ st.setT (st.T.put (whichOf w) { s with tableB := some arr, ownsB := true }) with heap := h }, "ok")
      | _, _, _, _, _, _, _ => some (st, "bad-op")
    | "tbl.ingestD" :: w :: d :: ms =>
      if dead then some (st, "consumed") else
      match d.toNat?, natList ms with
      | some d, some ms =>
        if ms.isEmpty then some (st, "bad-op") else
        let s := st.T.get (whichOf w)
        let arr := if s.ownsD then s.tableD.getD [] else []
        let arr := sortD L (arr ++ [{ desc := d, members := ms }])
        some (st.setT (st.T.put (whichOf w) { s with tableD := some arr, ownsD := true }), "ok")
      | _, _ => some (st, "bad-op")
    | _ => none

end Drv
