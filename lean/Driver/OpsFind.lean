import Driver.OpsCodec
import BufrModel.Find
/- driver ops for searching a data subset (C17): find.meta, find.quals, find.desc, find.vals -/
open Bufr Bufr.Find
namespace Drv

structure FindSt where
  metaOn : Bool := true
  ssQ : Std.HashMap Nat (List (List Nat)) := {}     -- qualifier lists of the built subsets
  ddQ : Std.HashMap Nat (List (List Nat)) := {}     -- … of the decoded subsets

/-- the harness's `is_num`: an optional minus sign and at least one digit, at most 11 characters -/
def findIsNum (s : String) : Bool :=
  let cs := s.toList
  let ds := match cs with | '-' :: r => r | r => r
  cs.length ≤ 11 && !ds.isEmpty && ds.all Char.isDigit

def findNum? (s : String) : Option Int :=
  if findIsNum s then
    match s.toList with
    | '-' :: r => (String.ofList r).toNat?.map fun n => -(n : Int)
    | _ => s.toNat?.map fun n => (n : Int)
  else none

def findHexNat? (s : String) (n : Nat) : Option Nat :=
  if s.length = n then s.toList.foldlM (fun acc c => (hexVal c).map (acc * 16 + ·)) 0 else none

/-- one key value: `i<int> f<8 hex> d<16 hex> l<int> s<hex|->`, as the constructors make it -/
def parseKeyVal (t : String) : Option Val :=
  let body := (t.drop 1).toString
  match t.toList.head? with
  | some 'i' => (findNum? body).map keyValInt32
  | some 'l' => (findNum? body).map Val.i64
  | some 'f' => (findHexNat? body 8).map fun b => Val.f32 (SF.ofFloatBits b)
  | some 'd' => (findHexNat? body 16).map fun b => Val.f64 (SF.ofDoubleBits b)
  | some 's' =>
    if body = "-" then some (.str [])
    else if body.isEmpty then none
    else (parseHexAux body.toList []).map fun bs => Val.str (bs.takeWhile (· ≠ 0))
  | _ => none

inductive KeyErr | bad | unsupported

/-- `[q]<descriptor>[=v{,v}]` -/
def parseKey (tok : String) : Except KeyErr Key :=
  -- `c<descriptor>=i<kind>,i<argument>`: a callback key (bufr_set_key_callback) with one of the harness's callbacks
  if tok.startsWith "c" then
    match ((tok.drop 1).toString).splitOn "=" with
    | [d, v] =>
      if !findIsNum d || d.startsWith "-" || d.length > 6 then .error .bad else
      let num (t : String) : Option Int :=
        if t.startsWith "i" && findIsNum ((t.drop 1).toString) && t.length ≤ 12 then ((t.drop 1).toString).toInt? else none
      match (v.splitOn ",").mapM num with
      | some [k, a] =>
        let desc := d.toNat?.getD 0
        if desc ≥ 0x20000 || k < 0 || k > 2 then .error .unsupported
        else .ok { desc := setBit desc CB_FLAG_BIT, vals := [Val.i32 k, Val.i32 (Bufr.SF.wrapI32 a)] }
      | _ => .error .bad
    | _ => .error .bad
  else
  let (isq, t) := if tok.startsWith "q" then (true, (tok.drop 1).toString) else (false, tok)
  let (ds, vs?) := match t.splitOn "=" with
    | [d] => (d, none)
    | d :: rest => (d, some ("=".intercalate rest))
    | [] => ("", none)
  if !findIsNum ds || ds.startsWith "-" || ds.length > 7 then .error .bad else
  let desc := ds.toNat?.getD 0
  let toks : List String := match vs? with | none => [] | some v => v.splitOn ","
  if toks.length > 64 then .error .bad else
  match toks.mapM parseKeyVal with
  | none => .error .bad
  | some vals =>
    let nv := vals.length
    let tlc := hasBit desc TLC_FLAG_BIT
    let qb := hasBit desc QUAL_FLAG_BIT
    let cb := hasBit desc CB_FLAG_BIT
    if tlc || (isq && (qb || cb || nv > 1)) || (cb && nv > 0) || (!isq && qb && (cb || nv > 1)) then .error .unsupported
    else if isq then .ok (setKeyQualifier desc vals.head?)
    else .ok { desc := desc, vals := vals }

def parseKeys : List String → Except KeyErr (List Key)
  | [] => .ok []
  | t :: rest =>
    match parseKey t with
    | .error e => .error e
    | .ok k => match parseKeys rest with
      | .error e => .error e
      | .ok ks => .ok (k :: ks)

/-- the harness's `well_typed`: string values only for string elements and vice versa -/
def wellTyped (ns : List Node) (keys : List Key) : Bool :=
  keys.all fun k => k.vals.all fun v => ns.all fun n =>
    !(n.desc == stripFlags k.desc && n.val.isSome && v.isSome) || (isStrVal n.val == isStrVal v)

def fmtQuals (qs : List (List Nat)) : String :=
  " ".intercalate (qs.map fun l => if l.isEmpty then "-" else ",".intercalate (l.map toString))

def getNodes (tm : TmplSt) (cs : CodecSt) (which k : String) : Option (Option (List Node)) :=
  -- outer none: bad-op; inner none: no such subset
  match findNum? k with
  | none => none
  | some k =>
    if k < 0 then some none else
    match which with
    | "ss" => some ((tm.subsets[k.toNat]?).map (·.nodes))
    | "dd" => some (cs.decoded[k.toNat]?)
    | _ => some none

def stepFind (tm : TmplSt) (cs : CodecSt) (st : FindSt) (toks : List String) : Option (FindSt × String) :=
  match toks with
  | ["find.meta", m] =>
    if m = "0" then some ({ st with metaOn := false }, "ok")
    else if m = "1" then some ({ st with metaOn := true }, "ok")
    else some (st, "bad-op")
  | ["find.quals", which, k] =>
    match getNodes tm cs which k with
    | none => some (st, "bad-op")
    | some none => some (st, "none")
    | some (some ns) =>
      let kk := (findNum? k).getD 0 |>.toNat
      let tbl := if which = "ss" then st.ssQ else st.ddQ
      let prev := match tbl[kk]? with
        | some p => if p.length = ns.length then p else List.replicate ns.length []
        | none => List.replicate ns.length []
      let (rc, qs) := expandQualifiers st.metaOn ns prev
      let st' := if which = "ss" then { st with ssQ := st.ssQ.insert kk qs } else { st with ddQ := st.ddQ.insert kk qs }
      some (st', if qs.isEmpty then s!"{rc}" else s!"{rc} {fmtQuals qs}")
  | ["find.desc", which, k, d, start] =>
    match getNodes tm cs which k, findNum? d, findNum? start with
    | some r, some d, some start =>
      match r with
      | none => some (st, "none")
      | some ns => some (st, s!"{findDescriptor ns (SF.wrapI32 d) (SF.wrapI32 start)}")
    | _, _, _ => some (st, "bad-op")
  | "find.vals" :: which :: k :: start :: keyToks =>
    match getNodes tm cs which k, findNum? start with
    | some r, some start =>
      match parseKeys keyToks with
      | .error .bad => some (st, "bad-op")
      | .error .unsupported => some (st, "unsupported")
      | .ok keys =>
        match r with
        | none => some (st, "none")
        | some ns =>
          if !wellTyped ns keys then some (st, "unsupported") else
          let kk := (findNum? k).getD 0 |>.toNat
          let tbl := if which = "ss" then st.ssQ else st.ddQ
          let quals := match tbl[kk]? with
            | some p => if p.length = ns.length then p else []
            | none => []
          some (st, s!"{findValues ns quals keys (SF.wrapI32 start)}")
    | _, _ => some (st, "bad-op")
  | _ => none

end Drv
