import BufrModel.Basic
import BufrModel.Ieee
/- driver ops for C19 (ieee.*) -/
open Bufr
namespace Drv

structure IeeeSt where
  nat : NativeSt := {}

def hexNat? (s : String) : Option Nat :=
  if s.isEmpty then none else
  s.toList.foldl (fun acc c => match acc, hexVal c with
    | some a, some d => some (16 * a + d)
    | _, _ => none) (some 0)

def hexFixed (digits n : Nat) : String :=
  String.ofList ((List.range digits).reverse.map fun i => hexDigit (n / 16 ^ i % 16))

/-- exact ⌊log₂|x|⌋ of the host float with bits `b` (0 for zero/inf/nan): the guess the driver uses
when the implementation's own guess is not supplied -/
def exactExp (w t b : Nat) : Int :=
  let f := b % 2 ^ t
  let e := b / 2 ^ t % 2 ^ w
  if e = 2 ^ w - 1 then 0
  else if e = 0 then (if f = 0 then 0 else (f.log2 : Int) + 2 - 2 ^ (w - 1) - t)
  else (e : Int) - (2 ^ (w - 1) - 1)

def selfTestEnv : SelfTestEnv :=
  { sizesOK := true, guess32 := exactExp 8 23, guess64 := exactExp 11 52 }

def fmtF (w t : Nat) (v : FVal) : String :=
  match v with
  | .nan => "nan"
  | _ => match hostBits w t v with
    | some b => hexFixed ((1 + w + t) / 4) b
    | none => "unrepresentable"

structure SweepAcc where
  nan : Nat := 0
  encBad : Nat := 0
  encFirst : String := "-"
  decBad : Nat := 0
  decFirst : String := "-"
  sum : Nat := 0

def sweep (w t : Nat) (useC : Bool) (start count stride : Nat) : String := Id.run do
  let k := 1 + w + t
  let digits := k / 4
  let mut a : SweepAcc := {}
  for i in [0:count] do
    let b := (start + i * stride) % 2 ^ k
    let v := hostVal w t b
    if v == FVal.nan then
      a := { a with nan := a.nan + 1 }
    else
      let g := exactExp w t b
      let enc := if k = 32 then ieeeEncodeSingle useC b g else ieeeEncodeDouble useC b g
      let dec := if k = 32 then ieeeDecodeSingle useC b else ieeeDecodeDouble useC b
      let decs := fmtF w t dec
      a := { a with sum := (a.sum + enc) % 2 ^ 64 }
      if enc ≠ b then
        a := { a with encBad := a.encBad + 1,
                      encFirst := if a.encBad = 0 then s!"{hexFixed digits b}:{hexFixed digits enc}" else a.encFirst }
      if decs ≠ hexFixed digits b then
        a := { a with decBad := a.decBad + 1,
                      decFirst := if a.decBad = 0 then s!"{hexFixed digits b}:{decs}" else a.decFirst }
  return s!"n={count} nan={a.nan} encbad={a.encBad} encfirst={a.encFirst} decbad={a.decBad} decfirst={a.decFirst} sum={hexFixed 16 a.sum} gbad=0"

def encLine (w t : Nat) (useC : Bool) (b : Nat) (g? : Option Int) : String :=
  let k := 1 + w + t
  let v := hostVal w t b
  let g := g?.getD (exactExp w t b)
  let enc := if k = 32 then ieeeEncodeSingle useC b g else ieeeEncodeDouble useC b g
  let ok : Bool := decide (GuessOKV (if k = 32 then cfg32 else cfg64) v g)
  s!"{hexFixed (k / 4) enc} {g}{if ok then "" else " contract-violated"}"

/-- `none` = not one of my ops -/
def stepIeee (st : IeeeSt) (toks : List String) : Option (IeeeSt × String) :=
  match toks with
  | ["ieee.native", u] => match u.toInt? with
    | some u =>
      let (n, r) := useCIeee754 selfTestEnv st.nat u
      some ({ st with nat := n }, s!"{r}")
    | none => some (st, "bad-op")
  | "ieee.enc32" :: h :: rest => match hexNat? h, rest with
    | some b, [] => if b < 2 ^ 32 then some (st, encLine 8 23 st.nat.cUse b none) else some (st, "bad-op")
    | some b, [g] => match g.toInt? with
      | some g => if b < 2 ^ 32 then some (st, encLine 8 23 st.nat.cUse b (some g)) else some (st, "bad-op")
      | none => some (st, "bad-op")
    | _, _ => some (st, "bad-op")
  | "ieee.enc64" :: h :: rest => match hexNat? h, rest with
    | some b, [] => if b < 2 ^ 64 then some (st, encLine 11 52 st.nat.cUse b none) else some (st, "bad-op")
    | some b, [g] => match g.toInt? with
      | some g => if b < 2 ^ 64 then some (st, encLine 11 52 st.nat.cUse b (some g)) else some (st, "bad-op")
      | none => some (st, "bad-op")
    | _, _ => some (st, "bad-op")
  | ["ieee.dec32", h] => match hexNat? h with
    | some b => if b < 2 ^ 32 then some (st, fmtF 8 23 (ieeeDecodeSingle st.nat.cUse b)) else some (st, "bad-op")
    | none => some (st, "bad-op")
  | ["ieee.dec64", h] => match hexNat? h with
    | some b => if b < 2 ^ 64 then some (st, fmtF 11 52 (ieeeDecodeDouble st.nat.cUse b)) else some (st, "bad-op")
    | none => some (st, "bad-op")
  | ["ieee.sweep32", a, n, s] => match hexNat? a, n.toNat?, s.toNat? with
    | some a, some n, some s => some (st, sweep 8 23 st.nat.cUse a n s)
    | _, _, _ => some (st, "bad-op")
  | ["ieee.sweep64", a, n, s] => match hexNat? a, n.toNat?, s.toNat? with
    | some a, some n, some s => some (st, sweep 11 52 st.nat.cUse a n s)
    | _, _, _ => some (st, "bad-op")
  | ["ieee.xsweep32", _, _, _] => some (st, "c-only")   -- implementation-only bulk op (oracle)
  | ["ieee.xsweep64", _, _, _] => some (st, "c-only")
  | ["ieee.libm"] => some (st, "pow=0 powf=0 frac=0")
  | _ => none

end Drv
