import Driver.OpsCodec
import BufrModel.Dump
/- driver ops for C13: text dump of a dataset, its loader, and the message a dataset encodes to -/
open Bufr Bufr.Dump
namespace Drv

structure D13Loaded where
  ds : Dataset
  msg : String

structure DumpSt where
  hdrS : Hdr := {}                 -- header of the constructed dataset
  hdrD : Hdr := {}                 -- header of the decoded dataset
  dumps : List (List Nat) := []    -- every text dumped since `reset`, oldest first
  loaded : Array D13Loaded := #[]
  lastMsg : Option (List Nat) := none   -- the message the last `ds.msg` wrote (`ds.decodemsg @`)

def d13FmtHdr (h : Hdr) : String :=
  s!"mt={h.masterTable} centre={h.centre} sub={h.subCentre} upd={h.updSeq} type={h.msgType} isub={h.interSub} " ++
  s!"lsub={h.localSub} mver={h.masterVer} lver={h.localVer} year={h.year} month={h.month} day={h.day} " ++
  s!"hour={h.hour} minute={h.minute} second={h.second} flag={h.dataFlag} hs=" ++
  (match h.headerString with | some s => toHex s | none => "none")

def d13IntTok (s : String) : Option Int :=
  match s.toInt? with
  | some v => if -2147483647 ≤ v ∧ v ≤ 2147483647 then some v else none
  | none => none

def d13HdrSet (h : Hdr) (tok : String) : Option Hdr :=
  match tok.splitOn "=" with
  | [k, v] =>
    match d13IntTok v with
    | none => none
    | some n =>
      let sh := Printf.wrapI16 n
      if k = "mt" then some { h with masterTable := sh }
      else if k = "centre" then some { h with centre := n }
      else if k = "sub" then some { h with subCentre := sh }
      else if k = "upd" then some { h with updSeq := sh }
      else if k = "type" then some { h with msgType := sh }
      else if k = "isub" then some { h with interSub := sh }
      else if k = "lsub" then some { h with localSub := sh }
      else if k = "mver" then some { h with masterVer := sh }
      else if k = "lver" then some { h with localVer := sh }
      else if k = "year" then some { h with year := sh }
      else if k = "month" then some { h with month := sh }
      else if k = "day" then some { h with day := sh }
      else if k = "hour" then some { h with hour := sh }
      else if k = "minute" then some { h with minute := sh }
      else if k = "second" then some { h with second := sh }
      else if k = "flag" then some { h with dataFlag := n }
      else none
  | _ => none

/-- `a,b;c,d`: meta text per node (hex or `-`), subsets separated by `;` -/
def d13ParseMetas (s : String) : Option (List (List (List Nat))) :=
  (s.splitOn ";").mapM fun sub =>
    if sub = "" then some [] else (sub.splitOn ",").mapM fun m => parseHex m

/-- the dataset an op addresses (`s`: constructed, `d`: decoded) with its template -/
def d13PickDs (tm : TmplSt) (cs : CodecSt) (st : DumpSt) (w : String) : Option (Template × Dataset) :=
  if w = "s" then
    match tm.tmpl with
    | some t => if tm.hasDts then some (t, { hdr := st.hdrS, subsets := tm.subsets.toList.map (·.nodes) }) else none
    | none => none
  else if w = "d" then
    match cs.decTmpl with
    | some t => some (t, { hdr := st.hdrD, subsets := cs.decoded.toList })
    | none => none
  else none

def d13MsgStr (o : Option (List Nat)) : String :=
  match o with
  | some bs => toHex bs
  | none => "werr"

/-- `bufr_decode_message` hands Section 1, the header string and the Section 3 flags of the message to the dataset
(`bufr_copy_sect1`, `data_flag |= s3.flag`, SUSPICIOUS for a master table other than 0) -/
def d13HdrOfMsg (m : Frame.Msg) (invalid : Bool) : Hdr :=
  { masterTable := m.s1.masterTable, centre := m.s1.centre, subCentre := m.s1.subCentre, updSeq := m.s1.updSeq,
    msgType := m.s1.msgType, interSub := m.s1.interSub, localSub := m.s1.localSub, masterVer := m.s1.masterVer,
    localVer := m.s1.localVer, year := m.s1.year, month := m.s1.month, day := m.s1.day, hour := m.s1.hour,
    minute := m.s1.minute, second := m.s1.second,
    dataFlag := ((m.s3Flag ||| (if invalid then 256 else 0) ||| (if m.s1.masterTable ≠ 0 then 512 else 0) : Nat) : Int),
    headerString := m.header, s1data := m.s1.data }

/-- what the codec ops do to the headers: `ds.decodemsg` fills the decoded dataset's header from the message it read,
`dd.tocur` makes the decoded dataset (header included) the current one -/
def d13AfterCodec (st : DumpSt) (toks : List String) (out : String) : DumpSt :=
  match toks with
  | ["ds.decodemsg", h] =>
    match out.splitOn " " with
    | ["read", _, "ok", inv, _] =>
      (match parseHex h with
       | some bytes =>
         (match Frame.readMessage bytes with
          | .ok (m, _) => { st with hdrD := d13HdrOfMsg m (inv = "1") }
          | .err => st)
       | none => st)
    | _ => st
  | ["dd.tocur"] => if out.startsWith "ok" then { st with hdrS := st.hdrD } else st
  | _ => st

def stepDump (tm : TmplSt) (cs : CodecSt) (st : DumpSt) (toks : List String) :
    Option (TmplSt × CodecSt × DumpSt × String) :=
  let T := tm.cur.toTables
  match toks with
  | "ds.hdr" :: w :: args =>
    match d13PickDs tm cs st w with
    | none => some (tm, cs, st, "none")
    | some _ =>
      let h0 := if w = "s" then st.hdrS else st.hdrD
      match args.foldl (fun (acc : Option Hdr) t => acc.bind (fun h => d13HdrSet h t)) (some h0) with
      | none => some (tm, cs, st, "bad-op")
      | some h => some (tm, cs, if w = "s" then { st with hdrS := h } else { st with hdrD := h }, d13FmtHdr h)
  | ["ds.hstr", w, v] =>
    match d13PickDs tm cs st w with
    | none => some (tm, cs, st, "none")
    | some _ =>
      let hs : Option (Option (List Nat)) := if v = "none" then some none else (parseHex v).map (fun b => some (Printf.cstr b))
      match hs with
      | none => some (tm, cs, st, "bad-op")
      | some hs =>
        some (tm, cs, if w = "s" then { st with hdrS := { st.hdrS with headerString := hs } }
                      else { st with hdrD := { st.hdrD with headerString := hs } }, "ok")
  | ["ds.s1data", w, v] =>
    match d13PickDs tm cs st w with
    | none => some (tm, cs, st, "none")
    | some (t, _) =>
      match parseHex v with
      | none => some (tm, cs, st, "bad-op")
      | some d =>
        let st' := if w = "s" then { st with hdrS := { st.hdrS with s1data := d } } else { st with hdrD := { st.hdrD with s1data := d } }
        some (tm, cs, st', s!"{(sect1Of (Frame.normEdition t.edition) { s1data := d }).len}")
  | "ds.dump" :: w :: tz :: rest =>
    match tz.toInt?, (match rest with | [] => some [] | [m] => d13ParseMetas m | _ => none) with
    | some tz, some metas =>
      match d13PickDs tm cs st w with
      | none => some (tm, cs, st, "none")
      | some (t, ds) =>
        let txt := Dump.print (tz ≠ 0) t.edition metas ds
        some (tm, cs, { st with dumps := st.dumps ++ [txt] }, s!"{ds.subsets.length} {toHex txt}")
    | _, _ => some (tm, cs, st, "bad-op")
  | ["ds.msg", w, c] =>
    match c.toInt? with
    | none => some (tm, cs, st, "bad-op")
    | some c =>
      match d13PickDs tm cs st w with
      | none => some (tm, cs, st, "none")
      | some (t, ds) =>
        let (ss, bad, bytes) := encodeMessage T t ds c
        if w = "s" then
          let tm' := { tm with subsets := (ss.map fun ns => ({ nodes := ns } : Subset)).toArray, invalid := tm.invalid || bad }
          let st' := if bad then { st with hdrS := { st.hdrS with dataFlag := orI32 st.hdrS.dataFlag 256 } } else st
          some (tm', cs, { st' with lastMsg := bytes }, d13MsgStr bytes)
        else
          let cs' := { cs with decoded := ss.toArray, decInvalid := cs.decInvalid || bad }
          let st' := if bad then { st with hdrD := { st.hdrD with dataFlag := orI32 st.hdrD.dataFlag 256 } } else st
          some (tm, cs', { st' with lastMsg := bytes }, d13MsgStr bytes)
  | ["ds.loadtext", w, c, h] =>
    let tmplOf : Option Template :=
      match d13PickDs tm cs st w with
      | some (t, _) => some t
      | none => if w = "s" then tm.tmpl else none
    match c.toInt?, (if h = "@" then some st.dumps.flatten else parseHex h), tmplOf with
    | some c, some bytes, some t =>
      let (dss, fin) := loadAll T t defaultFuel (bytes.length + 1) {} bytes
      let fin := if dss.length > 16 then -99 else fin
      let dss := dss.take 16
      let recs := dss.map fun ds =>
        let (ss, bad, bytes) := encodeMessage T t ds c
        -- the listing is taken before the dataset is encoded
        ({ ds := ds, msg := d13MsgStr bytes } : D13Loaded)
      some (tm, cs, { st with loaded := recs.toArray }, s!"{dss.length} {fin}")
    | none, _, _ => some (tm, cs, st, "bad-op")
    | _, none, _ => some (tm, cs, st, "bad-op")
    | _, _, none => some (tm, cs, st, "none")
  | ["ds.clear", "s"] =>
    some ({ tm with subsets := #[], invalid := false, hasDts := false }, cs, { st with hdrS := {} }, "ok")
  | ["ld.nsub", d] =>
    match d.toNat?.bind (st.loaded[·]?) with
    | some l => some (tm, cs, st, s!"{l.ds.subsets.length}")
    | none => some (tm, cs, st, "none")
  | ["ld.list", d, k] =>
    match d.toNat?.bind (st.loaded[·]?), k.toNat? with
    | some l, some k =>
      match l.ds.subsets[k]? with
      | some ns => some (tm, cs, st, fmtNodes ns)
      | none => some (tm, cs, st, "none")
    | _, _ => some (tm, cs, st, "none")
  | ["ld.vals", d, k] =>
    match d.toNat?.bind (st.loaded[·]?), k.toNat? with
    | some l, some k =>
      match l.ds.subsets[k]? with
      | some ns => some (tm, cs, st, fmtVals ns)
      | none => some (tm, cs, st, "none")
    | _, _ => some (tm, cs, st, "none")
  | ["ld.hdr", d] =>
    match d.toNat?.bind (st.loaded[·]?) with
    | some l => some (tm, cs, st, d13FmtHdr l.ds.hdr)
    | none => some (tm, cs, st, "none")
  | ["ld.msg", d] =>
    match d.toNat?.bind (st.loaded[·]?) with
    | some l => some (tm, cs, st, l.msg)
    | none => some (tm, cs, st, "none")
  | _ => none

end Drv
