import Driver.OpsTemplate
import BufrModel.LocalTables
/- driver ops for C20 (lt.*): local table update messages -/
open Bufr Bufr.LT
namespace Drv

/-- a table set made by `lt.def` / `lt.extract`: the master part it was built on and its local arrays -/
structure LtSet where
  master : TblSet := {}
  loc : Local := {}

structure LtSt where
  sets : Std.HashMap String LtSet := {}
  last : List Nat := []          -- the bytes the last `lt.store` printed

/-- the lookups of a table set: the master part with the local entries on top -/
def LtSet.tbl (s : LtSet) : TblSet :=
  { b := s.loc.b.foldl (fun m e => m.insert e.desc e.toEntryB) s.master.b,
    d := s.loc.d.foldl (fun m e => if Desc.f e.desc = 3 then m.insert e.desc e.toEntryD else m) s.master.d }

def findSet (tm : TmplSt) (lt : LtSt) (name : String) : Option (LtSet × Bool) :=
  match lt.sets[name]? with
  | some s => some (s, true)
  | none => (tm.sets[name]?).map fun t => ({ master := t, loc := {} }, false)

def intTok (s : String) (lo hi : Int) : Option Int :=
  let body := if s.startsWith "-" then (s.drop 1).toString else s
  if body.isEmpty ∨ ¬ body.toList.all Char.isDigit then none
  else match s.toInt? with
    | some v => if lo ≤ v ∧ v ≤ hi then some v else none
    | none => none

/-- hex of a C string: no NUL octet -/
def cstrTok (s : String) : Option (List Nat) :=
  match parseHex s with
  | some bs => if bs.contains 0 then none else some bs
  | none => none

def parseEntry (tok : String) : Option (Sum LB LD) :=
  match tok.splitOn ":" with
  | ["B", d, n, u, sc, r, w] => do
    let d ← intTok d 0 999999
    let n ← cstrTok n
    let u ← cstrTok u
    let sc ← intTok sc (-2147483648) 2147483647
    let r ← intTok r (-2147483648) 2147483647
    let w ← intTok w 0 2147483647
    pure (.inl { desc := d.toNat, name := n, unit := u, scale := sc, ref := r, width := w.toNat })
  | ["D", d, ms] => do
    let d ← intTok d 0 999999
    let ms ← ((ms.splitOn ",").filter (· ≠ "")).mapM fun m => intTok m 0 2147483647
    if ms.length > 1100 then none
    else pure (.inr { desc := d.toNat, members := ms.map Int.toNat })
  | _ => none

def fmtOpt (o : Option (List Nat)) : String := match o with | some b => toHex b | none => "null"

def fmtXB (e : XB) : String :=
  s!"B:{e.desc}:{fmtOpt e.name}:{fmtOpt e.unit}:{e.scale}:{e.ref}:{e.width}:{e.typ}"
def fmtXD (e : XD) : String := s!"D:{e.desc}:{",".intercalate (e.members.map toString)}"

def fmtEntries (b : List XB) (d : List XD) : String :=
  if b.isEmpty ∧ d.isEmpty then "-" else " ".intercalate (b.map fmtXB ++ d.map fmtXD)

def fmtLocal (l : Local) : String :=
  s!"{l.cat} {toHex l.catDesc} {fmtEntries (l.b.map XB.ofLB) (l.d.map XD.ofLD)}"

/-- `bufr_create_tables(); bufr_merge_tables(t, base)`: the local arrays of a copy -/
def copyLocal (l : Local) : Local := mergeLocal {} l

def stepLocal (tm : TmplSt) (lt : LtSt) (toks : List String) : Option (TmplSt × LtSt × String) :=
  match toks with
  | "lt.def" :: name :: base :: cat :: cd :: entries =>
    match findSet tm lt base, intTok cat (-1000) 1000, cstrTok cd, entries.mapM parseEntry with
    | some (bs, _), some cat, some cd, some es =>
      let x : Local := { b := es.filterMap (fun e => match e with | .inl b => some b | .inr _ => none),
                         d := es.filterMap (fun e => match e with | .inr d => some d | .inl _ => none) }
      let l := mergeLocal (copyLocal bs.loc) x
      let l := setCategory (setCategory l bs.loc.cat (some bs.loc.catDesc)) cat (some cd)
      if lt.sets.size ≥ 32 ∧ !lt.sets.contains name then some (tm, lt, "bad-op") else
      some (tm, { lt with sets := lt.sets.insert name { master := bs.master, loc := l } }, s!"ok {l.b.length} {l.d.length}")
    | _, _, _, _ => some (tm, lt, "bad-op")
  | ["lt.use", name] =>
    match findSet tm lt name with
    | some (s, _) => some ({ tm with cur := s.tbl, haveTables := true }, lt, "ok")
    | none => some (tm, lt, "fail")
  | ["lt.dump", name] =>
    match lt.sets[name]? with
    | some s => some (tm, lt, fmtLocal s.loc)
    | none => some (tm, lt, "none")
  | ["lt.store", name, ed] =>
    match intTok ed 0 255 with
    | none => some (tm, lt, "bad-op")
    | some ed =>
      match findSet tm lt name with
      | none => some (tm, lt, "none")
      | some (s, _) =>
        -- the harness makes a template of 0 01 001 from the table set; its tables are a merged copy
        if (s.tbl.toTables.fetchB 1001).isNone then some (tm, lt, "notemplate") else
        let l := copyLocal s.loc
        let l := { l with cat := s.loc.cat, catDesc := s.loc.catDesc }
        match store s.master.toTables defaultFuel ed.toNat l with
        | .nothing => some (tm, { lt with last := [] }, "0 -")
        | .failed => some (tm, { lt with last := [] }, "-1 -")
        | .crash => some (tm, lt, "crash")
        | .wrote bytes => some (tm, { lt with last := bytes }, s!"0 {toHex bytes}")
  | ["lt.extract", with_, newname, h] =>
    match findSet tm lt with_, (if h = "last" then some lt.last else parseHex h) with
    | some (ws, _), some bytes =>
      match extractFromBytes ws.tbl.toTables (!ws.tbl.b.isEmpty) defaultFuel bytes with
      | .noread => some (tm, lt, "noread")
      | .null => some (tm, lt, "null")
      | .notables => some (tm, lt, "notables")
      | .crash => some (tm, lt, "crash")
      | .diverge => some (tm, lt, "diverge")
      | .specDiffers => some (tm, lt, "spec-differs")
      | .ok inv x =>
        let l := mergeLocal (copyLocal ws.loc) x.toLocal
        let l := { l with cat := x.cat, catDesc := x.catDesc }
        let lt' := if lt.sets.size ≥ 32 ∧ !lt.sets.contains newname then lt
                   else { lt with sets := lt.sets.insert newname { master := ws.master, loc := l } }
        -- a dataset flagged invalid: only the shape (see the harness)
        if inv then some (tm, lt', s!"ok 1 {x.b.length} {x.d.length}")
        else some (tm, lt', s!"ok 0 {x.cat} {toHex x.catDesc} {fmtEntries x.b x.d}")
    | _, _ => some (tm, lt, "bad-op")
  | _ => none

end Drv
