import BufrModel.Own
/- driver ops for C16: the ownership model run against the `own.*` vocabulary of harness/ops_own.c.
   A line is `<op> <args> [=> <what the implementation answered>]`: the data-dependent shapes of newly built
   objects come from the implementation's answer (two_pass), everything structural is the model's. -/
open Bufr Bufr.Own
namespace Drv

structure OwnSt where
  s : Own.State := {}
  bad : Bool := false          -- a transition was not valid in the model: every later audit says so

def ownZeros : String := ",".intercalate (Kind.all.map fun _ => "0")

private def slotOf (t : String) : Option Nat :=
  match t.toList with
  | [c] => if '0' ≤ c ∧ c ≤ '7' then some (c.toNat - '0'.toNat) else none
  | _ => none

private def held (st : OwnSt) (k : Nat) : Bool := (st.s.slot? k).isSome

/-- `<t>` | `@name` | `L<l>:<v>` -/
private def parseTArg (t : String) : Option TArg :=
  if t.startsWith "@" then some .ext
  else match t.toList with
    | 'L' :: c :: ':' :: rest =>
      if '0' ≤ c ∧ c ≤ '7' then (String.ofList rest).toNat?.map fun v => .listed (c.toNat - '0'.toNat) v else none
    | _ => (slotOf t).map .slot

private def nat3 (x : String) : Option (List Nat) := (x.splitOn ":").mapM (·.toNat?)

private def parseShape (x : String) : Option Shape :=
  match nat3 x with
  | some [d, v, af, afd, rt, dp, ar] => some { d := d, v := v, af := af, afd := afd, rt := rt, dpbm := dp, arr := ar }
  | _ => none

private def parseTShape (x : String) : Option TShape :=
  match nat3 x with
  | some [d, v, af, afd, rt, ar, tbe] => some { d := d, v := v, af := af, afd := afd, rt := rt, arr := ar, tbe := tbe }
  | _ => none

private def fmtShape (x : Shape) : String := s!"{x.d}:{x.v}:{x.af}:{x.afd}:{x.rt}:{x.dpbm}:{x.arr}"
private def fmtTShape (x : TShape) : String := s!"{x.d}:{x.v}:{x.af}:{x.afd}:{x.rt}:{x.arr}:{x.tbe}"

/-- `c0` / `c1` -/
private def parseFlag (p : Char) (x : String) : Option Nat :=
  match x.toList with
  | c :: rest => if c = p then (String.ofList rest).toNat? else none
  | [] => none

/-- the four `state:count` fields of a printed tables state -/
private def parseFields (xs : List String) : Option (List (Nat × Nat)) :=
  xs.mapM fun x => match nat3 x with | some [a, b] => some (a, b) | _ => none

private def arrayCount (n : Node) : Nat := n.pay.entryB + n.pay.entryD

/-- state of the tables node `x` as the harness prints it -/
def fmtTables (s : Own.State) (x : Nat) : String :=
  let fs := (List.range 4).map fun f =>
    match fld s x f with
    | .own a => s!"1:{match s.find? a with | some n => arrayCount n | none => 0}"
    | .ref t => s!"2:{match s.find? t with | some n => arrayCount n | none => 0}"
    | .none =>
      match s.find? x with
      | some n => (match n.ext.find? (fun e => e.1 = f) with | some e => s!"2:{e.2}" | none => "0:0")
      | none => "0:0"
  let c := match s.find? x with | some n => n.pay.array | none => 0
  " ".intercalate fs ++ s!" c{c}"

private def tablesOfTemplate (s : Own.State) (m : Nat) : Option Nat := (s.child? m roleTables).map (·.id)
private def tablesOfDataset (s : Own.State) (d : Nat) : Option Nat :=
  match s.child? d roleTemplate with
  | some tm => tablesOfTemplate s tm.id
  | none => none

private def tshapeOf (n : Node) : TShape :=
  { d := n.pay.descriptor, v := n.pay.value, af := n.pay.af, afd := n.pay.afd, rt := n.pay.rtmd, arr := n.pay.array, tbe := n.pay.entryB }

private def rootName (s : Own.State) (r : Nat) : Option (Nat × String) :=
  match s.handles.find? (fun h => h.2 = r) with
  | some h =>
    let k := h.1
    if k < 10 then some (100 + k, s!"T{k}") else if k < 20 then some (200 + k, s!"M{k - 10}")
    else if k < 30 then some (300 + k, s!"D{k - 20}") else if k < 40 then some (400 + k, s!"G{k - 30}")
    else some (k, s!"L{k - 40}")
  | none => none

/-- the root-level reference edges `X>Y,Z` in the harness's enumeration order (L, T, M, D, G) -/
def fmtRefs (s : Own.State) : String :=
  let edges : List ((Nat × String) × (Nat × String)) := s.nodes.flatMap fun n =>
    n.refs.filterMap fun r =>
      match s.find? r.2 with
      | some t => if t.root = n.root then none else
          match rootName s n.root, rootName s t.root with
          | some a, some b => some (a, b)
          | _, _ => none
      | none => none
  let srcs := (edges.map (·.1)).eraseDups
  let srcs := srcs.mergeSort (fun a b => a.1 ≤ b.1)
  let parts := srcs.map fun a =>
    let tg := ((edges.filter (·.1 = a)).map (·.2)).eraseDups.mergeSort (fun x y => x.1 ≤ y.1)
    a.2 ++ ">" ++ ",".intercalate (tg.map (·.2))
  if parts.isEmpty then "-" else " ".intercalate parts

private def apply (st : OwnSt) (ops : List Op) : OwnSt × Bool :=
  match Own.run st.s ops with
  | some s' => ({ st with s := s' }, true)
  | none => ({ st with bad := true }, false)

/-- run the ops; `out` formats the answer from the new state; an invalid transition prints `invalid` -/
private def doOps (st : OwnSt) (ops : List Op) (out : Own.State → String) : Option (OwnSt × String) :=
  let (st', ok) := apply st ops
  some (st', if ok then out st'.s else "invalid")

private def splitObs (toks : List String) : List String × List String :=
  let a := toks.takeWhile (· ≠ "=>")
  (a, (toks.drop (a.length + 1)))

private def extObs (src : TArg) (flds : List (Nat × Nat)) : List (Nat × Nat) :=
  match src with
  | .ext => (List.range 2).filterMap fun f => match flds[f]? with
      | some (2, n) => some (f, n)
      | _ => none
  | _ => []

private def subsetCount (s : Own.State) (d : Nat) : Nat :=
  match s.slot? (slotD d) with | some r => (subsetsOf s r).length | none => 0

/-- groups of `v<ver> f0 f1 f2 f3 c<k>` -/
private def tableGroups : List String → Option (List (Nat × List (Nat × Nat)))
  | [] => some []
  | v :: f0 :: f1 :: f2 :: f3 :: _c :: more =>
    match parseFlag 'v' v, parseFields [f0, f1, f2, f3], tableGroups more with
    | some ver, some fl, some r => some ((ver, fl) :: r)
    | _, _, _ => none
  | _ => none

def stepOwn (st : OwnSt) (toks : List String) : Option (OwnSt × String) :=
  let (cmd, obs) := splitObs toks
  let bad : Option (OwnSt × String) := some (st, "bad-op")
  -- the library called the application's abort handler (or exit): the process is poisoned until `reset`
  if (cmd.head?.getD "").startsWith "own." && (obs = ["abort"] || obs = ["exit"]) then some (st, obs.head?.getD "abort") else
  match cmd with
  | ["own.base"] => some (st, "ok")
  | ["own.counts"] => some (st, ",".intercalate (st.s.counts.map toString))
  | ["own.audit"] => some (st, if wfb st.s && !st.bad then "ok" else "model-invalid")
  | ["own.refs"] => some (st, fmtRefs st.s)
  | ["own.lsan"] => some (st, "0")
  | ["own.freeall"] =>
    match freeAll st.s with
    | some s' => some ({ st with s := s' }, "ok")
    | none => some ({ st with bad := true }, "invalid")
  | ["own.tnew", t] =>
    match slotOf t with
    | some t => if held st (slotT t) then bad else doOps st [.tnew t] fun _ => "ok"
    | none => bad
  | ["own.tload", t, w, _path] =>
    match slotOf t, (match w with | "mb" => some 0 | "md" => some 1 | "lb" => some 2 | "ld" => some 3 | "cb" => some 0 | "cd" => some 1 | _ => none) with
    | some t, some f =>
      if !held st (slotT t) then bad else
      match obs with
      | rc :: f0 :: f1 :: f2 :: f3 :: _c :: [] =>
        match parseFields [f0, f1, f2, f3] with
        | some fl =>
          let (stt, n) := fl.getD f (0, 0)
          doOps st [.tload (.slot t) f (stt ≠ 0) n] fun s =>
            rc ++ " " ++ (match s.slot? (slotT t) with | some x => fmtTables s x | none => "?")
        | none => bad
      | _ => bad
    | _, _ => bad
  | ["own.tmerge", t, src] =>
    match slotOf t, parseTArg src with
    | some t, some sa =>
      if !held st (slotT t) || (resolveT st.s sa).isNone || sa = .slot t then bad else
      match obs with
      | "ok" :: f0 :: f1 :: f2 :: f3 :: _c :: [] =>
        match parseFields [f0, f1, f2, f3] with
        | some fl =>
          doOps st [.tmerge t sa (fl.getD 2 (0, 0)).2 (fl.getD 3 (0, 0)).2 (extObs sa fl)] fun s =>
            "ok " ++ (match s.slot? (slotT t) with | some x => fmtTables s x | none => "?")
        | none => bad
      | _ => bad
    | _, _ => bad
  | ["own.tstate", t] =>
    match slotOf t with
    | some t => (match st.s.slot? (slotT t) with | some x => some (st, fmtTables st.s x) | none => bad)
    | none => bad
  | ["own.tfree", t] =>
    match slotOf t with
    | some t => if !held st (slotT t) then bad else doOps st [.tfree t] fun _ => "ok"
    | none => bad
  | "own.lnew" :: l :: _dir :: _vs =>
    match slotOf l with
    | some l =>
      if held st (slotL l) then bad else
      match obs with
      | "ok" :: _n :: rest =>
        match (tableGroups rest).map (fun gs => gs.map fun (ver, fl) => (ver, (fl.getD 0 (0, 0)).2, (fl.getD 1 (0, 0)).2)) with
        | some tabs =>
          doOps st [.lnew l tabs] fun s =>
            match s.slot? (slotL l) with
            | some r =>
              let ts := listed s r
              s!"ok {ts.length}" ++ String.join (ts.map fun n => s!" v{versionOf n} " ++ fmtTables s n.id)
            | none => "?"
        | none => bad
      | ["null"] => some (st, "null")
      | _ => bad
    | none => bad
  | ["own.llocal", l, lb, ld] =>
    match slotOf l with
    | some l =>
      if !held st (slotL l) then bad else
      match obs with
      | "ok" :: _n :: rest =>
        match tableGroups rest with
        | some gs =>
          let ops : List Op := gs.flatMap fun (ver, fl) =>
            (if lb ≠ "-" then [Op.tload (.listed l ver) 2 ((fl.getD 2 (0, 0)).1 ≠ 0) (fl.getD 2 (0, 0)).2] else []) ++
            (if ld ≠ "-" then [Op.tload (.listed l ver) 3 ((fl.getD 3 (0, 0)).1 ≠ 0) (fl.getD 3 (0, 0)).2] else [])
          doOps st ops fun s =>
            match s.slot? (slotL l) with
            | some r =>
              let ts := listed s r
              s!"ok {ts.length}" ++ String.join (ts.map fun n => s!" v{versionOf n} " ++ fmtTables s n.id)
            | none => "?"
        | none => bad
      | _ => bad
    | none => bad
  | ["own.lfree", l] =>
    match slotOf l with
    | some l => if !held st (slotL l) then bad else doOps st [.lfree l] fun _ => "ok"
    | none => bad
  | "own.mnew" :: m :: src :: _ed :: _descs =>
    match slotOf m, parseTArg src with
    | some m, some sa =>
      if held st (slotM m) || (resolveT st.s sa).isNone then bad else
      match obs with
      | ["fail", c] =>
        (match parseFlag 'c' c with
         | some c => doOps st [.tcache sa (c ≠ 0)] fun _ => s!"fail c{c}"
         | none => bad)
      | ["ok", sh, f0, f1, f2, f3, cm, c] =>
        match parseTShape sh, parseFields [f0, f1, f2, f3], parseFlag 'c' cm, parseFlag 'c' c with
        | some sh, some fl, some cm, some c =>
          doOps st [.tcache sa (c ≠ 0), .mnew m sa sh (fl.getD 2 (0, 0)).2 (fl.getD 3 (0, 0)).2 (cm ≠ 0) (extObs sa fl)] fun s =>
            match s.slot? (slotM m) with
            | some r => (match s.find? r, tablesOfTemplate s r with
              | some n, some tb => s!"ok {fmtTShape (tshapeOf n)} {fmtTables s tb} c{c}"
              | _, _ => "?")
            | none => "?"
        | _, _, _, _ => bad
      | _ => bad
    | _, _ => bad
  | "own.madd" :: m :: _descs =>
    -- `bufr_template_add_DescValue` on a finalized template, then `bufr_finalize_template` again
    match slotOf m with
    | some m =>
      if !held st (slotM m) then bad else
      match obs with
      | [r, sh, c] =>
        (match parseTShape sh, parseFlag 'c' c with
         | some sh', some c' =>
           if r = "ok" ∨ r = "fail" then
             doOps st [.mset m sh', .mcache m (c' ≠ 0)] fun s =>
               match s.slot? (slotM m) with
               | some root => (match s.find? root with
                 | some n => s!"{r} {fmtTShape (tshapeOf n)} {c}"
                 | none => "?")
               | none => "?"
           else bad
         | _, _ => bad)
      | _ => bad
    | none => bad
  | ["own.mload", m, src, _path] =>
    match slotOf m, (if src = "-" then some none else (parseTArg src).map some) with
    | some m, some sa =>
      if held st (slotM m) || (match sa with | some a => (resolveT st.s a).isNone | none => false) then bad else
      let tc (c : Option String) : List Op := match sa, c with
        | some a, some c => (match parseFlag 'c' c with | some c => [.tcache a (c ≠ 0)] | none => [])
        | _, _ => []
      match obs with
      | "fail" :: rest =>
        doOps st (tc rest.head?) fun _ => " ".intercalate ("fail" :: rest)
      | "ok" :: sh :: f0 :: f1 :: f2 :: f3 :: cm :: rest =>
        match parseTShape sh, parseFields [f0, f1, f2, f3], parseFlag 'c' cm with
        | some sh, some fl, some cm =>
          doOps st (tc rest.head? ++ [.mload m sa sh fl (cm ≠ 0) (match sa with | some a => extObs a fl | none => [])]) fun s =>
            match s.slot? (slotM m) with
            | some r => (match s.find? r, tablesOfTemplate s r with
              | some n, some tb => " ".intercalate ([s!"ok {fmtTShape (tshapeOf n)} {fmtTables s tb}"] ++ rest)
              | _, _ => "?")
            | none => "?"
        | _, _, _ => bad
      | _ => bad
    | _, _ => bad
  | ["own.mcopy", m2, m1] =>
    match slotOf m2, slotOf m1 with
    | some m2, some m1 =>
      if held st (slotM m2) || !held st (slotM m1) then bad else
      match obs with
      | ["fail", c] =>
        (match parseFlag 'c' c with
         | some c => doOps st [.mcache m1 (c ≠ 0)] fun _ => s!"fail c{c}"
         | none => bad)
      | ["ok", _sh, f0, f1, f2, f3, cm, c] =>
        match parseFields [f0, f1, f2, f3], parseFlag 'c' cm, parseFlag 'c' c with
        | some fl, some cm, some c =>
          doOps st [.mcache m1 (c ≠ 0), .mcopy m2 m1 (fl.getD 2 (0, 0)).2 (fl.getD 3 (0, 0)).2 (cm ≠ 0)] fun s =>
            match s.slot? (slotM m2) with
            | some r => (match s.find? r, tablesOfTemplate s r with
              | some n, some tb => s!"ok {fmtTShape (tshapeOf n)} {fmtTables s tb} c{c}"
              | _, _ => "?")
            | none => "?"
        | _, _, _ => bad
      | _ => bad
    | _, _ => bad
  | ["own.mfree", m] =>
    match slotOf m with
    | some m => if !held st (slotM m) then bad else doOps st [.mfree m] fun _ => "ok"
    | none => bad
  | ["own.dnew", d, m] =>
    match slotOf d, slotOf m with
    | some d, some m =>
      if held st (slotD d) || !held st (slotM m) then bad else
      match obs with
      | ["fail", c] =>
        (match parseFlag 'c' c with
         | some c => doOps st [.mcache m (c ≠ 0)] fun _ => s!"fail c{c}"
         | none => bad)
      | ["ok", _sh, f0, f1, f2, f3, cm, c] =>
        match parseFields [f0, f1, f2, f3], parseFlag 'c' cm, parseFlag 'c' c with
        | some fl, some cm, some c =>
          doOps st [.mcache m (c ≠ 0), .dnew d m (fl.getD 2 (0, 0)).2 (fl.getD 3 (0, 0)).2 (cm ≠ 0)] fun s =>
            match s.slot? (slotD d) with
            | some r => (match s.child? r roleTemplate, tablesOfDataset s r with
              | some n, some tb => s!"ok {fmtTShape (tshapeOf n)} {fmtTables s tb} c{c}"
              | _, _ => "?")
            | none => "?"
        | _, _, _ => bad
      | _ => bad
    | _, _ => bad
  | ["own.dsub", d] =>
    match slotOf d with
    | some d =>
      if !held st (slotD d) then bad else
      match obs with
      | [pos, sh, e, c] =>
        match parseShape sh, parseFlag 'e' e, parseFlag 'c' c with
        | some sh, some e, some c =>
          let k := subsetCount st.s d
          doOps st [.dsub d sh, .dtmpl d e (c ≠ 0)] fun _ => s!"{k} {fmtShape sh} e{e} c{c}"
        | _, _, _ => some (st, " ".intercalate [pos, sh, e, c])
      | [pos, e, c] =>
        (match parseFlag 'e' e, parseFlag 'c' c with
         | some e', some c' => doOps st [.dtmpl d e' (c' ≠ 0)] fun _ => s!"{pos} {e} {c}"
         | _, _ => bad)
      | _ => bad
    | none => bad
  | "own.dfactors" :: d :: _k :: _v :: _ =>
    match slotOf d with
    | some d => if !held st (slotD d) then bad else some (st, " ".intercalate obs)
    | none => bad
  | ["own.dexpand", d, k] =>
    match slotOf d, k.toNat? with
    | some d, some k =>
      if !held st (slotD d) then bad else
      match obs with
      | [n, sh, e, c] =>
        match parseShape sh, parseFlag 'e' e, parseFlag 'c' c with
        | some sh, some e', some c' => doOps st [.dset d k sh, .dtmpl d e' (c' ≠ 0)] fun _ => s!"{n} {fmtShape sh} {e} {c}"
        | _, _, _ => bad
      | [n, e, c] =>
        (match parseFlag 'e' e, parseFlag 'c' c with
         | some e', some c' =>
           -- no such subset: the model must agree that there is none
           if k < subsetCount st.s d then some (st, "invalid") else doOps st [.dtmpl d e' (c' ≠ 0)] fun _ => s!"{n} {e} {c}"
         | _, _ => bad)
      | _ => bad
    | _, _ => bad
  | ["own.dfill", d, k, _seed, _mode] =>
    match slotOf d, k.toNat? with
    | some d, some k =>
      if !held st (slotD d) then bad else
      match obs with
      | ["none"] => if k < subsetCount st.s d then some (st, "invalid") else some (st, "none")
      | [n, sh] =>
        (match parseShape sh with
         | some sh => doOps st [.dset d k sh] fun _ => s!"{n} {fmtShape sh}"
         | none => bad)
      | _ => bad
    | _, _ => some (st, " ".intercalate obs)
  | ["own.dmerge", dd, dpos, ds, spos, nb] =>
    match slotOf dd, slotOf ds with
    | some dd, some ds =>
      if !held st (slotD dd) || !held st (slotD ds) then bad else
      match obs with
      | rc :: _after :: rest =>
        let e := rest.getD (rest.length - 2) ""
        let c := rest.getD (rest.length - 1) ""
        let blanks := (rest.take (rest.length - 2)).filterMap parseShape
        match rc.toInt?, parseFlag 'e' e, parseFlag 'c' c with
        | some rcv, some e', some c' =>
          let tail := String.join (blanks.map fun b => " " ++ fmtShape b) ++ s!" {e} {c}"
          if rcv < 0 then
            doOps st [.dtmpl dd e' (c' ≠ 0)] fun s => s!"{rc} {subsetCount s dd}" ++ tail
          else
            match dpos.toNat?, spos.toNat?, nb.toNat? with
            | some dp, some sp, some nbv =>
              -- blank subsets are made to reach the destination position, unless the template refuses to make one
              -- (then none is made): which of the two happened is read off the subset count the implementation reports
              let before := subsetCount st.s dd
              let attempted := if dp ≥ before then dp - before + 1 else 0
              let nb' := min nbv (subsetCount st.s ds)
              let okAfter := max (before + attempted) (if nb' = 0 then 0 else dp + nb')
              let made := if _after.toNat? = some okAfter then attempted else 0
              doOps st [.dmerge dd dp ds sp nbv made blanks, .dtmpl dd e' (c' ≠ 0)] fun s => s!"{rc} {subsetCount s dd}" ++ tail
            | _, _, _ => some (st, "invalid")
        | _, _, _ => bad
      | _ => bad
    | _, _ => bad
  | ["own.dfree", d] =>
    match slotOf d with
    | some d => if !held st (slotD d) then bad else doOps st [.dfree d] fun _ => "ok"
    | none => bad
  | ["own.dhdr", d, _h] =>
    match slotOf d with
    | some d => if !held st (slotD d) then bad else some (st, " ".intercalate obs |> fun o => if o = "" then "ok" else o)
    | none => bad
  | ["own.enc", g, d, _comp] =>
    match slotOf g, slotOf d with
    | some g, some d =>
      if held st (slotG g) || !held st (slotD d) then bad else
      match obs with
      | ["null"] => some (st, "null")
      | ["ok", a, b, c1, _c2, mdl, e, c] =>
        -- the allocation is predicted, not echoed: `bufr_alloc_sect4` gives `max_data_len + 10` octets, the slack
        -- `SafeWrites` (BufrProofs/OwnGrowth.lean) assumes when it shows that every write lands inside it
        (match parseFlag 'e' e, parseFlag 'c' c, mdl.toNat? with
         | some e', some c', some m => doOps st [.gnew g, .dtmpl d e' (c' ≠ 0)] fun _ => " ".intercalate ["ok", a, b, c1, toString (m + 10), mdl, e, c]
         | _, _, _ => bad)
      | _ => bad
    | _, _ => bad
  | ["own.gwrite", b, g] =>
    match slotOf b, slotOf g with
    | some _, some g => if !held st (slotG g) then bad else some (st, " ".intercalate obs)
    | _, _ => bad
  | "own.bset" :: _ => some (st, " ".intercalate obs)
  | "own.bcut" :: _ => some (st, " ".intercalate obs)
  | "own.bflip" :: _ => some (st, if obs.isEmpty then "ok" else " ".intercalate obs)
  | "own.bget" :: _ => some (st, " ".intercalate obs)
  | ["own.gread", g, b] =>
    match slotOf g, slotOf b with
    | some g, some _ =>
      if held st (slotG g) then bad else
      match obs with
      | "ok" :: _ => doOps st [.gnew g] fun _ => " ".intercalate obs
      | _ => some (st, " ".intercalate obs)     -- `fail`, or `bad-op` when the buffer slot is empty
    | _, _ => bad
  | ["own.gfree", g] =>
    match slotOf g with
    | some g => if !held st (slotG g) then bad else doOps st [.gfree g] fun _ => "ok"
    | none => bad
  | "own.dec" :: d :: g :: src :: range =>
    match slotOf d, slotOf g, parseTArg src with
    | some d, some g, some sa =>
      if held st (slotD d) || !held st (slotG g) || (resolveT st.s sa).isNone || !(range.length = 0 || range.length = 2) then bad else
      match obs with
      | ["null", c] =>
        (match parseFlag 'c' c with
         | some c' => doOps st [.tcache sa (c' ≠ 0)] fun _ => s!"null {c}"
         | none => bad)
      | "ok" :: inv :: n :: sh :: f0 :: f1 :: f2 :: f3 :: cm :: rest =>
        let c := rest.getD (rest.length - 1) ""
        let shs := (rest.take (rest.length - 1)).filterMap parseShape
        match parseTShape sh, parseFields [f0, f1, f2, f3], parseFlag 'c' cm, parseFlag 'c' c with
        | some tsh, some fl, some cmv, some cv =>
          doOps st [.tcache sa (cv ≠ 0), .dec d sa tsh (fl.getD 2 (0, 0)).2 (fl.getD 3 (0, 0)).2 (cmv ≠ 0) shs (extObs sa fl)] fun s =>
            match s.slot? (slotD d) with
            | some r => (match s.child? r roleTemplate, tablesOfDataset s r with
              | some tn, some tb =>
                s!"ok {inv} {(subsetsOf s r).length} {fmtTShape (tshapeOf tn)} {fmtTables s tb}" ++
                  String.join ((subsetsOf s r).map fun x => " " ++ fmtShape { d := x.pay.descriptor, v := x.pay.value, af := x.pay.af, afd := x.pay.afd, rt := x.pay.rtmd, dpbm := x.pay.dpbm, arr := x.pay.array }) ++ s!" {c}"
              | _, _ => "?")
            | none => "?"
        | _, _, _, _ => if n = "" then bad else bad
      | _ => bad
    | _, _, _ => bad
  | "own.dseq" :: d :: src :: _ed :: _descs =>
    -- `bufr_create_dataset_from_sequence`: a dataset, its template and one subset made from tables, like a decode
    match slotOf d, parseTArg src with
    | some d, some sa =>
      if held st (slotD d) || (resolveT st.s sa).isNone then bad else
      match obs with
      | ["null", c] =>
        (match parseFlag 'c' c with
         | some c' => doOps st [.tcache sa (c' ≠ 0)] fun _ => s!"null {c}"
         | none => bad)
      | "ok" :: inv :: _n :: sh :: f0 :: f1 :: f2 :: f3 :: cm :: rest =>
        let c := rest.getD (rest.length - 1) ""
        let shs := (rest.take (rest.length - 1)).filterMap parseShape
        match parseTShape sh, parseFields [f0, f1, f2, f3], parseFlag 'c' cm, parseFlag 'c' c with
        | some tsh, some fl, some cmv, some cv =>
          doOps st [.tcache sa (cv ≠ 0), .dec d sa tsh (fl.getD 2 (0, 0)).2 (fl.getD 3 (0, 0)).2 (cmv ≠ 0) shs (extObs sa fl)] fun s =>
            match s.slot? (slotD d) with
            | some r => (match s.child? r roleTemplate, tablesOfDataset s r with
              | some tn, some tb =>
                s!"ok {inv} {(subsetsOf s r).length} {fmtTShape (tshapeOf tn)} {fmtTables s tb}" ++
                  String.join ((subsetsOf s r).map fun x => " " ++ fmtShape { d := x.pay.descriptor, v := x.pay.value, af := x.pay.af, afd := x.pay.afd, rt := x.pay.rtmd, dpbm := x.pay.dpbm, arr := x.pay.array }) ++ s!" {c}"
              | _, _ => "?")
            | none => "?"
        | _, _, _, _ => bad
      | _ => bad
    | _, _ => bad
  | ["own.store", b, d] =>
    match slotOf b, slotOf d with
    | some _, some d => if !held st (slotD d) then bad else some (st, " ".intercalate obs)
    | _, _ => bad
  | ["own.extract", t, d] =>
    match slotOf t, slotOf d with
    | some t, some d =>
      if held st (slotT t) || !held st (slotD d) then bad else
      match obs with
      | ["null"] => some (st, "null")
      | ["ok", f0, f1, f2, f3, _c] =>
        (match parseFields [f0, f1, f2, f3] with
         | some fl => doOps st [.extract t (fl.getD 2 (0, 0)).2 (fl.getD 3 (0, 0)).2] fun s =>
             "ok " ++ (match s.slot? (slotT t) with | some x => fmtTables s x | none => "?")
         | none => bad)
      | _ => bad
    | _, _ => bad
  | ["own.dumpload", d, d2] =>
    match slotOf d, slotOf d2 with
    | some d, some d2 =>
      if !held st (slotD d) || !held st (slotD d2) then bad else
      match obs with
      | rc :: _n :: rest =>
        let e := rest.getD (rest.length - 2) ""
        let c := rest.getD (rest.length - 1) ""
        let shs := (rest.take (rest.length - 2)).filterMap parseShape
        (match parseFlag 'e' e, parseFlag 'c' c with
         | some e', some c' =>
           doOps st [.dreload d2 shs, .dtmpl d2 e' (c' ≠ 0)] fun s =>
             s!"{rc} {subsetCount s d2}" ++ String.join (shs.map fun b => " " ++ fmtShape b) ++ s!" {e} {c}"
         | _, _ => bad)
      | _ => bad
    | _, _ => bad
  | _ => none

end Drv
