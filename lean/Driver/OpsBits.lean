import BufrModel.Basic
import BufrModel.Bits
/- driver ops for C11 (w.* / r.*) -/
open Bufr
namespace Drv

structure BitsSt where
  w : W := W.new 0
  r : R := R.ofBytes []

def fmtW (w : W) : String := s!"{w.filled} {w.bitno} {w.maxDataLen}"
def fmtR (r : R) : String := s!"{r.cur} {r.bitno}"

/-- `none` = not one of my ops -/
def stepBits (st : BitsSt) (toks : List String) : Option (BitsSt × String) :=
  match toks with
  | ["w.new", n] => match n.toNat? with
    | some k => some ({ st with w := W.new k }, "ok")
    | none => some (st, "bad-op")
  | ["w.put", v, n] => match v.toNat?, n.toNat? with
    | some v, some n =>
      if n > 64 then some (st, "abort")
      else let w := st.w.putbits v n; some ({ st with w := w }, fmtW w)
    | _, _ => some (st, "bad-op")
  | ["w.putstr", h] => match parseHex h with
    | some bs => let w := st.w.putstring bs; some ({ st with w := w }, fmtW w)
    | none => some (st, "bad-op")
  | ["w.padstr", h, e] => match parseHex h, e.toNat? with
    | some bs, some e => let w := st.w.putPadString bs e; some ({ st with w := w }, fmtW w)
    | _, _ => some (st, "bad-op")
  | ["w.bytes"] => some (st, toHex st.w.bytes)
  | ["w.toreader"] =>
    let bs := st.w.bytes
    some ({ st with r := R.ofBytes bs }, s!"{bs.length}")
  | ["r.new", h] => match parseHex h with
    | some bs => some ({ st with r := R.ofBytes bs }, "ok")
    | none => some (st, "bad-op")
  | ["r.get", n] => match n.toNat? with
    | some n => let (v, e, r) := st.r.getbits n; some ({ st with r := r }, s!"{v} {e} {fmtR r}")
    | none => some (st, "bad-op")
  | ["r.skip", n] => match n.toNat? with
    | some n => let (e, r) := st.r.skipBits n; some ({ st with r := r }, s!"{e} {fmtR r}")
    | none => some (st, "bad-op")
  | ["r.getstr", n] => match n.toNat? with
    | some n =>
      if n = 0 then some (st, "bad-op") else
      let (cs, e, r) := st.r.getstring n
      some ({ st with r := r }, s!"{if e < 0 then "-" else toHex cs} {if e < 0 then "err" else "ok"} {fmtR r}")
    | none => some (st, "bad-op")
  | _ => none

end Drv
