import BufrModel
/-
  bvp_lean — line-protocol driver: one operation per input line, one canonical
  result line per operation, computed by the *model*.
-/
open Bufr

structure St where
  w : W := W.new 0
  r : R := R.ofBytes []

def fmtW (w : W) : String := s!"{w.filled} {w.bitno} {w.maxDataLen}"
def fmtR (r : R) : String := s!"{r.cur} {r.bitno}"

def step (st : St) (line : String) : St × String :=
  let toks := (line.trimAscii.toString.splitOn " ").filter (· ≠ "")
  match toks with
  | ["reset"] => ({}, "ok")
  | ["w.new", n] => match n.toNat? with
    | some k => ({ st with w := W.new k }, "ok")
    | none => (st, "bad-op")
  | ["w.put", v, n] => match v.toNat?, n.toNat? with
    | some v, some n =>
      if n > 64 then (st, "abort")
      else let w := st.w.putbits v n; ({ st with w := w }, fmtW w)
    | _, _ => (st, "bad-op")
  | ["w.putstr", h] => match parseHex h with
    | some bs => let w := st.w.putstring bs; ({ st with w := w }, fmtW w)
    | none => (st, "bad-op")
  | ["w.padstr", h, e] => match parseHex h, e.toNat? with
    | some bs, some e => let w := st.w.putPadString bs e; ({ st with w := w }, fmtW w)
    | _, _ => (st, "bad-op")
  | ["w.bytes"] => (st, toHex st.w.bytes)
  | ["w.toreader"] =>
    let bs := st.w.bytes
    ({ st with r := R.ofBytes bs }, s!"{bs.length}")
  | ["r.new", h] => match parseHex h with
    | some bs => ({ st with r := R.ofBytes bs }, "ok")
    | none => (st, "bad-op")
  | ["r.get", n] => match n.toNat? with
    | some n => let (v, e, r) := st.r.getbits n; ({ st with r := r }, s!"{v} {e} {fmtR r}")
    | none => (st, "bad-op")
  | ["r.skip", n] => match n.toNat? with
    | some n => let (e, r) := st.r.skipBits n; ({ st with r := r }, s!"{e} {fmtR r}")
    | none => (st, "bad-op")
  | ["r.getstr", n] => match n.toNat? with
    | some n =>
      if n = 0 then (st, "bad-op") else
      let (cs, e, r) := st.r.getstring n
      ({ st with r := r }, s!"{if e < 0 then "-" else toHex cs} {if e < 0 then "err" else "ok"} {fmtR r}")
    | none => (st, "bad-op")
  | _ => (st, "bad-op")

partial def loop (h : IO.FS.Stream) (out : IO.FS.Stream) (st : St) : IO Unit := do
  let line ← h.getLine
  if line.isEmpty then return ()
  let t := line.trimAscii.toString
  if t.isEmpty || t.startsWith "#" then loop h out st
  else
    let (st', o) := step st line
    out.putStrLn o
    loop h out st'

def main : IO Unit := do
  let stdin ← IO.getStdin
  let stdout ← IO.getStdout
  loop stdin stdout {}
