import Driver.OpsBits
import Driver.OpsScale
import Driver.OpsTemplate
import Driver.OpsIeee
import Driver.OpsCodec
import Driver.OpsTables
import Driver.OpsFrame
import Driver.OpsTmplText
import Driver.OpsLocal
import Driver.OpsFind
import Driver.OpsDump
import Driver.OpsSwitch
import Driver.OpsOwn
/-
  bvp_lean — line-protocol driver: one operation per input line, one canonical
  result line per operation, computed by the *model*.  Each model area has its own
  Driver/OpsX.lean with a state record and a `stepX : St → List String → Option (St × String)`;
  this file only chains them.
-/
open Bufr Drv

structure St where
  bits : BitsSt := {}
  scale : ScaleSt := {}
  tm : TmplSt := {}
  ieee : IeeeSt := {}
  codec : CodecSt := {}
  tbl : TblSt := {}
  frame : FrameSt := {}
  tt : TTSt := {}
  dump : DumpSt := {}
  lt : LtSt := {}
  find : FindSt := {}
  sw : SwSt := {}
  -- the library called the application's abort handler: the objects it was working on are in an
  -- undefined state, nothing more is asked of them until `reset`
  poisoned : Bool := false
  own : OwnSt := {}

def step (st : St) (line : String) : St × String :=
  let toks := (line.trimAscii.toString.splitOn " ").filter (· ≠ "")
  -- `ds.decodemsg @`: the message the last `ds.msg` wrote
  let toks := if toks = ["ds.decodemsg", "@"] then
                (match st.dump.lastMsg with | some bs => ["ds.decodemsg", toHex bs] | none => ["ds.decodemsg", "@"])
              else toks
  if toks = ["reset"] then ({ tm := { sets := st.tm.sets } }, "ok") else
  if toks = ["own.reset"] then ({ tm := { sets := st.tm.sets } }, ownZeros) else   -- C16: what `reset` does, then the live counts
  match stepOwn st.own toks with
  | some (s, o) => ({ st with own := s }, o)
  | none =>
  match stepBits st.bits toks with
  | some (s, o) => ({ st with bits := s }, o)
  | none =>
  match stepTemplate st.tm toks with
  | some (s, o) => ({ st with tm := s }, o)
  | none =>
  match stepIeee st.ieee toks with
  | some (s, o) => ({ st with ieee := s }, o)
  | none =>
  match stepCodec st.tm st.codec toks with
  | some (t, c, o) => ({ st with tm := t, codec := c, dump := d13AfterCodec st.dump toks o }, o)
  | none =>
  match stepFrame st.frame toks with
  | some (s, o) => ({ st with frame := s }, o)
  | none =>
  match stepScale st.scale toks with
  | some (s, o) => ({ st with scale := s }, o)
  | none =>
  match stepFind st.tm st.codec st.find toks with
  | some (s, o) => ({ st with find := s }, o)
  | none =>
  match stepLocal st.tm st.lt toks with
  | some (t, l, o) => ({ st with tm := t, lt := l }, o)
  | none =>
  match stepDump st.tm st.codec st.dump toks with
  | some (t, c, d, o) => ({ st with tm := t, codec := c, dump := d }, o)
  | none =>
  match stepTmplText st.tm st.tt toks with
  | some (t, s, o) => ({ st with tm := t, tt := s }, o)
  | none =>
  match stepSwitch st.tm st.sw toks with
  | some (t, s, o) => ({ st with tm := t, sw := s }, o)
  | none => (st, "bad-op")

partial def loop (h : IO.FS.Stream) (out : IO.FS.Stream) (st : St) : IO Unit := do
  let line ← h.getLine
  if line.isEmpty then return ()
  let t := line.trimAscii.toString
  if t.isEmpty || t.startsWith "#" then loop h out st
  else
    let toks := (line.trimAscii.toString.splitOn " ").filter (· ≠ "")
    if st.poisoned && toks != ["reset"] then
      out.putStrLn "poisoned"
      loop h out st
    else
    let (st', o) ← (do
      match ← stepTables st.tbl toks with      -- tbl.* ops read table files: the only ops doing IO
      | some (s, o) => pure ({ st with tbl := s }, o)
      | none => pure (step st line))
    out.putStrLn o
    loop h out (if o == "abort" || o.endsWith " abort" then { st' with poisoned := true } else st')

def main : IO Unit := do
  let stdin ← IO.getStdin
  let stdout ← IO.getStdout
  loop stdin stdout {}
