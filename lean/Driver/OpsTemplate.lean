import BufrModel.Template
import BufrModel.Bitmap
import BufrSpec.Ops
import Std.Data.HashMap
/- driver ops for tables-as-loaded, templates and data subsets (C09, C10 and the codec units) -/
open Bufr
namespace Drv

structure TblSet where
  b : Std.HashMap Nat EntryB := {}
  d : Std.HashMap Nat EntryD := {}

def TblSet.toTables (t : TblSet) : Tables :=
  { fetchB := fun k => if Desc.f k = 0 then t.b[k]? else none, fetchD := fun k => t.d[k]? }

structure TmplSt where
  sets : Std.HashMap String TblSet := {}     -- persists across `reset`
  cur : TblSet := {}
  haveTables : Bool := false                  -- a `T.use` has selected tables since the last reset
  tmpl : Option Template := none
  subsets : Array Subset := #[]
  invalid : Bool := false
  hasDts : Bool := false                     -- a dataset object exists (C13: `ds.*` ops on `s`)
  dataFlag : Nat := 0                          -- `dts->data_flag` bits that reach Section 3 (observed, compressed)

def parseBType : String → Option BType
  | "4" => some .numeric | "5" => some .ccitt | "6" => some .codetable | "7" => some .flagtable | _ => none

/-- `desc,scale,ref,nbits,type;…` -/
def parseBDump (s : String) : Option (List EntryB) :=
  if s = "-" then some [] else
  (s.splitOn ";").filter (· ≠ "") |>.mapM fun item =>
    match item.splitOn "," with
    | [d, sc, r, nb, t] => do
      let d ← d.toNat?; let sc ← sc.toInt?; let r ← r.toInt?; let nb ← nb.toNat?; let t ← parseBType t
      pure { desc := d, scale := sc, ref := r, nbits := nb, typ := t }
    | _ => none

/-- `desc=m1,m2,…;…` -/
def parseDDump (s : String) : Option (List EntryD) :=
  if s = "-" then some [] else
  (s.splitOn ";").filter (· ≠ "") |>.mapM fun item =>
    match item.splitOn "=" with
    | [d, ms] => do
      let d ← d.toNat?
      let ms ← (ms.splitOn ",").filter (· ≠ "") |>.mapM (·.toNat?)
      pure { desc := d, members := ms }
    | _ => none

def fmtNode (n : Node) : String :=
  let v := if n.hasVal && n.flags.class31 then toString n.ival else "-"
  s!"{n.desc}/{n.flags.toNat}/{n.enc.type.code}/{n.enc.nbits}/{n.enc.scale}/{n.enc.ref}/{n.enc.afNbits}/{if n.hasVal then 1 else 0}/{v}"

def kindCode : Spec.Kind → Nat
  | .num => 4 | .ccitt => 5 | .code => 6 | .flag => 7 | .newRef => 8 | .ieee => 9 | .op => 2 | .none => 0

def fmtLayout (l : Spec.Layout) : String :=
  match l.kind with
  | .op | .none => s!"{l.desc}:{kindCode l.kind}"
  | .ccitt | .code | .flag | .ieee | .newRef => s!"{l.desc}:{kindCode l.kind}:{l.width}:{l.af}"
  | .num => s!"{l.desc}:{kindCode l.kind}:{l.width}:{l.scale}:{l.ref}:{l.af}"

def fmtNodes (ns : List Node) : String :=
  if ns.isEmpty then "-" else " ".intercalate (ns.map fmtNode)

def stepTemplate (st : TmplSt) (toks : List String) : Option (TmplSt × String) :=
  let T := st.cur.toTables
  match toks with
  | ["T.ingest", name, bs, ds] =>
    match parseBDump bs, parseDDump ds with
    | some b, some d =>
      let ts : TblSet := { b := b.foldl (fun m e => m.insert e.desc e) {}, d := d.foldl (fun m e => m.insert e.desc e) {} }
      some ({ st with sets := st.sets.insert name ts }, s!"ok {b.length} {d.length}")
    | _, _ => some (st, "bad-op")
  | ["T.use", name] =>
    match st.sets[name]? with
    | some ts => some ({ st with cur := ts, haveTables := true }, "ok")
    | none => some (st, "fail")
  | "tm.new" :: ed :: ds =>
    match ed.toNat?, ds.mapM (·.toNat?) with
    | some ed, some ds =>
      match createTemplate T defaultFuel ed ds with
      | .ok t => some ({ st with tmpl := some t, subsets := #[], invalid := false, dataFlag := 0, hasDts := false }, s!"ok {t.gabarit.length} {if t.hasDelayed then 1 else 0}")
      | .error .null => some ({ st with tmpl := none, subsets := #[], dataFlag := 0, hasDts := false }, "fail")
      | .error _ => some ({ st with tmpl := none, subsets := #[], dataFlag := 0, hasDts := false }, "diverge")
    | _, _ => some (st, "bad-op")
  | ["tm.gabarit"] =>
    match st.tmpl with
    | some t => some (st, fmtNodes t.gabarit)
    | none => some (st, "none")
  | ["ss.new"] =>
    match st.tmpl with
    | none => some (st, "-1")
    | some t =>
      match createDatasubsetB T defaultFuel t with
      | .ok (s, err) => some ({ st with subsets := st.subsets.push s, invalid := st.invalid || err, hasDts := true }, s!"{st.subsets.size}")
      | .error .abort => some ({ st with hasDts := true }, "abort")
      | .error _ => some ({ st with hasDts := true }, "-1")
  | ["ss.list", p] =>
    match p.toNat? with
    | some p => match st.subsets[p]? with
      | some s => some (st, fmtNodes s.nodes)
      | none => some (st, "none")
    | none => some (st, "bad-op")
  | ["ss.seti", p, i, v] =>
    match p.toNat?, i.toNat?, v.toInt? with
    | some p, some i, some v =>
      match st.subsets[p]? with
      | some s =>
        match s.nodes[i]? with
        | some n =>
          if class31Locked n then some (st, "-1")
          else if !n.flags.class31 || !n.hasVal || v < 0 || v ≥ 2 ^ n.enc.nbits.toNat then some (st, "unsupported")
          else
            let s' : Subset := { nodes := s.nodes.set i { n with val := n.val.setInt32 v } }
            some ({ st with subsets := st.subsets.set! p s' }, "1")
        | none => some (st, "none")
      | none => some (st, "none")
    | _, _, _ => some (st, "bad-op")
  | "ss.setfactors" :: p :: vs =>
    match p.toNat?, vs.mapM (·.toNat?) with
    | some p, some vs =>
      match st.subsets[p]? with
      | some s =>
        if vs.isEmpty then some (st, "bad-op") else
        let step := fun (acc : List Node × Nat) (n : Node) =>
          if isClass31Factor n.desc && n.flags.class31 && !n.expanded && !n.skipped && n.hasVal then
            let v := vs.getD (acc.2 % vs.length) 0
            let v' := v % 2 ^ n.enc.nbits.toNat
            ({ n with val := n.val.setInt32 v' } :: acc.1, acc.2 + 1)
          else (n :: acc.1, acc.2)
        let (nsRev, k) := s.nodes.foldl step ([], 0)
        some ({ st with subsets := st.subsets.set! p { nodes := nsRev.reverse } }, s!"{k}")
      | none => some (st, "none")
    | _, _ => some (st, "bad-op")
  | ["ss.expand", p] =>
    match p.toNat?, st.tmpl with
    | some p, some t =>
      match st.subsets[p]? with
      | some s =>
        match expandDatasubsetB T defaultFuel t s with
        | .ok (s', err) => some ({ st with subsets := st.subsets.set! p s', invalid := st.invalid || err }, s!"{s'.nodes.length}")
        | .error .abort => some (st, "abort")
        | .error _ => some ({ st with subsets := st.subsets.set! p { nodes := [] } }, "-1")
      | none => some (st, "-1")
    | some _, none => some (st, "-1")
    | _, _ => some (st, "bad-op")
  | ["ss.speclayout", p] =>
    -- the *regulation* layout (BufrSpec.Ops) of the data-bearing items of the subset
    match p.toNat?, st.tmpl with
    | some p, some t =>
      match st.subsets[p]? with
      | some s =>
        let its := (s.nodes.filter fun n => !n.flags.skipped && (Desc.f n.desc = 0 || Desc.f n.desc = 2)).map (·.desc)
        if Spec.inScope T t.edition {} its then
          some (st, "L " ++ " ".intercalate ((Spec.layoutAll T {} its).map fmtLayout))
        else some (st, "outside")
      | none => some (st, "none")
    | _, _ => some (st, "none")
  | ["ds.invalid"] => some (st, if st.invalid then "1" else "0")
  | _ => none

end Drv
