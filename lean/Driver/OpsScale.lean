import BufrModel.Basic
import BufrModel.SoftFloat
import BufrModel.Scale
/- driver ops for C08 (scale.* / cvt.*) -/
open Bufr Bufr.SF Bufr.Scale
namespace Drv

structure ScaleSt where
  dummy : Unit := ()

def scHexN (digits : Nat) (v : Nat) : String :=
  String.ofList ((List.range digits).reverse.map fun i => hexDigit ((v / 16 ^ i) % 16))

def scParseHexNat (s : String) : Option Nat :=
  s.toList.foldl (fun acc c => match acc, hexVal c with
    | some a, some d => some (16 * a + d)
    | _, _ => none) (some 0)

def scFmtD (x : FP) : String := scHexN 16 (toDoubleBits x)
def scFmtF (x : FP) : String := scHexN 8 (toFloatBits x)

def scParseEnc (s r n : String) : Option Enc :=
  match s.toInt?, r.toInt?, n.toNat? with
  | some s, some r, some n => some ⟨s, r, n⟩
  | _, _, _ => none

/-- one sweep step list (fuel-free: `List.range`) -/
def scSweepD (code : Desc) (e : Enc) (lo hi step : Nat) : String :=
  let miss := missingIvalue e.nbits
  let cnt := if hi ≤ lo then 0 else (hi - lo + step - 1) / step
  let (checked, nbad, first, _, _) :=
    (List.range cnt).foldl (fun (acc : Nat × Nat × Int × Rat × Bool) k =>
      let (checked, nbad, first, prev, have_) := acc
      let i := lo + k * step
      if i < miss then
        let x := cvtI64ToDval e i
        let ok := !(isMissingDouble (.fin x)) && (!have_ || decide (x > prev)) &&
                  cvtDvalToI64 code e (.fin x) == i
        (checked + 1, if ok then nbad else nbad + 1,
         if !ok && first < 0 then (i : Int) else first, x, true)
      else acc) (0, 0, -1, 0, false)
  s!"{checked} {nbad} {first}"

def scSweepF (code : Desc) (e : Enc) (lo hi step : Nat) : String :=
  let miss := missingIvalue e.nbits
  let cnt := if hi ≤ lo then 0 else (hi - lo + step - 1) / step
  let (checked, nbad, first, _, _) :=
    (List.range cnt).foldl (fun (acc : Nat × Nat × Int × Rat × Bool) k =>
      let (checked, nbad, first, prev, have_) := acc
      let i := lo + k * step
      if i < miss then
        let x := cvtI32ToFval e (i % 2^32)
        let ok := !(isMissingFloat (.fin x)) && (!have_ || decide (x > prev)) &&
                  cvtFvalToI32 code e (.fin x) == i
        (checked + 1, if ok then nbad else nbad + 1,
         if !ok && first < 0 then (i : Int) else first, x, true)
      else acc) (0, 0, -1, 0, false)
  s!"{checked} {nbad} {first}"

/-- `none` = not one of my ops -/
def stepScale (st : ScaleSt) (toks : List String) : Option (ScaleSt × String) :=
  let bad : Option (ScaleSt × String) := some (st, "bad-op")
  match toks with
  | ["scale.powcheck"] =>
    let ss := (List.range 41).map fun (k : Nat) => scFmtD (.fin (pow10 ((k : Int) - 20)))
    some (st, " ".intercalate ss)
  | ["cvt.i2d", s, r, n, raw] => match scParseEnc s r n, raw.toInt? with
    | some e, some i => some (st, scFmtD (.fin (cvtI64ToDval e i)))
    | _, _ => bad
  | ["cvt.d2i", d, s, r, n, h] => match d.toNat?, scParseEnc s r n, scParseHexNat h with
    | some d, some e, some b =>
      if h.length ≠ 16 then bad else some (st, toString (cvtDvalToI64 d e (ofDoubleBits b)))
    | _, _, _ => bad
  | ["cvt.i2f", s, r, n, raw] => match scParseEnc s r n, raw.toNat? with
    | some e, some i => some (st, scFmtF (.fin (cvtI32ToFval e (i % 2^32))))
    | _, _ => bad
  | ["cvt.f2i", d, s, r, n, h] => match d.toNat?, scParseEnc s r n, scParseHexNat h with
    | some d, some e, some b =>
      if h.length ≠ 8 then bad else some (st, toString (cvtFvalToI32 d e (ofFloatBits b)))
    | _, _, _ => bad
  | ["cvt.rtd", d, s, r, n, raw] => match d.toNat?, scParseEnc s r n, raw.toInt? with
    | some d, some e, some i =>
      let x := cvtI64ToDval e i
      some (st, s!"{scFmtD (.fin x)} {cvtDvalToI64 d e (.fin x)}")
    | _, _, _ => bad
  | ["cvt.rtf", d, s, r, n, raw] => match d.toNat?, scParseEnc s r n, raw.toNat? with
    | some d, some e, some i =>
      let x := cvtI32ToFval e (i % 2^32)
      some (st, s!"{scFmtF (.fin x)} {cvtFvalToI32 d e (.fin x)}")
    | _, _, _ => bad
  | ["cvt.i32", d, s, r, n, v] => match d.toNat?, scParseEnc s r n, v.toInt? with
    | some d, some e, some v => some (st, toString (int32Path d e v))
    | _, _, _ => bad
  | ["cvt.missing", n] => match n.toInt? with
    | some n => some (st, toString (missingIvalue n))
    | none => bad
  | ["cvt.ismissd", h] => match scParseHexNat h with
    | some b => if h.length ≠ 16 then bad else
        some (st, if isMissingDouble (ofDoubleBits b) then "1" else "0")
    | none => bad
  | ["cvt.ismissf", h] => match scParseHexNat h with
    | some b => if h.length ≠ 8 then bad else
        some (st, if isMissingFloat (ofFloatBits b) then "1" else "0")
    | none => bad
  | ["cvt.missd"] => some (st, scFmtD (.fin maxDouble))
  | ["cvt.missf"] => some (st, scFmtF (.fin maxFloat))
  | ["cvt.range", d, s, r, n] => match d.toNat?, scParseEnc s r n with
    | some d, some e => let (mn, mx) := getRange d e
      some (st, s!"1 {scFmtD (.fin mn)} {scFmtD (.fin mx)}")
    | _, _ => bad
  | ["cvt.setd", d, s, r, n, h] => match d.toNat?, scParseEnc s r n, scParseHexNat h with
    | some d, some e, some b =>
      if h.length ≠ 16 then bad else
      let x := ofDoubleBits b
      if isMissingDouble x then some (st, "ok 1")
      else if setDvalueAccepts d e x then some (st, "ok 0") else some (st, "err 1")
    | _, _, _ => bad
  | ["cvt.sweepd", d, s, r, n, lo, hi, step] =>
    match d.toNat?, scParseEnc s r n, lo.toNat?, hi.toNat?, step.toNat? with
    | some d, some e, some lo, some hi, some step =>
      if step = 0 then bad else some (st, scSweepD d e lo hi step)
    | _, _, _, _, _ => bad
  | ["cvt.sweepf", d, s, r, n, lo, hi, step] =>
    match d.toNat?, scParseEnc s r n, lo.toNat?, hi.toNat?, step.toNat? with
    | some d, some e, some lo, some hi, some step =>
      if step = 0 then bad else some (st, scSweepF d e lo hi step)
    | _, _, _, _, _ => bad
  | _ => none

end Drv
