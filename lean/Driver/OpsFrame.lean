import BufrModel.Basic
import BufrModel.Bits
import BufrModel.Header
import BufrModel.Frame
/- driver ops for C06 (msg.*) -/
open Bufr Bufr.Frame
namespace Drv

structure FrameSt where
  live : Bool := false
  m : Msg := createMessage 4
  w : W := W.new 64            -- Section 4 being written (bit cursor of BufrModel.Bits)
  dirty : Bool := true
  isRead : Bool := false
  last : Option Msg := none

/-- the message with Section 4 as the bit cursor currently has it -/
def FrameSt.cur (st : FrameSt) : Msg :=
  if st.isRead then st.m
  else { st.m with s4Data := st.w.bytes, s4Filled := st.w.filled, s4Bitno := st.w.bitno }

/-- after `bufr_end_message`: if the model padded Section 4, do the same `bufr_putbits(0, nbits)` on the cursor -/
def FrameSt.afterEnd (st : FrameSt) (m' : Msg) : FrameSt :=
  let w := if m'.s4Data.length ≠ st.w.bytes.length then
             st.w.putbits 0 (if st.w.bitno = 0 then 8 else 16 - st.w.bitno)
           else st.w
  { st with m := m', w := w, dirty := false }

def joinWith (sep : String) (xs : List String) : String := sep.intercalate xs

def showMsg (m : Msg) : String :=
  let s := m.s1
  let s1 := joinWith "," ([s.len, s.headerLen, s.masterTable, s.centre, s.subCentre, s.updSeq, s.flag,
    s.msgType, s.interSub, s.localSub, s.masterVer, s.localVer, s.year, s.month, s.day, s.hour,
    s.minute, s.second].map toString)
  let ds := if m.descs.isEmpty then "-" else joinWith "," (m.descs.map toString)
  let h := match m.header with | none => "none" | some h => toHex h
  s!"ed={m.edition} len={m.lenMsg} s1={s1} s1d={toHex s.data} s2={m.s2Len},{toHex m.s2Data} " ++
  s!"s3={m.s3Len},{m.nSubsets},{m.s3Flag} d={ds} s3d={toHex (m.s3Buf.take (m.s3Len - 7))} " ++
  s!"s4={m.s4Len},{m.s4Filled},{m.s4Bitno},{toHex m.s4Data} h={h}"

def natTok (s : String) (max : Nat) : Option Nat :=
  if s.isEmpty ∨ ¬ s.toList.all Char.isDigit then none
  else match s.toNat? with
    | some v => if v ≤ max then some v else none
    | none => none

/-- one `key=value` of `msg.s1`; `none` = bad token -/
def s1Set (s : Sect1) (tok : String) : Option Sect1 :=
  match tok.splitOn "=" with
  | [k, v] =>
    if k = "data" then (parseHex v).map (fun d => { s with data := d })
    else
      let max := if k = "centre" ∨ k = "len" then 2147483647 else 32767
      match natTok v max with
      | none => none
      | some n =>
        if k = "mt" then some { s with masterTable := n }
        else if k = "centre" then some { s with centre := n }
        else if k = "sub" then some { s with subCentre := n }
        else if k = "upd" then some { s with updSeq := n }
        else if k = "flag" then some { s with flag := n }
        else if k = "type" then some { s with msgType := n }
        else if k = "isub" then some { s with interSub := n }
        else if k = "lsub" then some { s with localSub := n }
        else if k = "mver" then some { s with masterVer := n }
        else if k = "lver" then some { s with localVer := n }
        else if k = "year" then some { s with year := n }
        else if k = "month" then some { s with month := n }
        else if k = "day" then some { s with day := n }
        else if k = "hour" then some { s with hour := n }
        else if k = "minute" then some { s with minute := n }
        else if k = "second" then some { s with second := n }
        else if k = "len" then some { s with len := n }
        else none
  | _ => none

inductive Path | file | fd | mem | cb (chunk : Nat)

def parsePath (s : String) : Option Path :=
  if s = "file" then some .file else if s = "fd" then some .fd else if s = "mem" then some .mem
  else if s = "cb" then some (.cb 0)
  else if s.startsWith "cb" then (natTok (s.drop 2).toString 1000000).map Path.cb
  else none

def pathSrc : Path → Src Cur
  | .file => fileSrc
  | .fd => fdSrc
  | .mem => memSrc
  | .cb k => cbSrc k

/-- one call of the path's reader on the cursor: message, bytes consumed, cursor afterwards -/
def readVia (p : Path) (c : Cur) : Res (Msg × Nat × Cur) :=
  match readMessageSrc (pathSrc p) c with
  | .ok (m, c') => .ok (m, c'.pos - c.pos, c')
  | .err => .err

def readAllVia (p : Path) : Nat → Cur → List (Nat × Msg) → List (Nat × Msg) × String
  | 0, _, acc => (acc.reverse, "rc=-1")
  | fuel + 1, c, acc =>
    match readVia p c with
    | .ok (m, n, c') => readAllVia p fuel c' ((n, m) :: acc)
    | .err => (acc.reverse, "rc=-1")

def stepFrame (st : FrameSt) (toks : List String) : Option (FrameSt × String) :=
  match toks with
  | "msg.new" :: args =>
    match args with
    | [e] => match natTok e 1000000 with
      | some ed =>
        let m := createMessage ed
        some ({ live := true, m := { m with s4Len := 68 }, w := W.new 64, dirty := true, isRead := false,
                last := st.last }, "ok")
      | none => some (st, "bad-op")
    | _ => some (st, "bad-op")
  | "msg.s1" :: args =>
    if ¬ st.live ∨ args.isEmpty then some (st, "bad-op") else
    match args.foldl (fun (acc : Option Sect1) t => acc.bind (fun s => s1Set s t)) (some st.m.s1) with
    | some s1 => some ({ st with m := { st.m with s1 := s1 }, dirty := true }, "ok")
    | none => some (st, "bad-op")
  | ["msg.s2", h] =>
    if ¬ st.live then some (st, "bad-op") else
    match parseHex h with
    | some d => some (st.afterEnd (st.cur.sect2SetData d), "ok")
    | none => some (st, "bad-op")
  | "msg.s3" :: ns :: fl :: ds =>
    if ¬ st.live then some (st, "bad-op") else
    match natTok ns 2147483647, natTok fl 255, ds.mapM (fun d => natTok d 2147483647) with
    | some ns, some fl, some ds =>
      some ({ st with m := { st.m with nSubsets := ns, s3Flag := fl, descs := ds }, dirty := true }, "ok")
    | _, _, _ => some (st, "bad-op")
  | "msg.s4" :: h :: rest =>
    if ¬ st.live ∨ st.isRead then some (st, "bad-op") else
    match parseHex h, (match rest with
                       | [] => some 0
                       | [k] => (natTok k 7).bind (fun k => if k = 0 then none else some k)
                       | _ => none) with
    | some bs, some k =>
      let w := if bs.isEmpty then st.w else st.w.putstring bs
      let w := if k = 0 then w else w.putbits (2 ^ k - 1) k
      some ({ st with w := w, dirty := true }, "ok")
    | _, _ => some (st, "bad-op")
  | ["msg.header", h] =>
    if ¬ st.live then some (st, "bad-op") else
    if h = "none" then some ({ st with m := { st.m with header := none } }, "ok") else
    match parseHex h with
    | some bs =>
      if bs.contains 0 then some (st, "bad-op")
      else some ({ st with m := { st.m with header := some bs } }, "ok")
    | none => some (st, "bad-op")
  | ["msg.end"] =>
    if ¬ st.live then some (st, "bad-op") else
    let m := st.cur.endMessage
    some (st.afterEnd m, s!"{m.lenMsg} {m.s1.len} {m.s2Len} {m.s3Len} {m.s4Len} {m.s4Filled} {m.s4Bitno}")
  | ["msg.show"] =>
    if ¬ st.live then some (st, "bad-op") else some (st, showMsg st.cur)
  | "msg.write" :: p :: rest =>
    if ¬ st.live then some (st, "bad-op") else
    match parsePath p, (match rest with
                        | [] => some none
                        | [n] => (natTok n 100000000).map some
                        | _ => none) with
    | some path, some buflen =>
      match path with
      | .cb (_ + 1) => some (st, "bad-op")
      | _ =>
      if p ≠ "cb" ∧ p ≠ "mem" ∧ p ≠ "file" ∧ p ≠ "fd" then some (st, "bad-op") else
      if st.dirty ∧ st.m.lenMsg ≤ BUFR_MAX_MSG_LEN then some (st, "stale") else
      match writeMessage st.cur with
      | .err => some (st, "-1 -")
      | .ok (m', bytes) =>
        let st' := { st with m := { st.m with s1 := m'.s1 } }
        match path with
        | .mem =>
          let out := match buflen with | some n => bytes.take n | none => bytes
          some (st', s!"{out.length} {toHex out}")
        | _ => some (st', s!"0 {toHex bytes}")
    | _, _ => some (st, "bad-op")
  | ["msg.read", p, h] =>
    match parsePath p, parseHex h with
    | some path, some bs =>
      match readVia path { data := bs, pos := 0 } with
      | .ok (m, n, _) => some ({ st with last := some m }, s!"1 {n} {showMsg m}")
      | .err => some (st, "-1 -")
    | _, _ => some (st, "bad-op")
  | ["msg.readall", p, h] =>
    match parsePath p, parseHex h with
    | some path, some bs =>
      let (items, fin) := readAllVia path (bs.length + 1) { data := bs, pos := 0 } []
      let tail := s!"n={items.length} {fin}"
      let last := match items.getLast? with | some (_, m) => some m | none => st.last
      some ({ st with last := last }, joinWith " | " (items.map (fun (n, m) => s!"{n} {showMsg m}") ++ [tail]))
    | _, _ => some (st, "bad-op")
  | ["msg.s1copy"] =>
    -- a new message of the same edition receives Section 1 through `bufr_copy_sect1`
    if ¬ st.live then some (st, "bad-op") else
    let n := createMessage st.m.edition
    some (st, showMsg { n with s1 := copySect1 n.s1 st.m.s1 })
  | ["msg.adopt"] =>
    match st.last with
    | some m => some ({ st with live := true, m := m, isRead := true, dirty := false, last := none }, "ok")
    | none => some (st, "bad-op")
  | _ => none

end Drv
