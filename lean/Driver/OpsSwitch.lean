import Driver.OpsCodec
import Driver.OpsScale
import BufrModel.Switches
import BufrModel.Sprintf
/- driver ops of C15: the run-time switches (`Switches`), direct value setters, lookups on the current
tables, the file readers that only produce messages here, and `sprintf` as modelled in
BufrModel/Sprintf.lean (`sp.fmt`).  The model functions behind every other op take no switch: the
`sw.set` ops only update the record that `sw.get` prints. -/
open Bufr
namespace Drv

structure SwSt where
  sw : Switches := {}

def parseSw : String → Option Sw
  | "debug" => some .debug | "verbose" => some .verbose | "meta" => some .rtmd
  | "trimzero" => some .trimzero | "ieee" => some .ieee | _ => none

def b01 (b : Bool) : Nat := if b then 1 else 0

def btypeCode : BType → Nat
  | .numeric => 4 | .ccitt => 5 | .codetable => 6 | .flagtable => 7

/-- one `sp.fmt` argument: the value and the bound its announced C type gives -/
def parseSpArg (a : String) : Option (Sprintf.Arg × Sprintf.ArgB) :=
  match a.splitOn ":" with
  | ["i", v] => v.toInt?.map fun v => (.int v, .int 32 true)
  | ["u", v] => v.toNat?.map fun v => (.int v, .int 32 false)
  | ["l", v] => v.toInt?.map fun v => (.int v, .int 64 true)
  | ["ul", v] => v.toNat?.map fun v => (.int v, .int 64 false)
  | ["d", h] => if h.length = 16 then (scParseHexNat h).map fun b => (.dbl (SF.ofDoubleBits b), .dbl) else none
  | ["f", h] => if h.length = 8 then (scParseHexNat h).map fun b => (.dbl (SF.ofFloatBits b), .flt) else none
  | ["p", v] => v.toNat?.map fun v => (.ptr v, .ptr)
  | ["s", h] => (parseHex h).map fun bs => (.str (Printf.cstr bs), .str (Printf.cstr bs).length)
  | _ => none

def stepSwitch (tm : TmplSt) (st : SwSt) (toks : List String) : Option (TmplSt × SwSt × String) :=
  match toks with
  | ["sw.set", name, v] =>
    match parseSw name, v.toInt? with
    | some w, some v => some (tm, { st with sw := st.sw.set w v }, "ok")
    | _, _ => some (tm, st, "bad-op")
  | ["sw.get"] =>
    some (tm, st, s!"{b01 st.sw.isDebug} {b01 st.sw.isVerbose} {b01 st.sw.isMeta} {b01 st.sw.isTrimzero}")
  | ["sw.diag"] => some (tm, st, "ok")
  | ["sw.mark", _] => some (tm, st, "ok")
  | ["ss.setd", p, i, h] =>
    match p.toNat?, i.toNat?, scParseHexNat h with
    | some p, some i, some b =>
      let (tm', o) := updNode tm p i fun n =>
        if n.flags.skipped || !n.val.isSome then (n, 0) else
        match n.val with
        | .f64 _ => ({ n with val := .f64 (SF.ofDoubleBits b) }, 1)
        | _ => (n, 0)
      some (tm', st, o)
    | _, _, _ => some (tm, st, "bad-op")
  | ["sw.fetchB", d] =>
    match d.toNat? with
    | some d =>
      if !tm.haveTables then some (tm, st, "none") else
      match tm.cur.toTables.fetchB d with
      | some e => some (tm, st, s!"{e.desc},{e.scale},{e.ref},{e.nbits},{btypeCode e.typ}")
      | none => some (tm, st, "none")
    | none => some (tm, st, "none")
  | ["sw.fetchD", d] =>
    match d.toNat? with
    | some d =>
      if !tm.haveTables || Desc.f d ≠ 3 then some (tm, st, "none") else
      match tm.cur.toTables.fetchD d with
      | some e => some (tm, st, s!"{e.desc}=" ++ ",".intercalate (e.members.map toString))
      | none => some (tm, st, "none")
    | none => some (tm, st, "none")
  | ["sw.vprint", _, n] =>
    match n.toNat? with
    | some n => if n > 10000000 then some (tm, st, "bad-op") else some (tm, st, s!"ok {n + 2} 1")
    | none => some (tm, st, "bad-op")
  | ["sw.cmc", _, h] => some (tm, st, if (parseHex h).isSome then "done" else "bad-op")
  | ["sw.loadtmpl", h] => some (tm, st, if tm.haveTables && (parseHex h).isSome then "done" else "bad-op")
  | ["sw.loaddata", h] => some (tm, st, if tm.hasDts && (parseHex h).isSome then "done" else "bad-op")
  | ["sw.genmsgs", a, b] =>
    some (tm, st, if tm.tmpl.isSome && (parseHex a).isSome && (parseHex b).isSome then "done" else "bad-op")
  | "sp.fmt" :: h :: as =>
    match parseHex h, as.mapM parseSpArg with
    | some fmt, some xs =>
      let fmt := Printf.cstr fmt
      let bound := match Sprintf.maxLen fmt (xs.map (·.2)) with | some m => toString m | none => "-"
      match Sprintf.render fmt (xs.map (·.1)) with
      | some out => some (tm, st, s!"{toHex out} {bound}")
      | none => some (tm, st, "unmodelled -")
    | _, _ => some (tm, st, "bad-op")
  | _ => none

end Drv
