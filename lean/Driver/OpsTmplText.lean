import Driver.OpsCodec
import BufrModel.TemplateText
/- driver ops for templates with default values, their text form, copies and comparison (C18) -/
open Bufr Bufr.TT
namespace Drv

structure TTSt where
  slots : Array (Option TmplV) := Array.replicate 8 none

def slotNo (s : String) : Option Nat :=
  match s.toNat? with
  | some k => if s.length = 1 ∧ k < 8 then some k else none
  | none => none

def hexNat (s : String) : Option Nat :=
  s.toList.foldlM (fun a c => (hexVal c).map fun d => a * 16 + d) 0

/-- one value: `i:<int> l:<int> f:<8 hex> d:<16 hex> s:<hex|->` -/
def parseValTok (s : String) : Option Val :=
  let body := (s.drop 2).toString
  if s.length < 3 then none else
  match (s.take 2).toString with
  | "i:" => body.toInt?.map fun v => Val.i32 (SF.wrapI32 v)
  | "l:" => body.toInt?.map Val.i64
  | "f:" => (hexNat body).map fun b => Val.f32 (SF.ofFloatBits b)
  | "d:" => (hexNat body).map fun b => Val.f64 (SF.ofDoubleBits b)
  | "s:" => (parseHex body).map fun bs => Val.str (strPad (some bs) bs.length)
  | _ => none

/-- `desc[=v;v;…]` -/
def parseItem (s : String) : Option DescVal :=
  match s.splitOn "=" with
  | [d] => d.toNat?.map fun d => { desc := d }
  | [d, vs] => do
    let d ← d.toNat?
    let vals ← (vs.splitOn ";").mapM parseValTok
    pure { desc := d, vals := vals }
  | _ => none

def fmtV : Val → String
  | .none => "-"
  | .i32 v => s!"i:{v}"
  | .i64 v => s!"l:{v}"
  | .f32 x => s!"f:{hex8 (SF.toFloatBits x)}"
  | .f64 x => s!"d:{hex16 (SF.toDoubleBits x)}"
  | .str bs => s!"s:{toHex bs}"

def fmtDescVal (c : DescVal) : String :=
  if c.vals.isEmpty then toString c.desc else s!"{c.desc}=" ++ ";".intercalate (c.vals.map fmtV)

def putSlot (ts : TTSt) (k : Nat) (r : Option TmplV) : TTSt × String :=
  match r with
  | some t => ({ ts with slots := ts.slots.set! k (some t) }, s!"ok {t.gabarit.length} {if t.hasDelayed then 1 else 0}")
  | none => ({ ts with slots := ts.slots.set! k none }, "fail")

def stepTmplText (st : TmplSt) (ts : TTSt) (toks : List String) : Option (TmplSt × TTSt × String) :=
  let T := st.cur.toTables
  let get (k : Nat) : Option TmplV := (ts.slots[k]?).join
  match toks with
  | "tm.newv" :: k :: ed :: items =>
    match slotNo k, ed.toInt?, items.mapM parseItem with
    | some k, some ed, some cs =>
      match createTemplateV T defaultFuel ed cs with
      | .ok t => let (ts', o) := putSlot ts k (some t); some (st, ts', o)
      | .error .fuel => some (st, ts, "diverge")
      | .error _ => let (ts', o) := putSlot ts k none; some (st, ts', o)
    | _, _, _ => some (st, ts, "bad-op")
  | ["tm.save", k] =>
    match slotNo k with
    | some k => match get k with
      | some t => some (st, ts, toHex (save t))
      | none => some (st, ts, "none")
    | none => some (st, ts, "bad-op")
  | ["tm.loadtext", k, h] =>
    match slotNo k, parseHex h with
    | some k, some bytes =>
      match load T defaultFuel bytes with
      | .ok t => let (ts', o) := putSlot ts k (some t); some (st, ts', o)
      | .error .refused => let (ts', o) := putSlot ts k none; some (st, ts', o)
      | .error .diverge => some (st, ts, "diverge")
    | _, _ => some (st, ts, "bad-op")
  | ["tm.reload", a, b] =>
    match slotNo a, slotNo b with
    | some a, some b =>
      if a = b then some (st, ts, "bad-op") else
      match get b with
      | none => some (st, ts, "none")
      | some t =>
        match load T defaultFuel (save t) with
        | .ok t' => let (ts', o) := putSlot ts a (some t'); some (st, ts', o)
        | .error .refused => let (ts', o) := putSlot ts a none; some (st, ts', o)
        | .error .diverge => some (st, ts, "diverge")
    | _, _ => some (st, ts, "bad-op")
  | ["tm.copy", a, b] =>
    match slotNo a, slotNo b with
    | some a, some b =>
      if a = b then some (st, ts, "bad-op") else
      match get b with
      | none => some (st, ts, "none")
      | some t =>
        match copyTemplate T defaultFuel t with
        | .ok t' => let (ts', o) := putSlot ts a (some t'); some (st, ts', o)
        | .error .fuel => some (st, ts, "diverge")
        | .error _ => let (ts', o) := putSlot ts a none; some (st, ts', o)
    | _, _ => some (st, ts, "bad-op")
  | ["tm.compare", a, b] =>
    match slotNo a, slotNo b with
    | some a, some b =>
      match get a, get b with
      | some t1, some t2 => some (st, ts, toString (compareTemplate t1 t2))
      | _, _ => some (st, ts, "none")
    | _, _ => some (st, ts, "bad-op")
  | ["tm.descvals", k] =>
    match slotNo k with
    | some k => match get k with
      | some t => some (st, ts, " ".intercalate (toString t.edition :: t.codets.map fmtDescVal))
      | none => some (st, ts, "none")
    | none => some (st, ts, "bad-op")
  | ["tm.gabvals", k] =>
    match slotNo k with
    | some k => match get k with
      | some t =>
        some (st, ts, if t.gabarit.isEmpty then "-" else
          " ".intercalate (t.gabarit.map fun n => s!"{n.desc}/{n.flags.toNat}={fmtV n.val}"))
      | none => some (st, ts, "none")
    | none => some (st, ts, "bad-op")
  | ["tm.use", k] =>
    match slotNo k with
    | some k => match get k with
      | some t =>
        some ({ st with tmpl := some t.toTemplate, subsets := #[], invalid := false },
              { ts with slots := ts.slots.set! k none }, "ok")
      | none => some (st, ts, "none")
    | none => some (st, ts, "bad-op")
  | _ => none

end Drv
