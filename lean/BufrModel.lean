import BufrModel.Basic
import BufrModel.Bits
