import BufrModel.Basic
import BufrModel.Bits
import BufrModel.TableTypes
import BufrModel.Core
import BufrModel.Ops
import BufrModel.Expand
