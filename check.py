#!/usr/bin/env python3
"""check.py <Cxx> [--tier quick|thorough] [--replay FILE]   |   check.py --setup"""
import argparse, importlib, os, sys
sys.path.insert(0, os.path.dirname(os.path.abspath(__file__)))
from vlib import build, engine

def setup():
    ok, log = build.lake_build(["BufrModel", "BufrSpec", "BufrProofs", "BufrProps", "Audit", "bvp_lean"])
    if not ok:
        print(log[-4000:])
        return 1
    build.build_impl("san")
    print("setup ok")
    return 0

def main():
    ap = argparse.ArgumentParser()
    ap.add_argument("prop", nargs="?")
    ap.add_argument("--tier", default=os.environ.get("VERIF_TIER", "quick"))
    ap.add_argument("--replay")
    ap.add_argument("--setup", action="store_true")
    a = ap.parse_args()
    if a.setup:
        sys.exit(setup())
    if not a.prop:
        ap.error("property id required")
    seed = int(os.environ.get("VERIF_SEED", "1"))
    mod = importlib.import_module("props." + a.prop.lower())
    sys.exit(engine.run_check(mod, a.tier, seed, replay=a.replay))

if __name__ == "__main__":
    main()
